#!/usr/bin/env python3
"""Validate MANIFEST.json and evidence/*.json against the schemas (run with python3-vt)."""
import json, glob, sys
import jsonschema
ok = True
m = json.load(open('/verif/MANIFEST.json'))
jsonschema.validate(m, json.load(open('/root/.vp/MANIFEST.schema.json')))
es = json.load(open('/root/.vp/EVIDENCE.schema.json'))
for c in m['checks']:
    p = c['evidence_file']
    try:
        e = json.load(open(p))
        jsonschema.validate(e, es)
        assert e['property_id'] == c['property_id'] and e['level'] == c['level_claimed']['category']
        print('ok ', p, e['tier'], e['coverage'].get('evaluations'), e['coverage'].get('distinct_nontrivial'), e['wall_s'])
    except Exception as ex:
        ok = False
        print('BAD', p, repr(ex)[:300])
sys.exit(0 if ok else 1)
