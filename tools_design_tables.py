#!/usr/bin/env python3
"""Regenerate the tables of DESIGN.md from known_findings.json and seeded/*/meta.json."""
import glob, json, os, re
HERE = os.path.dirname(os.path.abspath(__file__))
k = json.load(open(os.path.join(HERE, 'known_findings.json')))['findings']

def cell(s, n=170):
    s = ' '.join(str(s).split()).replace('|', '/')
    return s if len(s) <= n else s[: n - 1] + '…'

fixed = [e for e in k if e['status'] == 'fixed']
known = [e for e in k if e['status'] == 'known']
out = ['### Repaired in /repo (`fix:` commits; recorded as `fixed`, each with a regression probe)\n',
       '| property | commit | failure key | what failed |', '|---|---|---|---|']
seen = set()
for e in fixed:
    out.append(f"| {e['property']} | {e.get('commit', '')} | `{cell(e['key'], 70)}` | {cell(e['what'])} |")
out += ['', f'{len({e["commit"] for e in fixed})} repair commits, {len(fixed)} regression probes.', '',
        '### Recorded as known findings (engine-level, not small, or blocked by pinned tests)\n',
        '| property | key | what fails | probe |', '|---|---|---|---|']
for e in known:
    out.append(f"| {e['property']} | `{cell(e['key'], 60)}` | {cell(e['what'], 260)} | {'yes' if e.get('probe') else 'no (always listed)'} |")
findings = '\n'.join(out)

rows = ['| change | needs to manifest | caught | first keys reported |', '|---|---|---|---|']
n = d = 0
for p in sorted(glob.glob(os.path.join(HERE, 'seeded', '*'))):
    try:
        m = json.load(open(os.path.join(p, 'meta.json')))
    except Exception:
        continue
    n += 1
    d += bool(m.get('detected'))
    keys = ', '.join(x.replace('key=', '').rstrip(':') for x in m.get('check_keys', [])[:2])
    rows.append(f"| {os.path.basename(p)}: {cell(m.get('summary', ''), 150)} | {cell(m.get('needs_to_manifest', ''), 150)} | "
                f"{('yes (by ' + m['detected_by'] + ')') if m.get('detected') and m.get('detected_by') else 'yes' if m.get('detected') else 'NO'} | `{cell(keys, 110)}` |")
rows.append('')
rows.append(f'{d} of {n} seeded changes are caught by the quick tier of their property\'s check (or of the check named in the third column).')
seeded = '\n'.join(rows)

path = os.path.join(HERE, 'DESIGN.md')
s = open(path).read()
for tag, body in (('FINDINGS', findings), ('SEEDED', seeded)):
    a, b = f'<!-- TABLES:{tag} -->', f'<!-- /TABLES:{tag} -->'
    i, j = s.index(a), s.index(b)
    s = s[:i] + a + '\n' + body + '\n' + s[j:]
open(path, 'w').write(s)
print('tables written:', len(fixed), 'fixed', len(known), 'known', n, 'seeded')
