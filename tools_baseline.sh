#!/bin/bash
# Run the repository's baseline suite (guard off) and compare with BASELINE.json's stable_pass list.
out=${1:-/tmp/baseline_run.xml}
cd /repo && env -u BIOGEME_VERIF /venv/bin/python -m pytest -ra -q -p no:cacheprovider --timeout=900 --continue-on-collection-errors --junitxml=$out > ${out%.xml}.log 2>&1
/venv/bin/python - "$out" <<'PY'
import json, sys, xml.etree.ElementTree as ET
base = set(json.load(open('/root/.vp/BASELINE.json'))['stable_pass'])
passed = set()
for tc in ET.parse(sys.argv[1]).getroot().iter('testcase'):
    bad = any(ch.tag in ('failure', 'error', 'skipped') for ch in tc)
    if not bad:
        passed.add(f"{tc.get('classname')}::{tc.get('name')}")
missing = sorted(base - passed)
print(f'baseline stable tests: {len(base)}; passing now: {len(base & passed)}; missing: {len(missing)}')
for m in missing[:40]: print('  MISSING', m)
PY
