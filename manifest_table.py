"""Source of MANIFEST.json (run ./tools_manifest.py after editing)."""

FIX_COMMITS = ['aa8a796', 'e19c32a', '9330350', '8599158', '33efd15', '1cc24ab', '668079e', 'f34decb', 'f0c9eb4', 'f63685a', 'f41aea7', '4c9fae6']

_ALL = ['C%02d' % i for i in range(1, 21)]

CHECKS = [
    dict(
        id='C01',
        text='Typed random expression DAGs (every operator kind of the statement, explicit sub-tree sharing, Python '
             'literals and operator overloads, partial parameter dictionaries) on random tables are evaluated through '
             'get_value_c, get_value_and_derivatives, aggregated mode, the pure-Python get_value and BIOGEME.simulate of '
             'several formulas side by side, and compared row by row with an independent reference semantics that carries '
             'forward error bounds (well-posedness filter). Exploration fits a property over unbounded programs x inputs.',
        note='Trusts vlib/refsem.py (reference evaluator) and its error analysis; the compiled engine is a black box; '
             'ill-posed cases (<20%) are counted and not judged; one engine-level defect is a listed known finding.',
        technique='property-based testing (Hypothesis): generated expression DAGs vs independent reference evaluator, '
                  'differential Python-vs-engine and shared-vs-unshared metamorphic relation',
    ),
    dict(
        id='C02',
        text='Differentiable random expression DAGs (2-5 free parameters with adversarial names, interacting terms) are '
             'differentiated through every public entry point (get_value_and_derivatives aggregated / per observation / '
             'reduced requests / named results, create_function, create_objective_function, '
             'BIOGEME.calculate_likelihood_and_derivatives scaled and unscaled, check_derivatives) and compared entry by '
             'entry with forward-mode second-order jets of the reference semantics; symmetry, BHHH = sum of outer products, '
             'aggregate = sum of per-observation outputs, name <-> index mapping are asserted. Exploration over programs x inputs.',
        note='Trusts the reference jets (cross-checked by finite differences of the reference value, which also filters '
             'kinks); tolerance 2e-6 relative; four engine-level defects are listed known findings and bucketed by structure.',
        technique='property-based testing (Hypothesis): generated differentiable DAGs vs reference automatic differentiation (jets)',
    ),
    dict(
        id='C08',
        text='Generated raw outcomes, no estimation: K = 1..6 parameters in sorted and adversarial name orders, negative-definite '
             '(cond <= ~1e8) or exactly rank-deficient Hessians, PSD BHHH incl. BHHH = -H, optional null log likelihood, optional '
             'B x K bootstrap sample, active/inactive bounds, sample size != observations. Every figure of get_general_statistics, '
             'the three variance-covariance matrices, the Beta objects, get_estimated_parameters (both modes), '
             'get_correlation_results, the HTML/str/short summaries, compile_estimation_results (1-3 models x flag combinations) '
             'and likelihood_ratio_test (both argument orders) is recomputed from its defining formula and compared cell by cell.',
        note='Trusted base: exact rational arithmetic (fractions.Fraction) for statistics, pseudo-inverse, sandwich and sample '
             'covariance; scipy.special.erfc / chdtri; a stub model exposing exactly the attributes RawResults.__init__ reads. '
             'Zero-variance sentinel conventions, equal-K likelihood-ratio tests, H=None and LaTeX/F12 output are not judged.',
        technique='property-based testing (Hypothesis) with an exact-arithmetic reference oracle over synthetic raw results',
    ),
    dict(
        id='C10',
        text='Monte-Carlo: generated integrands over 1-3 named draw variables (deterministic user-defined generators and '
             'native types, names whose sorted order differs from order of appearance), R in 2..24, are evaluated through '
             'get_value_c and BIOGEME.calculate_likelihood; recording wrappers show that slab k of the draw table is exactly '
             'what the generator of the k-th variable\'s declared type produced, the value is the arithmetic mean over draws '
             'of the reference semantics, and non-zero seeds reproduce bit for bit. Integrate is compared with adaptive '
             'quadrature, Derive with reference automatic differentiation. Exploration over programs x inputs x configurations.',
        note='Recording is done by replacing catalogue entries inside the check process; integrands restricted to g(w) x normal '
             'density with moderate curvature (quadrature accuracy 1e-6); engine defects of shared pieces are listed known findings.',
        technique='property-based testing (Hypothesis): generated integrands vs reference mean/quadrature/AD, recorded generator output',
    ),
    dict(
        id='C11',
        text='Generated search over all 21 catalogue entries x sizes x seeds and over the quantile transform on '
             '(0,1) incl. extreme tails, judged against an independently coded radical inverse, stratum counting, '
             'mirror/2u-1 relations under a common seed and scipy.special.ndtri (1e-13 rel/abs). Exploration is the '
             'right level: the property quantifies over unbounded sizes and a continuum of uniforms.',
        note='Trusts scipy.special.ndtri/ndtr and numpy seeding; explores even draw counts up to 120, sample sizes up to 12.',
        technique='property-based testing (Hypothesis): reference-model + metamorphic oracles over generated sizes/seeds/uniforms',
    ),
]

CHECKS.append(dict(
    id='C17',
    text='Hypothesis-generated threshold lists (open/closed ends, non-zero first threshold), Box-Cox exponents concentrated '
         'around 0 and the +-1e-5 switching point, distribution parameters with arguments inside, on the edges of and outside '
         'the support, segmentations and nest structures with name dictionaries in arbitrary order. Every helper expression is '
         'built with the real library and evaluated by the compiled engine in a forked child, and compared with an independent '
         'closed form (math/numpy/scipy.stats); densities are integrated with scipy quad using the engine as integrand; '
         'generated segmentation code is executed and compared with the expression (values and parameter attributes).',
    note='Trusts math.expm1/log, scipy.stats and quad; closed forms for open ends and the shift-parameter naming are taken from '
         'the docstrings/unit tests; inputs restricted to the documented domains (increasing thresholds, sigma > 0, a < c < b, '
         'mu_m >= 1, disjoint nests, no subnormal literals). Seven defects found by this check were repaired (fix: commits).',
    technique='property-based testing (Hypothesis): helper expressions vs reference closed forms, quadrature, exec round trip of generated code',
))

_claimed = {c['id'] for c in CHECKS}
NOT_APPLICABLE = [
    dict(property_id=p, reason='check not built yet (work in progress; planned in DESIGN.md section 3)')
    for p in _ALL if p not in _claimed
]
