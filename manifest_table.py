"""Source of MANIFEST.json (run ./tools_manifest.py after editing)."""

FIX_COMMITS = ['84c495b', 'ef12340']

_ALL = ['C%02d' % i for i in range(1, 21)]

CHECKS = [
    dict(
        id='C11',
        text='Generated search over all 21 catalogue entries x sizes x seeds and over the quantile transform on '
             '(0,1) incl. extreme tails, judged against an independently coded radical inverse, stratum counting, '
             'mirror/2u-1 relations under a common seed and scipy.special.ndtri (1e-13 rel/abs). Exploration is the '
             'right level: the property quantifies over unbounded sizes and a continuum of uniforms.',
        note='Trusts scipy.special.ndtri/ndtr and numpy seeding; explores even draw counts up to 120, sample sizes up to 12.',
        technique='property-based testing (Hypothesis): reference-model + metamorphic oracles over generated sizes/seeds/uniforms',
    ),
]

_claimed = {c['id'] for c in CHECKS}
NOT_APPLICABLE = [
    dict(property_id=p, reason='check not built yet (work in progress; planned in DESIGN.md section 3)')
    for p in _ALL if p not in _claimed
]
