"""Source of MANIFEST.json (run ./tools_manifest.py after editing)."""

FIX_COMMITS = ['aa8a796', 'e19c32a', '9330350', '8599158', '33efd15', '1cc24ab', '668079e', 'f34decb', 'f0c9eb4', 'f63685a', 'f41aea7', '4c9fae6', '89fa7aa', '44add83', '3e6a5c9', '24d79b7', '9b58b2c', '783304e', 'f6c2ece', '8bd765a', 'debc858', '096bb2b', '9bcdd72', 'af4b9f6', 'cef733f', 'a117c80', 'b164430', '2fdc9c3', '1f4ac19', '0565888', '7625e32', '6c98e8e', '87aecdb', 'b9b504c', 'ea08a4e', '211c6bc', '03aaba3']

_ALL = ['C%02d' % i for i in range(1, 21)]

CHECKS = [
    dict(
        id='C01',
        text='Typed random expression DAGs (every operator kind of the statement, explicit sub-tree sharing, Python '
             'literals and operator overloads, partial parameter dictionaries) on random tables are evaluated through '
             'get_value_c, get_value_and_derivatives, aggregated mode, the pure-Python get_value and BIOGEME.simulate of '
             'several formulas side by side, and compared row by row with an independent reference semantics that carries '
             'forward error bounds (well-posedness filter). Constants include full-mantissa values, comparisons include exactly '
             'representable operands 1e-9..1e-15 apart, and the same formula object is evaluated again after change_init_values. '
             'Exploration fits a property over unbounded programs x inputs.',
        note='Trusts vlib/refsem.py (reference evaluator) and its error analysis; the compiled engine is a black box; '
             'ill-posed cases (<20%) are counted and not judged; three engine-level defects are listed known findings.',
        technique='property-based testing (Hypothesis): generated expression DAGs vs independent reference evaluator, '
                  'differential Python-vs-engine and shared-vs-unshared metamorphic relation',
    ),
    dict(
        id='C02',
        text='Differentiable random expression DAGs (2-5 free parameters with adversarial names, interacting terms) are '
             'differentiated through every public entry point (get_value_and_derivatives aggregated / per observation / '
             'reduced requests / named results, create_function, create_objective_function, '
             'BIOGEME.calculate_likelihood_and_derivatives scaled and unscaled, check_derivatives) and compared entry by '
             'entry with forward-mode second-order jets of the reference semantics; symmetry, BHHH = sum of outer products, '
             'aggregate = sum of per-observation outputs, name <-> index mapping are asserted. Derivatives THROUGH MonteCarlo (random '
             'coefficients with deterministic user-defined draws) and Integrate (normal mixtures) are compared with the mean / the '
             'quadrature of the reference jets. Exploration over programs x inputs.',
        note='Trusts the reference jets (cross-checked by finite differences of the reference value, which also filters '
             'kinks); tolerance 2e-6 relative (1e-5 through Integrate); five engine-level defects are listed known findings and bucketed '
             'by structure.',
        technique='property-based testing (Hypothesis): generated differentiable DAGs vs reference automatic differentiation (jets)',
    ),
    dict(
        id='C08',
        text='Generated raw outcomes, no estimation: K = 1..6 parameters in sorted and adversarial name orders, negative-definite '
             '(cond <= ~1e8) or exactly rank-deficient Hessians, PSD BHHH incl. BHHH = -H, optional null log likelihood, optional '
             'B x K bootstrap sample, active/inactive bounds, sample size != observations. Every figure of get_general_statistics, '
             'the three variance-covariance matrices, the Beta objects, get_estimated_parameters (both modes), '
             'get_correlation_results, the HTML/str/short summaries, compile_estimation_results (1-3 models x flag combinations) '
             'and likelihood_ratio_test (both argument orders) is recomputed from its defining formula and compared cell by cell; '
             'compiled tables take objects and pickle files in any order with unreadable files at generated positions.',
        note='Trusted base: exact rational arithmetic (fractions.Fraction) for statistics, pseudo-inverse, sandwich and sample '
             'covariance; scipy.special.erfc / chdtri; a stub model exposing exactly the attributes RawResults.__init__ reads. '
             'Zero-variance sentinel conventions, equal-K likelihood-ratio tests, H=None and LaTeX/F12 output are not judged.',
        technique='property-based testing (Hypothesis) with an exact-arithmetic reference oracle over synthetic raw results',
    ),
    dict(
        id='C10',
        text='Monte-Carlo: generated integrands over 1-3 named draw variables (deterministic user-defined generators and '
             'native types, names whose sorted order differs from order of appearance), R in 2..24, are evaluated through '
             'get_value_c and BIOGEME.calculate_likelihood; recording wrappers show that slab k of the draw table is exactly '
             'what the generator of the k-th variable\'s declared type produced, the value is the arithmetic mean over draws '
             'of the reference semantics, non-zero seeds reproduce bit for bit, and on one BIOGEME object the likelihood equals '
             'the sum of the simulated rows before and after simulate(). Integrate is compared with adaptive '
             'quadrature, Derive with reference automatic differentiation. Exploration over programs x inputs x configurations.',
        note='Recording is done by replacing catalogue entries inside the check process; integrands restricted to g(w) x normal '
             'density with moderate curvature (quadrature accuracy 1e-6); engine defects of shared pieces are listed known findings.',
        technique='property-based testing (Hypothesis): generated integrands vs reference mean/quadrature/AD, recorded generator output',
    ),
    dict(
        id='C11',
        text='Generated search over all 21 catalogue entries x sizes x seeds and over the quantile transform on '
             '(0,1) incl. extreme tails, judged against an independently coded radical inverse, stratum counting, '
             'mirror/2u-1 relations under a common seed and scipy.special.ndtri (1e-13 rel/abs); Database.generate_draws with '
             'type dictionaries listed in any order and generators of wrong shape. Exploration is the '
             'right level: the property quantifies over unbounded sizes and a continuum of uniforms.',
        note='Trusts scipy.special.ndtri/ndtr and numpy seeding; explores even draw counts up to 120, sample sizes up to 12.',
        technique='property-based testing (Hypothesis): reference-model + metamorphic oracles over generated sizes/seeds/uniforms',
    ),
]

CHECKS.append(dict(
    id='C17',
    text='Hypothesis-generated threshold lists (open/closed ends, non-zero first threshold), Box-Cox exponents concentrated '
         'around 0 and the +-1e-5 switching point, distribution parameters with arguments inside, on the edges of and outside '
         'the support, segmentations and nest structures with name dictionaries in arbitrary order. Every helper expression is '
         'built with the real library and evaluated by the compiled engine in a forked child, and compared with an independent '
         'closed form (math/numpy/scipy.stats); densities are integrated with scipy quad using the engine as integrand; '
         'generated segmentation code is executed and compared with the expression (values and parameter attributes); '
         'segmentations may be many-to-one, regression residuals reach hundreds of sigma.',
    note='Trusts math.expm1/log, scipy.stats and quad; closed forms for open ends and the shift-parameter naming are taken from '
         'the docstrings/unit tests; inputs restricted to the documented domains (increasing thresholds, sigma > 0, a < c < b, '
         'mu_m >= 1, disjoint nests, no subnormal literals). Seven defects found by this check were repaired (fix: commits).',
    technique='property-based testing (Hypothesis): helper expressions vs reference closed forms, quadrature, exec round trip of generated code',
))

CHECKS.append(dict(
    id='C05',
    text='Generated choice situations (2-6 alternatives with arbitrary integer labels, linear-in-parameters utilities over '
         'generated rows, availability columns with the chosen alternative available or the full choice set, nests with '
         'alternatives left alone, overlapping nests with allocation parameters as numbers/Numeric/fixed or free Beta, '
         'mu_m >= mu >= 1, object or legacy tuple syntax) are evaluated once per alternative for logit, nested, nested with scale, '
         'cross-nested (+scale) and MEV with user-supplied ln G_i; probabilities must lie in [0,1], sum to one, vanish for '
         'unavailable alternatives, be invariant under a common shift of the utilities, agree with independently coded '
         'closed forms and with exp of the log version; availabilities may be plain numbers incl. 0 and the same Python objects '
         'may be handed to successive calls. Ordered logit/probit with 2-6 categories likewise.',
    note='Closed forms coded from the textbook definitions (biogeme convention alpha^(mu_m/mu)); tolerance 1e-9 (1e-7 ordered '
         'probit: engine normal CDF); utilities bounded to |V| <= 60.',
    technique='property-based testing (Hypothesis): validity predicates (range, sum, zero when unavailable), metamorphic shift invariance, reference closed forms',
))
CHECKS.append(dict(
    id='C18',
    text='Hypothesis-generated MDCEV models (4 variants x outside good x prices x scale x parameter kind, 2-5 goods with arbitrary '
         'integer labels and dictionary orders, 1-2 rows, 1-2 Gumbel draws, budgets 0.2-400, two settings of each tolerance). '
         'Every bisection forecast is judged against the Kuhn-Tucker conditions of the consumer problem using independently '
         'written U, U\', U\'\': non-negativity, budget within what the stopping tolerances allow, equal marginal utility on '
         'consumed goods, no larger marginal utility at zero for the others, outside good consumed, objective not below the '
         'feasible projection of the brute-force solution; everything repeated after relabelling and reordering. Numeric utility, '
         'symbolic utility (engine) and the report formula are compared three ways, likewise derivative and inverse. Histories: one '
         'model object used on several samples and with new estimation results must behave like a fresh object each time.',
    note='Trusted: the utilities, derivatives and consumer problem of reports/mdcev/mdcev.tex, strict concavity on gamma > 0, '
         '0 < alpha < 1, epsilon column j belonging to index_to_key[j] (column order is undocumented and not asserted). '
         'Parameters are Beta or Numeric, labels non-negative integers; two defects found were repaired (fix: commits).',
    technique='property-based testing (Hypothesis): independent closed-form KKT oracle, relabelling metamorphic relation, three-way numeric/symbolic/report comparison',
))

CHECKS.append(dict(
    id='C14',
    text='Six generated sub-checks. (1) Synthetic results objects built by the library\'s own RawResults / bioResults (K = 1-5; '
         'Hessian negative definite, singular, indefinite or absent; optional bootstrap, bounds, null model, panel, Monte-Carlo) are '
         'pickled and reloaded, twice, and through estimate(recycle=True); every table, statistic, report and raw field must be '
         'bit-identical. (2) Any subset of the 27 configuration parameters set to admissible values (both booleans, all algorithm '
         'names, integers to 1e40, floats 5e-324..inf, arbitrary strings) is dumped, hand-edited in the ways the reader documents, '
         'and read back over up to three cycles: values == with the same base type. (3) HTML, LaTeX, F12 and printed reports are '
         'read back as tables / fixed columns: every parameter name and value is required. (4) Histories of up to 18 '
         'output-generating operations in a directory pre-seeded with colliding names: a sha256 snapshot of every earlier file '
         'stays unchanged and every reported name is new. (5) Histories of one Parameters object starting from hand-written '
         'partial TOML files (set_value / dump_file / read_file): after every dump a fresh reader holds every value. (6) Long version '
         'histories of one output name (name.ext, name~00 .. name~(k-1), k up to 1005 / 1200, gaps, stray numbers) followed by repeated '
         'get_new_file_name + create: the returned name never exists, never repeats, earlier files unchanged.',
    note='Trusts the stub model behind RawResults (attributes copied from a real estimation), pickle/numpy determinism within one '
         'process, tomlkit parsing; value agreement to 3 significant digits (1e-11 relative in F12). NaN configuration values and '
         'directories/symlinks as colliding names are outside the domain. Reports of Hessian-free results are a listed known finding.',
    technique='property-based round-trip and invariant testing (Hypothesis): report readers as independent oracle, file-system snapshots over generated operation histories',
))
CHECKS.append(dict(
    id='C16',
    text='Random catalog structures (1-6 controllers of size 1-6; catalogs with own, shared or borrowed controllers; nested catalogs; '
         'the same catalog used twice; segmentation_catalogs and generic_alt_specific_catalogs; catalogs inside bioMultSum/Elem/'
         'LogLogit) are compared with an independent structural model: number and set of configurations equal the product of '
         'controller choices; identifiers spell the choices, round-trip and are independent of listing order; iteration visits each '
         'configuration once; after configure_catalogs every catalog shows the member of its controller and the engine value '
         '(and get_value / database-free value) equals the hand-substituted catalog-free formula bit for bit and the reference '
         'within bounds, across histories on one formula object; every operator of prepare_operators stays inside the space, makes '
         'its documented move, and increase/decrease are inverse; catalogs may hold bare Beta / Variable / Numeric members, and '
         'change_init_values / fix_betas / renaming through the selected member act as on the hand-written formula; two or three '
         'formulas sharing catalog objects are explored in sequence, each against its own controller product; category labels '
         'repeat across segmentation variables.',
    note='Trusts vlib/refsem and the documented form of segmented / alt-specific parameters; names free of ; and : and unique; at '
         'most 100 configurations where the enumerated set is used; betas given for free parameters only. Two defects found '
         'were repaired (fix: commits).',
    technique='property-based testing (Hypothesis) over JSON specs with configuration/operator histories: independent structural model + hand substitution, differential against the catalog-free formula',
))
CHECKS.append(dict(
    id='C19',
    text='Generated alternative tables (3-12; arbitrary integer ids, int/float columns, shuffled order), partitions into 1-4 strata '
         'with sample sizes 1..n, 1-8 individuals, 0-3 combined-variable trees, linear-in-parameter utilities, optional second (MEV) '
         'sample and numpy seeds. Every row returned by ChoiceSetsGeneration.sample_and_merge is checked against the protocol '
         '(chosen first, no duplicates, exactly k members per stratum, own attributes, ln(k/n), n/k), combined variables are '
         'recomputed by the reference semantics, and the log likelihoods of GenerateModel.get_logit / get_nested_logit / '
         'get_cross_nested_logit are compared at 1e-9 with independently coded models on the sampled sets and, when every stratum '
         'is sampled completely, on the full choice set; marginal inclusion frequencies are tested; documented refusals are checked; '
         'the tables carry arbitrary pandas indices (permuted, gapped, duplicated, strings) and the oracle works by position.',
    note='Trusts vlib/refsem, numpy log-sum-exp references, numpy seeding and scipy.stats.binom (tail 1e-12); names outside the '
         'collision domain of the <column>_<position> flattening, ids < 2^24, no 99999/NaN values; nested/CNL with a second sample '
         'covering the nests. One defect found was repaired (fix: commit).',
    technique='property-based testing (Hypothesis): protocol invariants per generated row, reference-model oracle, full-sampling equivalence, inclusion-frequency test',
))

CHECKS.append(dict(
    id='C13',
    text='Model-based testing: random numeric tables are driven through generated histories of up to 12 (thorough 25) interleaved '
         'operations (remove, add_column, define_variable, values_from_database, scale_column, count, extract_rows, '
         'sample_with_replacement, split, panel, sample_individual_map_with_replacement, generate_flat_panel_dataframe); after '
         'every operation Database.data and the returned object are compared with an independent row model: removal flags and '
         'new columns from the reference expression semantics, scaling and extraction exact, folds as a partition with '
         'complements and unbroken groups, bootstrap samples by membership, the flat frame against a re-implementation of the '
         'documented layout. Most operations see a row index with gaps; flatten_database / count_number_of_groups are also called '
         'directly on gapped frames. Columns of large (1e5..1e12, neighbours one unit apart) and tiny magnitude take part in '
         'count / scale / remove / split / panel. Histories repeat earlier evaluations (same formula, rebuilt or the same object) after '
         'later table-changing operations.',
    note='Trusts vlib.refsem (C01 tolerance), pandas/numpy for oracle bookkeeping and labels as row identity; formulas carry no '
         'shared sub-trees; identifier/panel columns are never scaled; a documented refusal ends a history; sample distributions '
         'and fold sizes are not tested; tables hold at most 32 rows. Four defects found were repaired (fix: commits).',
    technique='stateful / model-based property-based testing (Hypothesis): generated operation lists valid by construction, reference row model judged after every step',
))
CHECKS.append(dict(
    id='C20',
    text='Every deprecated alias and every renamed keyword argument of the package is discovered by introspection (120 aliases on '
         '644 (alias, receiver) pairs, 31 keyword renamings on 353 pairs; a new alias is covered automatically) and compared with '
         'the replacement named in its warning on identically built receivers and arguments: result or exception, state of receiver '
         'and arguments, files written, exactly one extra DeprecationWarning, and the purpose rule for the declared target (same '
         'normalised name / "Same as X" docstring). Renamed keywords are called with values unlike the default and the whole '
         'resulting configuration is compared. Each quick run sweeps every receiver class 32 times per alias, receiver after receiver '
         'in one process: a difference that a fresh process does not show is re-run as a sequence in two fresh processes (names of the '
         'last pair in both orders) and reported when it shows every time (alias state leaking between receiver classes).',
    note='Trusts the markers and closure left by biogeme/deprecated.py; arguments come from per-signature generators; engine '
         'refusals (RuntimeError or process death) are one equivalence class; differences must reproduce on separately forked '
         'processes; floats to 1e-10, timestamps and ids normalised; retargeting is visible only through the name/docstring purpose '
         'rule. Three defects found were repaired (fix: commits).',
    technique='introspective discovery + differential property-based testing (Hypothesis): one sub-check per alias/keyword sweeping all receiver classes, fork isolation',
))

CHECKS.append(dict(
    id='C06',
    text='Differential checks on generated choice situations (as C05): nested logit with all nest parameters 1 vs logit; '
         'cross-nested logit with disjoint nests and unit allocations vs nested logit; models with explicit scale 1 (number, '
         'Numeric, fixed or free Beta) vs unscaled; legacy tuple syntax vs nest objects; for the nested logit the published '
         'generating function is evaluated with the utilities as free parameters and ln(dG/dV_i) - V_i from the engine gradient is '
         'compared with the published ln G_i, with alone alternatives and availabilities; G itself is compared with its definition. '
         'Nests are named distinctly, identically or not at all; cross-nested allocation parameters may be free parameters starting '
         'at 0 and evaluated elsewhere through a value dictionary.',
    note='Both sides of each reduction go through the same compiled engine (1e-10 relative); the generating-function check trusts '
         'the engine gradient (property C02) and the textbook definition of G. One defect found was repaired (fix: commit).',
    technique='property-based testing (Hypothesis): differential between model functions, derivative-vs-published-term relation',
))

CHECKS.append(dict(
    id='C04',
    text='Random differentiable likelihood formulas on generated tables (2-10, thorough 24 rows) with generated weight formulas: '
         'BIOGEME.calculate_likelihood must equal the sum over simulate rows of weight x value (and the reference semantics), '
         'its scaled variant that sum over the sample size, for thread counts {1, 2, k <= N, N, N+1..3, 0} with three repeated '
         'evaluations each, after a random row permutation, and as the sum over a random partition into 2-4 parts each given to '
         'its own BIOGEME object; gradient, Hessian and BHHH (scaled and unscaled) must be the weighted sums of the '
         'per-observation derivatives of the same formula. Simulated likelihoods (Monte-Carlo, native draw types): likelihood == '
         'sum of weight x simulate rows of the same object, unchanged by simulate() before or after, equal for every thread count.',
    note='Thread interleavings inside the engine are not controllable from Python: the thread count is explored as a configuration '
         'and every evaluation is repeated. Per-observation derivatives come from the same engine, so only aggregation is judged. '
         'BHHH convention sum_n w_n g_n g_n^T. Formulas carry no shared sub-trees (engine aliasing finding of C02).',
    technique='property-based testing (Hypothesis): metamorphic relations (permutation, partition, thread count) + sum-of-simulated-rows oracle',
))
CHECKS.append(dict(
    id='C07',
    text='Simulated weighted multinomial-logit estimation problems (concave; 2-4 alternatives with arbitrary labels, 2-4 free '
         'parameters with adversarial names, optional fixed parameter, 25-60 rows) under bound configurations {none, inactive, '
         'one-sided, active at the optimum}, run through estimate()/quick_estimate() with 3-4 (thorough: all nine) algorithm names: '
         'bounds respected by bound-aware algorithms; final log likelihood >= initial, == likelihood recomputed at the returned '
         'estimates (numpy closed form and a fresh BIOGEME object); reported g, H, BHHH == derivatives at that point; when '
         'convergence is reported on a well-conditioned problem the projected gradient vanishes, the value equals the reference '
         'maximum and all converged algorithms agree; estimates written back into the formulas, fixed parameters untouched; after the '
         'estimation (also with bootstrapping) the same object computes likelihood and simulation on the full sample. Second family: '
         'linear regression with normal errors, sigma bounded below or unbounded (likelihood undefined for sigma <= 0, so trial '
         'points there must be rejected): finite feasible estimates, final == recomputed >= initial, reported g/H/BHHH, write-back.',
    note='Reference maximiser: L-BFGS-B polished by projected Newton on numpy closed forms; separated data (maximum at infinity) '
         'are not judged; line-search / trust-region algorithms (documented to ignore bounds) only run without bounds; tolerance '
         '1e-7, max 500 iterations.',
    technique='property-based testing (Hypothesis): generated concave problems vs closed-form reference likelihood/KKT conditions, differential across algorithms',
))

CHECKS.append(dict(
    id='C03',
    text='Metamorphic: a model and its twin (bijective renaming of all parameters incl. order-reversing and case-changing maps, '
         'commutative operands swapped, list / dictionary entries permuted) are built as independent object graphs. For random '
         'formulas: sorted free_beta_names, equal log likelihood, gradient entries and bounds attached to corresponding names, '
         'equal simulate rows (value dictionaries listed in shuffled order), get_value_c with a partial dictionary overriding only '
         'the named parameters, and the same formula object evaluated afterwards without dictionary gives the values at the '
         'untouched initial values. For simulated logit problems: estimates, every column of the parameter table, pairwise '
         'covariances/correlations and bounds attach to the corresponding names; fixed parameters keep their value and are not '
         'reported. A parameter name reused for a column, draw variable, random variable or a free+fixed pair must be refused '
         'with BiogemeError through BIOGEME(...), get_value_c and get_value_and_derivatives.',
    note='Log likelihoods 1e-9 relative to the sum of absolute terms; estimates 2e-4, statistics 2e-3 relative (optimiser tolerance '
         '1e-7, simple_bounds_newton); identified, well-conditioned problems only; min/max keep operand order (tie derivative); '
         'override of FIXED parameters by a dictionary is not asserted (undocumented).',
    technique='property-based testing (Hypothesis): metamorphic renaming/reordering relation on generated models, refusal checks for duplicate names',
))

CHECKS.append(dict(
    id='C09',
    text='Generated panel tables (1-6 individuals, block sizes 1-4, ids negative / fractional / large, blocks in any order, some '
         'deliberately interleaved) with strictly positive trajectory arguments, optionally under MonteCarlo with deterministic '
         'user-defined draws: interleaved ids must be refused with BiogemeError; otherwise the individual map partitions the rows '
         'into one contiguous block per id, the table keeps its rows, the sample size is the number of individuals, the trajectory '
         'value per individual is the product of the reference row values over exactly its rows (averaged over the individual\'s '
         'own draws), calculate_likelihood is the sum over individuals (scaled: divided by their number), simulate has one row per '
         'individual, and everything is invariant when blocks and rows inside blocks are permuted; the table may be edited with '
         'pandas after panel(), and the draw variables may have been used per observation before panel().',
    note='Rows of an individual are identified by reading Database.data back after panel(); draws are affine functions of '
         '(individual position, draw index); a draw variable inside a logit availability is a listed known finding.',
    technique='property-based testing (Hypothesis): reference product/average oracle per individual, permutation metamorphic relation, refusal of interleaved ids',
))

CHECKS.append(dict(
    id='C15',
    level='fault_enumeration',
    text='Generated histories of 1-8 (thorough 15) likelihood+derivative evaluations (improving, worsening, repeated, adversarial '
         'floats, optional pole giving non-finite derivatives) with save_iterations on: after every call the iteration file must be '
         'one complete line per free parameter holding, bit for bit, the best finite evaluation so far; a later estimation of the '
         'same model must start from the saved values and not below them. Then the history is re-run once per harness-visible step '
         'of every save (open/truncate, each write, close, rename) with the process stopped (os._exit) at that step: the file must '
         'be absent or complete-and-valid and a restart must succeed. All crash points of every save are enumerated (capped at 60 '
         'per history in the quick tier). Same-object histories: one object estimated under one model name, renamed to a name whose '
         'file holds a poor point and estimated again with 1-3 iterations; after every intercepted evaluation the file must hold the '
         'best point evaluated since that estimation started.',
    note='Crash points at Python granularity inside the saving code (module-level open / os.replace wrapped from the harness, no '
         'source hook); power-loss semantics below write(2) are not modelled. Three defects found were repaired (fix: commits).',
    technique='property-based testing (Hypothesis) of evaluation histories against a best-so-far model + exhaustive fault injection at every step of every save',
))

CHECKS.append(dict(
    id='C12',
    text='Fault planting: a valid random formula (C01 grammar) gets ONE fault (unknown column, draw outside MonteCarlo, integration '
         'variable outside Integrate, second derivatives without first) at a generated leaf position under any operator kind and is '
         'sent through BIOGEME(...), get_value_c and get_value_and_derivatives: it must be refused with BiogemeError naming the '
         'element, while its un-faulted twin is accepted with the reference values; through BIOGEME the formula is given alone or '
         'inside a dictionary before / after other valid formulas. One name for two kinds of element (parameter and column, free and '
         'fixed parameter, parameter and draw / integration variable) must be refused. Structural faults (choice value without '
         'utility, utility/availability key mismatch, overlapping nests at any pair of positions, nest member outside the choice set for nested and '
         'cross-nested models in object and tuple syntax, non-numeric column, NaN cell, empty table, variable outside the trajectory '
         'on panel data) must be refused likewise. Missing-data code (default and declared) planted in a cell the formula '
         'certainly reads on that row must make the evaluation fail; planted in unreferenced columns or branches not taken it must '
         'be harmless and leave the reference values.',
    note='Read/unread analysis by a lazy tracer over the reference semantics (operands that short-circuiting may skip are never '
         'used for planting); NaN in the failing row of simulate counts as refusal; variables outside the trajectory are planted '
         'through BIOGEME only (row-wise get_value_c on panel data is used by the library itself). Two defects repaired, one known '
         'finding (logit audit reads choice/availability columns on every row).',
    technique='property-based testing (Hypothesis) with fault injection into generated valid specifications: refusal oracle (error type + message) and valid-twin acceptance',
))

_claimed = {c['id'] for c in CHECKS}
NOT_APPLICABLE = [
    dict(property_id=p, reason='check not built yet (work in progress; planned in DESIGN.md section 3)')
    for p in _ALL if p not in _claimed
]
