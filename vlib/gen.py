"""Hypothesis generators: tables, names, typed expression trees with sharing."""
from __future__ import annotations

from hypothesis import strategies as st

BETA_NAMES = ['B_1', 'b_1', 'b_10', 'b_2', 'aSC', 'ASC', 'beta', 'Beta', 'z', 'a', '_x', 'B1',
              'b 2', 'β', 'b.1', 'b-1', 'Z9', 'lambda', 'mu', 'mu_1', 'A', 'zz', 'b_02', 'B_TIME',
              'b_time', 'B_COST', 'sigma', 'Sigma_1']
COLUMN_NAMES = ['x', 'X', 'x1', 'x10', 'x2', 'TT', 'tt', 'Cost', 'cost', 'y', 'Y_1', 'y_1', 'col a',
                'col.b', 'v-1', 'été', 'W', 'w', 'q', 'Q2', 'q10', 'q1', 'INC', 'inc', 'k',
                'K', 'm', 'M_1', 'n', 'N', 'u', 'U', 'r', 'R', 's', 'S', 't', 'T']


def dyadic(lo, hi, denom=8):
    """Floats that are exact binary fractions (keeps sums/products of few terms exact-ish)."""
    return st.integers(int(lo * denom), int(hi * denom)).map(lambda k: k / denom)


# constants with a full mantissa (they must reach the engine with every digit)
LONG_CONSTANTS = [3.141592653589793, 2.718281828459045, 0.3989422804014327, 1 / 3, 2.9999999, -1.2345678912, 0.1 + 0.2,
                  -0.6931471805599453, 1.0000000001, 0.123456789, 2.5000001, -2.0000000001, 4.999999999, 0.7071067811865476]


def _long(lo, hi):
    ok = [c for c in LONG_CONSTANTS if lo <= c <= hi]
    # subnormal constants are not generated: the engine refuses them (known finding of C01, probed there)
    fl = st.floats(lo, hi, allow_nan=False, allow_subnormal=False)
    return st.one_of(st.sampled_from(ok), fl) if ok else fl


def real_values(lo=-3.0, hi=3.0):
    return st.one_of(dyadic(lo, hi), dyadic(lo, hi), st.floats(lo, hi).map(lambda x: round(x, 3)),
                     st.floats(lo, hi).map(lambda x: round(x, 3)), _long(lo, hi))


def pos_values(lo=0.125, hi=5.0):
    return st.one_of(dyadic(lo, hi), dyadic(lo, hi), st.floats(lo, hi).map(lambda x: round(x, 3) or lo),
                     st.floats(lo, hi).map(lambda x: round(x, 3) or lo), _long(lo, hi))


@st.composite
def tables(draw, min_rows=1, max_rows=6, n_real=(1, 3), n_pos=(1, 2), n_int=(1, 2), n_bool=(1, 2),
           alts=None, with_choice=True, weight=False, extra_names=()):
    """A table spec plus a description of what each column may be used for."""
    n = draw(st.integers(min_rows, max_rows))
    counts = dict(real=draw(st.integers(*n_real)), pos=draw(st.integers(*n_pos)),
                  int=draw(st.integers(*n_int)), bool=draw(st.integers(*n_bool)))
    if with_choice:
        if alts is None:
            alts = draw(st.lists(st.integers(-3, 30), min_size=2, max_size=4, unique=True))
    else:
        alts = []
    total = sum(counts.values()) + (1 + len(alts) if with_choice else 0) + (1 if weight else 0)
    names = draw(st.lists(st.sampled_from([c for c in COLUMN_NAMES if c not in extra_names]),
                          min_size=total, max_size=total, unique=True))
    it = iter(names)
    cols = []
    info = dict(real=[], pos=[], int=[], bool=[], choice=None, alts=list(alts), av={}, weight=None,
                n=n)
    for _ in range(counts['real']):
        name = next(it)
        vals = draw(st.lists(real_values(), min_size=n, max_size=n))
        cols.append([name, 'float', vals])
        info['real'].append(name)
    for _ in range(counts['pos']):
        name = next(it)
        vals = draw(st.lists(pos_values(), min_size=n, max_size=n))
        cols.append([name, 'float', vals])
        info['pos'].append(name)
    for _ in range(counts['int']):
        name = next(it)
        lo = draw(st.integers(-3, 2))
        hi = lo + draw(st.integers(0, 3))
        vals = draw(st.lists(st.integers(lo, hi), min_size=n, max_size=n))
        cols.append([name, draw(st.sampled_from(['int', 'float'])), vals])
        info['int'].append([name, lo, hi])
    for _ in range(counts['bool']):
        name = next(it)
        vals = draw(st.lists(st.integers(0, 1), min_size=n, max_size=n))
        cols.append([name, draw(st.sampled_from(['int', 'float'])), vals])
        info['bool'].append(name)
    if with_choice:
        name = next(it)
        ch = draw(st.lists(st.sampled_from(alts), min_size=n, max_size=n))
        cols.append([name, draw(st.sampled_from(['int', 'float'])), ch])
        info['choice'] = name
        for a in alts:
            an = next(it)
            av = draw(st.lists(st.integers(0, 1), min_size=n, max_size=n))
            av = [1 if ch[i] == a else av[i] for i in range(n)]
            cols.append([an, draw(st.sampled_from(['int', 'float'])), av])
            info['av'][str(a)] = an
    if weight:
        name = next(it)
        vals = draw(st.lists(pos_values(0.25, 4.0), min_size=n, max_size=n))
        cols.append([name, 'float', vals])
        info['weight'] = name
    order = draw(st.permutations(list(range(len(cols)))))
    cols = [cols[i] for i in order]
    return dict(columns=cols), info


class TreeGen:
    """Typed random expression trees over a table.

    sorts: real, pos (strictly positive), bool (0/1), int (exact integer with known range)
    """

    def __init__(self, draw, info, max_betas=5, differentiable=False, sharing=True,
                 literals=True, beta_names=None, allow_fixed=True, max_nodes=40, logit=True,
                 no_param_ops=()):
        self.draw = draw
        self.info = info
        self.max_betas = max_betas
        self.differentiable = differentiable
        self.sharing = sharing
        self.literals = literals
        self.allow_fixed = allow_fixed
        self.max_nodes = max_nodes
        self.logit = logit and info.get('choice') is not None
        self.nodes = 0
        self.betas = {}  # name -> spec
        self.beta_pool = list(beta_names or draw(
            st.lists(st.sampled_from(BETA_NAMES), min_size=max_betas, max_size=max_betas, unique=True)))
        self.shared = []  # spec list
        self.shared_meta = []  # (sort, has_param, lo, hi)
        self.param_free = 0  # >0 while generating a sub-tree that must not contain parameters

    # ---------------------------------------------------------------- helpers
    def _choose(self, options):
        return self.draw(st.sampled_from(options))

    def _p(self, prob):
        return self.draw(st.floats(0, 1)) < prob

    def _budget(self, depth):
        return depth > 0 and self.nodes < self.max_nodes

    def _num(self, v):
        self.nodes += 1
        if self.literals and self._p(0.3):
            return ['Lit', v]
        return ['Num', v]

    def _beta_with_value(self, v):
        """A parameter whose value is exactly v (a new fixed or free one), or the constant when none is left."""
        remaining = [n for n in self.beta_pool if n not in self.betas]
        if not remaining or len(self.betas) >= self.max_betas:
            return self._num(v)
        self.nodes += 1
        spec = ['Beta', remaining[0], v, None, None, self._choose([0, 1]) if self.allow_fixed else 0]
        self.betas[remaining[0]] = spec
        return list(spec)

    def _beta(self, positive=False):
        self.nodes += 1
        usable = [s for s in self.betas.values() if (not positive or s[2] > 0)]
        if usable and (len(self.betas) >= self.max_betas or self._p(0.5)):
            return list(self._choose(usable))
        remaining = [n for n in self.beta_pool if n not in self.betas]
        if not remaining:
            if usable:
                return list(self._choose(usable))
            return ['Num', 1.5] if positive else ['Num', -0.5]
        name = remaining[0]
        if positive:
            value = self.draw(pos_values(0.25, 3.0))
        else:
            value = self.draw(real_values(-2.0, 2.0))
        status = 0
        if self.allow_fixed and self._p(0.25):
            status = 1
        lb = ub = None
        if self._p(0.3):
            lb = value - self.draw(st.sampled_from([0.5, 1.0, 10.0]))
        if self._p(0.3):
            ub = value + self.draw(st.sampled_from([0.5, 1.0, 10.0]))
        spec = ['Beta', name, value, lb, ub, status]
        self.betas[name] = spec
        return list(spec)

    def _maybe_share(self, sort, spec, has_param, lo=None, hi=None):
        if self.sharing and spec[0] not in ('Lit', 'Ref') and self._p(0.18):
            self.shared.append(spec)
            self.shared_meta.append((sort, has_param, lo, hi))
            return ['Ref', len(self.shared) - 1]
        return spec

    def _existing(self, sorts):
        if not self.sharing or not self.shared or not self._p(0.12):
            return None
        cands = [i for i, (s, hp, _, _) in enumerate(self.shared_meta)
                 if s in sorts and not (self.param_free and hp)]
        if not cands:
            return None
        i = self._choose(cands)
        self.nodes += 1
        return i

    def _has_param(self, spec):
        from .refsem import walk

        return any(n[0] == 'Beta' for n in walk(spec, self.shared))

    # ---------------------------------------------------------------- sorts
    def real(self, depth):
        i = self._existing(('real', 'pos', 'bool', 'int'))
        if i is not None:
            return ['Ref', i]
        if not self._budget(depth):
            return self._real_leaf()
        prods = ['Plus', 'Minus', 'Times', 'Divide', 'Neg', 'log', 'sin', 'cos', 'pos', 'pos',
                 'bool', 'bool', 'bool', 'int', 'Elem', 'Elem', 'MultSum', 'MultSumDict', 'CondSum',
                 'CondSum', 'LinUtil', 'Min', 'Max', 'logzero', 'PowCint', 'leaf', 'leaf']
        if self.logit:
            prods += ['LogLogit', 'LogLogit']
        if self.param_free:
            prods = [p for p in prods if p != 'LinUtil']
        k = self._choose(prods)
        self.nodes += 1
        d = depth - 1
        if k == 'leaf':
            self.nodes -= 1
            return self._real_leaf()
        if k in ('Plus', 'Minus', 'Times', 'Min', 'Max'):
            s = [k, self.real(d), self.real(d)]
        elif k == 'Divide':
            s = ['Divide', self.real(d), self.pos(d)]
        elif k == 'Neg':
            s = ['Neg', self.real(d)]
        elif k == 'log':
            s = ['log', self.pos(d)]
        elif k == 'logzero':
            s = ['logzero', self.pos(d) if self._p(0.7) else self._choose([['Num', 0.0], ['Num', 0]])]
        elif k in ('sin', 'cos'):
            s = [k, self.real(d)]
        elif k == 'PowCint':
            s = ['PowC', self.real(d), float(self._choose([2, 3, 1, 0, 4]))]
        elif k == 'pos':
            self.nodes -= 1
            return self.pos(depth)
        elif k == 'bool':
            self.nodes -= 1
            return self.boolean(depth)
        elif k == 'int':
            self.nodes -= 1
            return self.integer(depth)[0]
        elif k == 'Elem':
            s = self._elem(d, self.real)
        elif k == 'MultSum':
            n = self.draw(st.integers(1, 4))
            s = ['MultSum', [self.real(d) for _ in range(n)]]
            if all(e[0] == 'Lit' for e in s[1]):
                s[1][0] = ['Num', s[1][0][1]]
        elif k == 'MultSumDict':
            n = self.draw(st.integers(1, 4))
            keys = self.draw(st.lists(st.one_of(st.integers(-5, 50), st.sampled_from(['a', 'b', 'car', 'x y'])),
                                      min_size=n, max_size=n, unique=True))
            s = ['MultSumDict', [[kk, self.real(d)] for kk in keys]]
        elif k == 'CondSum':
            n = self.draw(st.integers(1, 3))
            s = ['CondSum', [[self.condition(d), self.real(d)] for _ in range(n)]]
        elif k == 'LinUtil':
            s = self._linutil()
        elif k == 'LogLogit':
            s = self._loglogit(d)
        else:
            raise AssertionError(k)
        return self._maybe_share('real', s, self._has_param(s))

    def _real_leaf(self):
        opts = ['var', 'var', 'num', 'pos', 'int', 'bool']
        if not self.param_free:
            opts += ['beta', 'beta', 'beta']
        k = self._choose(opts)
        if k == 'var':
            self.nodes += 1
            return ['Var', self._choose(self.info['real'])]
        if k == 'num':
            return self._num(self.draw(real_values()))
        if k == 'beta':
            return self._beta()
        if k == 'pos':
            return self._pos_leaf()
        if k == 'int':
            return self._int_leaf()[0]
        return self._bool_leaf()

    def _pos_leaf(self):
        opts = ['var', 'var', 'num']
        if not self.param_free:
            opts += ['beta', 'beta']
        k = self._choose(opts)
        if k == 'var':
            self.nodes += 1
            return ['Var', self._choose(self.info['pos'])]
        if k == 'num':
            return self._num(self.draw(pos_values()))
        return self._beta(positive=True)

    def pos(self, depth):
        i = self._existing(('pos',))
        if i is not None:
            return ['Ref', i]
        if not self._budget(depth):
            return self._pos_leaf()
        k = self._choose(['exp', 'exp', 'Plus', 'Times', 'Divide', 'Power', 'PowC', 'Max', 'Min',
                          'NormalCdf', 'sq', 'Elem', 'leaf', 'leaf'])
        self.nodes += 1
        d = depth - 1
        if k == 'leaf':
            self.nodes -= 1
            return self._pos_leaf()
        if k == 'exp':
            s = ['exp', self.real(d)]
        elif k in ('Plus', 'Times', 'Divide', 'Min'):
            s = [k, self.pos(d), self.pos(d)]
        elif k == 'Power':
            s = ['Power', self.pos(d), self.real(min(d, 2))]
        elif k == 'PowC':
            s = ['PowC', self.pos(d), self.draw(st.one_of(dyadic(-3, 3), st.floats(-3, 3).map(lambda x: round(x, 2))))]
        elif k == 'Max':
            s = ['Max', self.pos(d), self.real(d)] if self._p(0.5) else ['Max', self.real(d), self.pos(d)]
        elif k == 'NormalCdf':
            s = ['NormalCdf', self.real(d)]
        elif k == 'sq':
            s = ['Plus', self.pos(d), ['PowC', self.real(d), 2.0]]
        elif k == 'Elem':
            s = self._elem(d, self.pos)
        else:
            raise AssertionError(k)
        return self._maybe_share('pos', s, self._has_param(s))

    def _bool_leaf(self):
        k = self._choose(['var', 'var', 'num', 'lit'])
        self.nodes += 1
        if k == 'var':
            return ['Var', self._choose(self.info['bool'])]
        v = self.draw(st.integers(0, 1))
        if k == 'num' or not self.literals:
            return ['Num', v]
        return ['Lit', bool(v)]

    def boolean(self, depth):
        """0/1-valued formula. Never contains parameters in differentiable mode."""
        i = self._existing(('bool',))
        if i is not None:
            return ['Ref', i]
        if not self._budget(depth):
            return self._bool_leaf()
        if self.differentiable:
            self.param_free += 1
        try:
            kinds = ['cmp_real', 'cmp_real', 'cmp_int', 'And', 'Or', 'BelongsTo', 'leaf']
            if self.differentiable:
                # the engine declares set membership non-differentiable whatever its argument
                kinds.remove('BelongsTo')
            k = self._choose(kinds)
            self.nodes += 1
            d = depth - 1
            if k == 'leaf':
                self.nodes -= 1
                return self._bool_leaf()
            if k == 'cmp_real' and self._p(0.2):
                # two exactly representable constants that differ by (almost) nothing: a comparison is exact
                op = self._choose(['Ne', 'Eq', 'Eq', 'Le', 'Lt', 'Ge', 'Gt'])
                v = self.draw(dyadic(-2, 2))
                w = v + self._choose([0.0, 1e-9, -1e-9, 4e-9, 2.5e-10, -1e-12, 1e-15])
                left = self._beta_with_value(v) if not self.param_free and self._p(0.5) else self._num(v)
                pair = [left, self._num(w)]
                if self._p(0.5):
                    pair.reverse()
                s = [op] + pair
            elif k == 'cmp_real':
                op = self._choose(['Le', 'Ge', 'Lt', 'Gt', 'Ne', 'Eq'])
                s = [op, self.real(min(d, 2)), self.real(min(d, 2))]
            elif k == 'cmp_int':
                op = self._choose(['Eq', 'Ne', 'Le', 'Ge', 'Lt', 'Gt'])
                s = [op, self.integer(min(d, 2))[0], self.integer(min(d, 2))[0]]
            elif k in ('And', 'Or'):
                s = [k, self.condition(d), self.condition(d)]
            else:
                e, lo, hi = self.integer(min(d, 2))
                members = self.draw(st.lists(
                    st.one_of(st.integers(lo - 1, hi + 1), st.sampled_from([0.5, 1.5, -2.25, 100, 1e6])),
                    min_size=1, max_size=4, unique=True))
                s = ['BelongsTo', e, members]
            return self._maybe_share('bool', s, self._has_param(s))
        finally:
            if self.differentiable:
                self.param_free -= 1

    def condition(self, depth):
        """Something used for its truth value: mostly 0/1, sometimes any exact integer."""
        if self._p(0.8):
            return self.boolean(depth)
        if self.differentiable:
            self.param_free += 1
        try:
            return self.integer(min(depth, 2))[0]
        finally:
            if self.differentiable:
                self.param_free -= 1

    def _int_leaf(self):
        k = self._choose(['var', 'var', 'num'])
        self.nodes += 1
        if k == 'var':
            name, lo, hi = self._choose(self.info['int'])
            return ['Var', name], lo, hi
        v = self.draw(st.integers(-3, 4))
        node = ['Lit', v] if (self.literals and self._p(0.3)) else ['Num', v]
        return node, v, v

    def integer(self, depth):
        """(spec, lo, hi): exact integer-valued formula with values in [lo, hi] on every row."""
        if self.sharing and self.shared and self._p(0.2):
            cands = [i for i, (s, hp, lo, hi) in enumerate(self.shared_meta) if s == 'int']
            if cands:
                i = self._choose(cands)
                self.nodes += 1
                _, _, lo, hi = self.shared_meta[i]
                return ['Ref', i], lo, hi
        if not self._budget(depth):
            return self._int_leaf()
        k = self._choose(['leaf', 'leaf', 'Plus', 'Minus', 'Min', 'Max', 'Times', 'Neg', 'bool', 'Elem'])
        if k == 'leaf':
            return self._int_leaf()
        self.nodes += 1
        d = depth - 1
        if k == 'bool':
            self.nodes -= 1
            return self.boolean(d), 0, 1
        if k == 'Neg':
            a, lo, hi = self.integer(d)
            s, lo, hi = ['Neg', a], -hi, -lo
        elif k == 'Times':
            a, lo, hi = self.integer(d)
            c = self._choose([-1, 2, 1, 0])
            prod = sorted([lo * c, hi * c])
            s, lo, hi = ['Times', a, ['Num', c]], prod[0], prod[1]
        elif k == 'Elem':
            key, klo, khi = self.integer(min(d, 1))
            if khi - klo > 6:
                return key, klo, khi
            entries = []
            lo, hi = None, None
            extra = self.draw(st.integers(0, 2))
            keys = list(range(klo, khi + 1)) + [khi + 1 + j for j in range(extra)]
            keys = self.draw(st.permutations(keys))
            for kk in keys:
                e, elo, ehi = self.integer(min(d, 1))
                entries.append([kk, e])
                lo = elo if lo is None else min(lo, elo)
                hi = ehi if hi is None else max(hi, ehi)
            s = ['Elem', key, entries]
        else:
            a, alo, ahi = self.integer(d)
            b, blo, bhi = self.integer(d)
            if k == 'Plus':
                lo, hi = alo + blo, ahi + bhi
            elif k == 'Minus':
                lo, hi = alo - bhi, ahi - blo
            elif k == 'Min':
                lo, hi = min(alo, blo), min(ahi, bhi)
            else:
                lo, hi = max(alo, blo), max(ahi, bhi)
            s = [k, a, b]
        if hi - lo > 8:
            return self._int_leaf()
        if self.sharing and self._p(0.15):
            self.shared.append(s)
            self.shared_meta.append(('int', False, lo, hi))
            return ['Ref', len(self.shared) - 1], lo, hi
        return s, lo, hi

    # ---------------------------------------------------------------- composite nodes
    def _elem(self, d, sub):
        if self.differentiable:
            self.param_free += 1
        try:
            key, lo, hi = self.integer(min(d, 2))
        finally:
            if self.differentiable:
                self.param_free -= 1
        if hi - lo > 6:
            key, lo, hi = self._int_leaf()
        extra = self.draw(st.integers(0, 2))
        keys = list(range(lo, hi + 1)) + [hi + 1 + j for j in range(extra)]
        keys = list(self.draw(st.permutations(keys)))
        return ['Elem', key, [[kk, sub(min(d, 2))] for kk in keys]]

    def _linutil(self):
        n = self.draw(st.integers(1, 4))
        terms = []
        cols = self.info['real'] + self.info['pos'] + [c[0] for c in self.info['int']] + self.info['bool']
        cols = [c for c in cols if c not in getattr(self, 'not_in_linutil', ())]
        for _ in range(n):
            b = self._beta()
            if b[0] != 'Beta':
                name = [x for x in self.beta_pool if x not in self.betas]
                b = list(self.betas[next(iter(self.betas))]) if not name else ['Beta', name[0], 0.5, None, None, 0]
                self.betas.setdefault(b[1], b)
            self.nodes += 2
            terms.append([b, ['Var', self._choose(cols)]])
        return ['LinUtil', terms]

    def _loglogit(self, d):
        alts = self.info['alts']
        order = list(self.draw(st.permutations(alts)))
        full = self._p(0.25)
        entries = []
        for a in order:
            u = self.real(min(d, 3))
            if full:
                av = None
            else:
                kind = self._choose(['col', 'col', 'one', 'or'])
                col = ['Var', self.info['av'][str(a)]]
                if kind == 'col':
                    av = col
                elif kind == 'one':
                    av = self._num(1)
                else:
                    av = ['Or', col, self.boolean(1)]
                self.nodes += 1
            entries.append([a, u, av])
        choice = ['Var', self.info['choice']]
        s = ['LogLogit', choice, entries]
        if full and self._p(0.5):
            s.append('full')
        elif not full and self._p(0.5):
            # the availability dictionary may list the alternatives in another order
            s += [None, list(self.draw(st.permutations(alts)))]
        return s


@st.composite
def expression_cases(draw, tier='quick', differentiable=False, min_free=0, n_formulas=1,
                     with_weight=False, max_rows=None, logit=True, sharing=True, min_rows=1):
    """A complete case: table, shared sub-trees, one or several root formulas, parameter values."""
    big = tier == 'thorough'
    table, info = draw(tables(min_rows=min_rows, max_rows=max_rows or (12 if big else 6), weight=with_weight))
    g = TreeGen(draw, info, max_betas=draw(st.integers(max(1, min_free), 6)),
                differentiable=differentiable, max_nodes=60 if big else 40, logit=logit, sharing=sharing)
    depth = draw(st.integers(2, 6 if big else 5))
    roots = []
    for _ in range(n_formulas):
        g.nodes = 0
        r = g.real(depth)
        if r[0] == 'Lit':
            r = ['Num', r[1]]
        # make sure enough free parameters take part, in interacting (non-additive) ways
        guard = 0
        while min_free and guard < 6 and sum(1 for b in g.betas.values() if b[5] == 0) < min_free:
            guard += 1
            g.allow_fixed = False
            b1 = g._beta()
            kind = draw(st.sampled_from(['lin', 'expmul', 'cross', 'ratio', 'inside']))
            if kind == 'lin':
                r = ['Plus', r, ['Times', b1, g._real_leaf()]]
            elif kind == 'expmul':
                r = ['Times', r, ['exp', ['Times', b1, ['Var', draw(st.sampled_from(info['real']))]]]]
            elif kind == 'cross':
                r = ['Plus', r, ['Times', ['Times', b1, g._beta()], g.pos(1)]]
            elif kind == 'ratio':
                r = ['Divide', ['Plus', r, b1], ['Plus', ['Num', 1.5], ['PowC', g._beta(), 2.0]]]
            else:
                r = ['Times', ['sin', ['Plus', b1, g._real_leaf()]], r]
        roots.append(r)
    # partial dictionary of parameter values (free parameters only; positivity class kept)
    overrides = {}
    for name, spec in g.betas.items():
        if spec[5] == 0 and draw(st.floats(0, 1)) < 0.4:
            if spec[2] > 0:
                overrides[name] = draw(pos_values(0.25, 3.0))
            else:
                overrides[name] = draw(real_values(-2.0, 2.0))
    case = dict(table=table, shared=g.shared, roots=roots, betas=overrides,
                overloads=draw(st.booleans()), np_seed=draw(st.integers(0, 2**31 - 1)))
    if with_weight:
        case['weight_column'] = info['weight']
    return case
