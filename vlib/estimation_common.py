"""Concave estimation problems (multinomial logit, linear in parameters) with a numpy reference.

A problem spec is JSON: the data are a pure function of the spec (numpy RandomState seeded with
spec['data_seed']), so a spec replays exactly.

  {'alts': [3, 7, 1], 'params': [[name, init, lb, ub, status], ...], 'true': [...], 'n_rows': 40,
   'terms': {alt: [[param_index, column_name] | [param_index, None] (constant) ...]},
   'data_seed': 17, 'weights': bool, 'choice_col': 'CHOICE', ...}
"""
from __future__ import annotations

import math

import numpy as np
from hypothesis import strategies as st

from . import gen

import biogeme.biogeme  # noqa: F401
import biogeme.database  # noqa: F401
import biogeme.models  # noqa: F401

PARAM_NAMES = ['B_TIME', 'b_cost', 'ASC_CAR', 'asc_bus', 'B_10', 'b_2', 'beta', 'Z', 'a', 'B_1', 'b_1', 'zeta',
               'Beta3', 'b 4', 'β', 'ASC_2', 'asc_10']
ATTR_NAMES = ['tt', 'TT', 'cost', 'Cost', 'x1', 'x10', 'x2', 'inc', 'dist', 'Q', 'q', 'wait', 'W_1']


@st.composite
def logit_problems(draw, tier='quick', min_free=2, max_free=4, bounds_kind=None, n_rows=None, allow_fixed=True,
                   allow_weights=True):
    big = tier == 'thorough'
    n_alts = draw(st.integers(2, 4))
    alts = draw(st.lists(st.integers(0, 30), min_size=n_alts, max_size=n_alts, unique=True))
    k_free = draw(st.integers(min_free, max_free))
    k_fixed = draw(st.integers(0, 1)) if allow_fixed else 0
    names = draw(st.lists(st.sampled_from(PARAM_NAMES), min_size=k_free + k_fixed, max_size=k_free + k_fixed,
                          unique=True))
    need = k_free + k_fixed
    n_attr_min = max(1, -(-(need - (n_alts - 1)) // n_alts))
    n_attr = draw(st.integers(n_attr_min, max(3, n_attr_min)))
    attrs = draw(st.lists(st.sampled_from(ATTR_NAMES), min_size=n_attr, max_size=n_attr, unique=True))
    true = [draw(gen.dyadic(-1.5, 1.5, 4)) for _ in names]
    status = [0] * k_free + [1] * k_fixed
    order = list(draw(st.permutations(list(range(len(names))))))
    names = [names[i] for i in order]
    true = [true[i] for i in order]
    status = [status[i] for i in order]
    params = []
    for nm, tv, stt in zip(names, true, status):
        if stt == 1:
            params.append([nm, tv, None, None, 1])
        else:
            params.append([nm, draw(gen.dyadic(-1, 1, 4)), None, None, 0])
    # utilities: every free parameter is used at least once; generic (same parameter, alternative-specific
    # attribute columns) or alternative-specific constants
    terms = {str(a): [] for a in alts}
    # identified by construction: every parameter gets its own "slot" (a generic attribute, a constant of a
    # non-reference alternative, or an alternative-specific attribute), drawn without replacement
    slots = [('generic', attr, None) for attr in attrs] + [('asc', None, a) for a in alts[1:]]
    slots += [('altspec', attr, a) for attr in attrs for a in alts[1:]]
    chosen = draw(st.permutations(slots))[:len(params)]
    for p, (kind, attr, a) in enumerate(chosen):
        if kind == 'generic':
            for a_ in alts:
                terms[str(a_)].append([p, f'{attr}_{a_}'])
        elif kind == 'asc':
            terms[str(a)].append([p, None])
        else:
            terms[str(a)].append([p, f'{attr}_{a}'])
    spec = dict(alts=alts, params=params, true=true, terms=terms, attrs=attrs,
                n_rows=n_rows or draw(st.integers(25, 120 if big else 60)),
                data_seed=draw(st.integers(0, 10**6)), weights=draw(st.booleans()) if allow_weights else False,
                choice_col='CHOICE', term_order=draw(st.integers(0, 10**6)))
    return spec


def problem_data(spec):
    """(columns dict, choice array, weights array) - deterministic function of the spec."""
    rs = np.random.RandomState(spec['data_seed'])
    n = spec['n_rows']
    cols = {}
    for attr in spec['attrs']:
        for a in spec['alts']:
            cols[f'{attr}_{a}'] = np.round(rs.uniform(-2, 2, size=n), 3)
    X = design(spec, cols)  # [n, J, K]
    beta = np.array(spec['true'], dtype=float)
    V = X @ beta
    gumbel = -np.log(-np.log(rs.uniform(1e-12, 1 - 1e-12, size=V.shape)))
    choice_idx = np.argmax(V + gumbel, axis=1)
    # make sure every alternative is chosen at least once (avoids separation at the boundary)
    for j in range(len(spec['alts'])):
        if not np.any(choice_idx == j):
            choice_idx[j % n] = j
    choice = np.array([spec['alts'][j] for j in choice_idx])
    w = np.round(rs.uniform(0.5, 2.0, size=n), 2) if spec['weights'] else np.ones(n)
    return cols, choice, choice_idx, w


def design(spec, cols):
    n = spec['n_rows']
    J, K = len(spec['alts']), len(spec['params'])
    X = np.zeros((n, J, K))
    for j, a in enumerate(spec['alts']):
        for p, col in spec['terms'][str(a)]:
            X[:, j, p] += 1.0 if col is None else cols[col]
    return X


def table_of(spec):
    cols, choice, _, w = problem_data(spec)
    columns = [[name, 'float', vals.tolist()] for name, vals in cols.items()]
    columns.append([spec['choice_col'], 'int', choice.tolist()])
    if spec['weights']:
        columns.append(['WEIGHT', 'float', w.tolist()])
    rs = np.random.RandomState(spec['data_seed'] + 1)
    rs.shuffle(columns)
    return dict(columns=columns)


class Reference:
    """numpy closed forms of the weighted multinomial-logit log likelihood."""

    def __init__(self, spec):
        self.spec = spec
        cols, self.choice, self.choice_idx, self.w = problem_data(spec)
        self.X = design(spec, cols)
        self.names = [p[0] for p in spec['params']]
        self.free = [i for i, p in enumerate(spec['params']) if p[4] == 0]
        self.free_sorted = sorted(self.free, key=lambda i: self.names[i])
        self.free_names = [self.names[i] for i in self.free_sorted]
        self.fixed_values = {i: p[1] for i, p in enumerate(spec['params']) if p[4] != 0}

    def full(self, x):
        beta = np.zeros(len(self.names))
        for i, v in self.fixed_values.items():
            beta[i] = v
        for pos, i in enumerate(self.free_sorted):
            beta[i] = x[pos]
        return beta

    def per_obs(self, x):
        beta = self.full(np.asarray(x, dtype=float))
        V = self.X @ beta
        m = V.max(axis=1, keepdims=True)
        lse = m[:, 0] + np.log(np.exp(V - m).sum(axis=1))
        n = len(lse)
        ll = V[np.arange(n), self.choice_idx] - lse
        P = np.exp(V - lse[:, None])
        Xf = self.X[:, :, self.free_sorted]
        xbar = np.einsum('nj,njk->nk', P, Xf)
        g = Xf[np.arange(n), self.choice_idx, :] - xbar
        H = -(np.einsum('nj,njk,njl->nkl', P, Xf, Xf) - np.einsum('nk,nl->nkl', xbar, xbar))
        return ll, g, H

    def loglike(self, x):
        ll, _, _ = self.per_obs(x)
        return float(self.w @ ll)

    def derivatives(self, x):
        ll, g, H = self.per_obs(x)
        G = (self.w[:, None] * g).sum(0)
        HH = (self.w[:, None, None] * H).sum(0)
        B = np.einsum('n,nk,nl->kl', self.w, g, g)
        return float(self.w @ ll), G, HH, B

    def bounds(self):
        return [(self.spec['params'][i][2], self.spec['params'][i][3]) for i in self.free_sorted]

    def start(self):
        return np.array([self.spec['params'][i][1] for i in self.free_sorted], dtype=float)

    def solve(self):
        """High-accuracy maximiser under the bounds (scipy L-BFGS-B + projected Newton polish)."""
        from scipy.optimize import minimize

        b = self.bounds()

        def f(x):
            L, G, _, _ = self.derivatives(x)
            return -L, -G
        r = minimize(f, self.start(), jac=True, bounds=b, method='L-BFGS-B',
                     options=dict(ftol=1e-15, gtol=1e-12, maxiter=2000))
        x = r.x.copy()
        lo = np.array([-np.inf if l is None else l for l, _ in b])
        hi = np.array([np.inf if u is None else u for _, u in b])
        for _ in range(50):  # projected Newton on the free coordinates
            L, G, H, _ = self.derivatives(x)
            active = ((x <= lo + 1e-12) & (G < 0)) | ((x >= hi - 1e-12) & (G > 0))
            fr = ~active
            if not fr.any() or np.max(np.abs(G[fr])) < 1e-11:
                break
            try:
                step = np.linalg.solve(-H[np.ix_(fr, fr)], G[fr])
            except np.linalg.LinAlgError:
                break
            xn = x.copy()
            xn[fr] = np.clip(x[fr] + step, lo[fr], hi[fr])
            if self.loglike(xn) < L - 1e-12:
                break
            x = xn
        return x


def build_model(spec, order_seed=None):
    """(formula for the log likelihood, weight formula or None) built with the real library."""
    from biogeme import models
    from biogeme.expressions import Beta, Variable

    betas = {}

    def beta(i):
        nm, v, lb, ub, stt = spec['params'][i]
        return Beta(nm, v, lb, ub, stt)
    rs = np.random.RandomState(spec['term_order'] if order_seed is None else order_seed)
    V = {}
    alts = list(spec['alts'])
    rs.shuffle(alts)
    for a in alts:
        ts = list(spec['terms'][str(a)])
        rs.shuffle(ts)
        expr = None
        for p, col in ts:
            t = beta(p) if col is None else beta(p) * Variable(col)
            expr = t if expr is None else expr + t
        V[a] = expr if expr is not None else 0
    choice = Variable(spec['choice_col'])
    loglike = models.loglogit(V, None, choice)
    weight = Variable('WEIGHT') if spec['weights'] else None
    return loglike, weight
