"""C18 MDCEV forecasts solve the consumer problem and model pieces agree.

Reference: the utility functions, their derivatives and the consumer problem
    max sum_k U_k(e_k)   s.t.  sum_k e_k = E,  e_k >= 0
as written in the technical report (reports/mdcev/mdcev.tex, sections "Forecasting" and "Model
specifications"), re-implemented here in plain Python floats.  All four utilities are strictly
concave on the generated domain (gamma > 0, 0 < alpha < 1), so the Kuhn-Tucker conditions
    U_k'(e_k) = lambda  (e_k > 0),   U_k'(0) <= lambda  (e_k = 0),   sum e_k = E
characterise the unique optimum; the oracle checks them on the forecast itself.
"""
from __future__ import annotations

import datetime
import math
import re
import types

import numpy as np
import pandas as pd
from hypothesis import strategies as st

# imported eagerly so that forked children do not pay for the imports
import biogeme.database  # noqa: F401
import biogeme.expressions  # noqa: F401
import biogeme.mdcev  # noqa: F401
import biogeme.results  # noqa: F401
from biogeme.function_output import BiogemeFunctionOutput

from .. import isolate
from ..runner import Outcome, SubCheck

PROPERTY = 'C18'
LEVEL = 'exploration'
ASSUMPTIONS = [
    'utility functions, derivatives and the equality-constrained consumer problem are those of the '
    'technical report reports/mdcev/mdcev.tex (error term divided by the scale parameter as in the '
    'symbolic utility); all four are strictly concave for gamma > 0, 0 < alpha < 1, so the '
    'Kuhn-Tucker conditions checked on the forecast are sufficient for optimality',
    'column j of an epsilon matrix belongs to alternative model.index_to_key[j] (the only convention '
    'the public attributes define; the documentation does not fix a column order)',
    'the engine value and gradient of the symbolic utility (get_value_and_derivatives) are trusted '
    '(expression evaluation is the subject of C01) and cross-checked against the report formulas',
    'the documented stopping rule bounds the forecast error: |sum e - E| <= tolerance_budget or the '
    'dual variable is within tolerance_dual (plus float resolution) of its optimal value',
    'parameters are Beta (free or fixed) or Numeric expressions, prices Numeric (the forecasting code '
    'reads them with get_value()); labels are distinct non-negative integers; one or two data rows',
    'a model object carries no state from one forecast/validation to the next other than its estimation '
    'results: the documented inputs of forecast, validation and of the numeric pieces are the arguments of the '
    'call, so each use equals the same use by a new model object that has been given the same estimation '
    'results; assigning estimation_results replaces the values of all parameters (the setter updates the '
    'expressions), whatever the model was used for before and whichever Database objects it has already seen',
    'estimation results are bioResults objects built the way BIOGEME.estimate builds them (RawResults + '
    'bioResults) from a stub carrying the attributes RawResults reads, all Beta parameters of the model free; '
    'they are given to models with free parameters only. Modifying database.data in place between two uses of '
    'the same Database object is outside the generated domain (a Database handed to the model is not changed '
    'afterwards), and so is changing the expressions of the model by hand',
]
BUDGETS = dict(quick=dict(shards=8), thorough=dict(shards=16))

VARIANTS = ['gamma', 'translated', 'generalized', 'nonmono']
HAS_PRICES = {'gamma', 'generalized'}
EPS_MACH = 2.220446049250313e-16
REL = 1e-9  # agreement of two evaluations of the same closed form


# ---------------------------------------------------------------------------------------------
# independent reference: the four utilities of the technical report


def _lin(term, row):
    return term['c'] + sum(b * row[name] for name, b in term['b'])


class RefAlt:
    """One alternative of one variant for one error draw, in plain floats."""

    def __init__(self, variant, alt, prices, scale, row, eps):
        self.variant = variant
        self.outside = alt['gamma'] is None
        self.gamma = alt['gamma']
        self.alpha = alt['alpha']
        self.price = alt['price'] if (prices and variant in HAS_PRICES) else 1.0
        self.v = _lin(alt['V'], row)
        self.e = eps / scale if scale is not None else eps
        if variant == 'nonmono':
            self.psi = math.exp(self.v)
            self.m = _lin(alt['mu'], row) + self.e
        else:
            self.psi = math.exp(self.v + self.e)
            self.m = 0.0

    # value, first and second derivative with respect to the expenditure x
    def u(self, x):
        g, a, p, psi = self.gamma, self.alpha, self.price, self.psi
        if self.variant == 'gamma':
            return psi * math.log(x / p) if self.outside else psi * g * math.log1p(x / (p * g))
        if self.variant == 'translated':
            return psi * x ** a if self.outside else psi * (x + g) ** a
        if self.variant == 'generalized':
            if self.outside:
                return psi * (x / p) ** a / a
            return psi * g * ((x / (p * g) + 1.0) ** a - 1.0) / a
        if self.outside:
            return psi * x ** a / a + self.m * x
        return g * psi * ((x / g + 1.0) ** a - 1.0) / a + self.m * x

    def du(self, x):
        g, a, p, psi = self.gamma, self.alpha, self.price, self.psi
        if self.outside and x == 0.0:
            return math.inf
        if self.variant == 'gamma':
            return psi / x if self.outside else psi * g / (x + p * g)
        if self.variant == 'translated':
            return psi * a * x ** (a - 1.0) if self.outside else psi * a * (x + g) ** (a - 1.0)
        if self.variant == 'generalized':
            if self.outside:
                return psi / p * (x / p) ** (a - 1.0)
            return psi / p * (x / (p * g) + 1.0) ** (a - 1.0)
        if self.outside:
            return psi * x ** (a - 1.0) + self.m
        return psi * (x / g + 1.0) ** (a - 1.0) + self.m

    def d2u(self, x):
        g, a, p, psi = self.gamma, self.alpha, self.price, self.psi
        if self.variant == 'gamma':
            return -psi / (x * x) if self.outside else -psi * g / (x + p * g) ** 2
        if self.variant == 'translated':
            base = x if self.outside else x + g
            return psi * a * (a - 1.0) * base ** (a - 2.0)
        if self.variant == 'generalized':
            if self.outside:
                return (a - 1.0) * psi / (p * p) * (x / p) ** (a - 2.0)
            return (a - 1.0) * psi / (p * p * g) * (x / (p * g) + 1.0) ** (a - 2.0)
        if self.outside:
            return (a - 1.0) * psi * x ** (a - 2.0)
        return (a - 1.0) / g * psi * (x / g + 1.0) ** (a - 2.0)

    def magnitude(self, x):
        """Size of the terms whose difference is du(x): scale for comparing marginal utilities."""
        if self.variant == 'nonmono':
            return abs(self.du(x) - self.m) + abs(self.m)
        return abs(self.du(x))

    def offset(self):
        """Constant subtracted in the closed-form expenditure (rounding scale of that formula)."""
        if self.outside:
            return 0.0
        return self.price * self.gamma if self.variant != 'translated' else self.gamma


def all_rows(spec):
    return [spec['row']] + list(spec.get('more_rows', []))


def ref_alts(spec, r, d):
    """The alternatives for data row r and error draw d of that row."""
    return [RefAlt(spec['variant'], alt, spec['prices'], spec['scale'], all_rows(spec)[r],
                   spec['eps'][r][d][i])
            for i, alt in enumerate(spec['alts'])]


# ---------------------------------------------------------------------------------------------
# building the real objects


def _param(kind, name, value, lower=None, upper=None):
    from biogeme.expressions import Beta, Numeric

    if kind == 'numeric':
        return Numeric(value)
    return Beta(name, value, lower, upper, 1 if kind == 'fixed' else 0)


def _linear(kind, prefix, term):
    from biogeme.expressions import Variable

    e = _param(kind, f'{prefix}_c', term['c'])
    for name, b in term['b']:
        e = e + _param(kind, f'{prefix}_{name}', b) * Variable(name)
    return e


def build_model(spec, labels, order):
    """The model of `spec` with alternative i (position in spec['alts']) carrying labels[i],
    dictionaries filled in the order `order` (a permutation of positions)."""
    from biogeme.database import Database
    from biogeme.expressions import Numeric
    from biogeme.mdcev import GammaProfile, Generalized, NonMonotonic, Translated

    kind, variant = spec['kind'], spec['variant']
    bu, ga, al, pr, mu = {}, {}, {}, {}, {}
    for i in order:
        alt, k = spec['alts'][i], labels[i]
        bu[k] = _linear(kind, f'v{i}', alt['V'])
        ga[k] = None if alt['gamma'] is None else _param(kind, f'gamma{i}', alt['gamma'], 0.001, None)
        al[k] = _param(kind, f'alpha{i}', alt['alpha'], 0.0, 1.0)
        pr[k] = Numeric(alt['price'])
        if variant == 'nonmono':
            mu[k] = _linear(kind, f'm{i}', alt['mu'])
    scale = None if spec['scale'] is None else _param(kind, 'scale', spec['scale'], 0.0001, None)
    prices = pr if (spec['prices'] and variant in HAS_PRICES) else None
    if variant == 'gamma':
        m = GammaProfile('c18', bu, ga, alpha_parameters=al if spec.get('alpha_given', True) else None,
                         scale_parameter=scale, prices=prices)
    elif variant == 'translated':
        m = Translated('c18', bu, ga, alpha_parameters=al, scale_parameter=scale)
    elif variant == 'generalized':
        m = Generalized('c18', bu, ga, alpha_parameters=al, scale_parameter=scale, prices=prices)
    else:
        m = NonMonotonic('c18', bu, ga, mu_utilities=mu, alpha_parameters=al, scale_parameter=scale)
    rows = all_rows(spec)
    table = pd.DataFrame({name: [float(r[name]) for r in rows] for name in rows[0]})
    return m, Database('c18_rows', table)


def _exc(e):
    return dict(type=type(e).__name__, msg=str(e)[:300])


# ---------------------------------------------------------------------------------------------
# sub-check 1: forecasts


def _observe_model(spec, labels, order, brute):
    """Runs in the child. Everything the library says about one labelling of the model."""
    o = dict(labels=list(labels))
    try:
        m, db = build_model(spec, labels, order)
    except Exception as e:  # noqa: constructor refusing a valid model
        o['build_exc'] = _exc(e)
        return o
    n = len(labels)
    o['index_to_key'] = [int(k) for k in m.index_to_key]
    o['key_to_index'] = {int(k): int(v) for k, v in m.key_to_index.items()}
    o['outside_key'] = None if m.outside_good_key is None else int(m.outside_good_key)
    o['outside_index'] = None if m.outside_good_index is None else int(m.outside_good_index)
    maps_ok = (sorted(o['index_to_key']) == sorted(labels)
               and all(0 <= o['key_to_index'].get(k, -1) < n and
                       o['index_to_key'][o['key_to_index'][k]] == k for k in labels))
    o['maps_ok'] = maps_ok
    if not maps_ok:
        return o
    from biogeme.database import Database

    n_rows, n_draws = len(spec['eps']), len(spec['eps'][0])
    one_row = [Database(f'c18_row{r}', db.data.iloc[[r]]) for r in range(n_rows)]
    # column j of an epsilon matrix belongs to alternative index_to_key[j]
    eps = [np.zeros((n_draws, n)) for _ in range(n_rows)]
    for r in range(n_rows):
        for d, per_alt in enumerate(spec['eps'][r]):
            for i, k in enumerate(labels):
                eps[r][d, m.key_to_index[k]] = per_alt[i]
    scenarios = [(r, d) for r in range(n_rows) for d in range(n_draws)]

    # marginal utility at zero expenditure, the quantity the goods are ordered by
    w0 = []
    for r, d in scenarios:
        per = {}
        for i, k in enumerate(labels):
            if spec['alts'][i]['gamma'] is None:
                continue
            try:
                per[int(k)] = float(m.derivative_utility_one_alternative(
                    the_id=k, the_consumption=0.0, epsilon=float(eps[r][d, m.key_to_index[k]]),
                    one_observation=one_row[r]))
            except Exception as e:  # noqa
                per[int(k)] = _exc(e)
        w0.append(per)
    o['w0'] = w0

    budget, tol_d, tol_b = spec['budget'], spec['tol_dual'], spec['tol_budget']

    def frames(brute_force):
        res = m.forecast(database=db, total_budget=budget, epsilons=[e.copy() for e in eps],
                         brute_force=brute_force, tolerance_dual=tol_d, tolerance_budget=tol_b)
        return dict(frames=[dict(columns=[c if isinstance(c, str) else int(c) for c in df.columns],
                                 rows=[[float(v) for v in row] for row in df.to_numpy()])
                            for df in res])

    try:
        o['forecast'] = frames(False)
    except Exception as e:  # noqa
        o['forecast_exc'] = _exc(e)

    # trace of the bisection (attribution of budget failures only): total expenditure at the last
    # multiplier tried inside the loop and at the multiplier finally returned
    traces = []
    for r, d in scenarios:
        calls = []
        original = m.optimal_consumption

        def recorder(chosen_alternatives, dual_variable, epsilon, one_observation, _o=original, _c=calls):
            r = _o(chosen_alternatives=chosen_alternatives, dual_variable=dual_variable,
                   epsilon=epsilon, one_observation=one_observation)
            _c.append((float(dual_variable), float(sum(r.values()))))
            return r

        m.optimal_consumption = recorder
        try:
            m.forecast_bisection_one_draw(one_row_of_database=one_row[r], total_budget=budget,
                                          epsilon=eps[r][d].copy(), tolerance_dual=tol_d,
                                          tolerance_budget=tol_b)
            traces.append(dict(last_loop=calls[-2] if len(calls) >= 2 else None,
                               final=calls[-1] if calls else None, n_calls=len(calls)))
        except Exception as e:  # noqa
            traces.append(dict(exc=_exc(e)))
        finally:
            del m.optimal_consumption
    o['traces'] = traces

    if brute:
        try:
            o['brute'] = frames(True)
        except Exception as e:  # noqa
            o['brute_exc'] = _exc(e)
    return o


def _observe_forecast(spec):
    n = len(spec['alts'])
    a = _observe_model(spec, spec['labels'], list(range(n)), brute=True)
    b = _observe_model(spec, spec['relabel']['labels'], spec['relabel']['order'], brute=False)
    return dict(A=a, B=b)


def _label_scheme(labels):
    n = len(labels)
    if list(labels) == list(range(n)):
        return 'positions0'
    if list(labels) == list(range(1, n + 1)):
        return 'positions1'
    if sorted(labels) == list(range(1, n + 1)):
        return 'permuted_1..n'
    return 'arbitrary'


def _rows_as_dicts(result, labels, n_rows, n_draws):
    """The list of data frames (one per observation, one line per draw) as one {label: value}
    per (observation, draw), or a reason."""
    frames = result['frames']
    if len(frames) != n_rows:
        return None, f'{len(frames)} data frames for {n_rows} observations'
    out = []
    for frame in frames:
        if sorted(frame['columns'], key=str) != sorted(labels, key=str):
            return None, f'columns {frame["columns"]} instead of the labels {sorted(labels)}'
        if len(frame['rows']) != n_draws:
            return None, f'{len(frame["rows"])} lines for {n_draws} draws'
        out += [dict(zip(frame['columns'], line)) for line in frame['rows']]
    return out, None


def judge_labelling(out, spec, obs, tag, key=None):
    """KKT oracle on the forecasts of one labelling. Returns per-draw diagnostics or None.
    `key` maps an aspect of the forecast to a failure key (default: forecast:<variant>:<aspect>)."""
    variant = spec['variant']
    labels = obs['labels']
    n = len(labels)
    if key is None:
        key = lambda aspect: f'forecast:{variant}:{aspect}'  # noqa: E731
    where = f'[{tag}] {_render_model(spec, labels)}'
    if 'build_exc' in obs:
        out.fail(f'construct:{variant}:raises:{obs["build_exc"]["type"]}',
                 f'{where}: constructor raised {obs["build_exc"]}')
        return None
    if not obs['maps_ok']:
        out.fail(f'maps:{variant}', f'{where}: index_to_key={obs["index_to_key"]} key_to_index='
                 f'{obs["key_to_index"]} are not inverse bijections between labels and 0..n-1')
        return None
    outside_pos = next((i for i, a in enumerate(spec['alts']) if a['gamma'] is None), None)
    outside_label = None if outside_pos is None else labels[outside_pos]
    if obs['outside_key'] != outside_label or \
            (outside_label is not None and obs['index_to_key'][obs['outside_index']] != outside_label):
        out.fail(f'maps:{variant}:outside_good', f'{where}: outside_good_key={obs["outside_key"]} '
                 f'outside_good_index={obs["outside_index"]} but the outside good is {outside_label}')
        return None

    # --- root cause candidates: marginal utility at zero of the inside goods
    root_cause = False
    n_rows, n_draws = len(spec['eps']), len(spec['eps'][0])
    refs = [ref_alts(spec, r, d) for r in range(n_rows) for d in range(n_draws)]
    for d in range(len(refs)):
        for i, k in enumerate(labels):
            if i == outside_pos:
                continue
            got, want = obs['w0'][d][k], refs[d][i].du(0.0)
            bad = isinstance(got, dict) or not math.isfinite(got) or \
                abs(got - want) > 1e-9 * refs[d][i].magnitude(0.0)
            if bad:
                root_cause = True
                collides = outside_label is not None and k == obs['outside_index']
                aspect = 'label_equals_outside_index' if collides else 'value'
                out.fail(f'derivative_at_zero:{variant}:{aspect}',
                         f'{where}: derivative_utility_one_alternative(the_id={k}, the_consumption=0) '
                         f'= {got}, dU/de(0) = {want!r} (outside good: label {outside_label}, '
                         f'position {obs["outside_index"]})')
                break
        if root_cause:
            break

    if 'forecast_exc' in obs:
        if not root_cause:
            out.fail(key(f'raises:{obs["forecast_exc"]["type"]}'),
                     f'{where}: forecast(budget={spec["budget"]}) raised {obs["forecast_exc"]}')
        return None
    rows, why = _rows_as_dicts(obs['forecast'], labels, n_rows, n_draws)
    if rows is None:
        if not root_cause:
            out.fail(key('shape'), f'{where}: {why}')
        return None

    budget, tol_d, tol_b = spec['budget'], spec['tol_dual'], spec['tol_budget']
    diags = []

    def report(fails, d):
        """Record the violated clauses of scenario d, unless they follow from a root cause above."""
        if not root_cause:
            for aspect, msg in fails:
                out.fail(aspect[1:] if aspect.startswith('@') else key(aspect),
                         f'{where} row {d // n_draws} draw {d % n_draws}: {msg}')

    for d, x_by_label in enumerate(rows):
        ref = refs[d]
        x = [x_by_label[k] for k in labels]
        diag = dict(x=x, ok=False, delta=None, curv=None)
        diags.append(diag)
        fails = []
        if not all(math.isfinite(v) for v in x):
            fails.append(('nonfinite', f'forecast {x_by_label} is not finite'))
        elif min(x) < -1e-12 * (budget + sum(a.offset() for a in ref)):
            fails.append(('negative', f'negative expenditure in {x_by_label}'))
        if fails:
            report(fails, d)
            continue
        x = [max(v, 0.0) for v in x]
        consumed = [i for i in range(n) if x[i] > 0.0]
        if outside_pos is not None and x[outside_pos] <= 0.0:
            fails.append(('outside_good_not_consumed',
                          f'outside good {outside_label} gets {x_by_label[outside_label]!r} in {x_by_label}'))
        if not consumed:
            fails.append(('budget', f'nothing is consumed: {x_by_label}'))
        if fails:
            report(fails, d)
            continue
        mu_c = [ref[i].du(x[i]) for i in consumed]
        mag = max(ref[i].magnitude(x[i]) for i in consumed)
        lam_lo, lam_hi = min(mu_c), max(mu_c)
        lam = 0.5 * (lam_lo + lam_hi)
        curv = [1.0 / abs(ref[i].d2u(x[i])) if x[i] > 0.0 else 0.0 for i in range(n)]
        xp = sum(curv)
        delta = sum(x) - budget
        rounding = 1e-11 * (budget + sum(ref[i].offset() for i in consumed) + 1.0)
        tol_lambda = tol_d + 8 * EPS_MACH * max(abs(lam), mag)
        allowed = 2.0 * max(tol_b, tol_lambda * xp) + rounding
        diag.update(delta=delta, curv=curv, xp=xp, lam=lam, consumed=consumed, allowed=allowed)
        # equal marginal utilities on the consumed goods
        if lam_hi - lam_lo > 1e-6 * mag:
            fails.append(('kkt_consumed',
                          f'marginal utilities of the consumed goods differ: '
                          f'{ {labels[i]: ref[i].du(x[i]) for i in consumed} } at {x_by_label}'))
        # not larger at zero for the others
        for i in range(n):
            if x[i] == 0.0 and ref[i].du(0.0) > lam_lo + 1e-6 * max(mag, ref[i].magnitude(0.0)):
                fails.append(('kkt_zero',
                              f'good {labels[i]} is not consumed but its marginal utility at zero '
                              f'{ref[i].du(0.0)!r} exceeds that of the consumed goods {lam_lo!r}: {x_by_label}'))
                break
        if abs(delta) > allowed:
            tr = obs['traces'][d] if 'traces' in obs else {}
            discarded = (tr.get('last_loop') is not None and tr.get('final') is not None
                         and abs(tr['last_loop'][1] - budget) <= tol_b < abs(tr['final'][1] - budget))
            aspect = '@forecast:bisection:accepted_iterate_discarded' if discarded else 'budget'
            fails.append((aspect,
                          f'sum of expenditures - budget = {delta!r} (allowed {allowed:.3g} from '
                          f'tolerance_budget={tol_b}, tolerance_dual={tol_d}, |dE/dlambda|={xp:.3g}); '
                          f'forecast {x_by_label}, budget {budget}; bisection trace {tr}'))
        if fails:
            report(fails, d)
            # the recognised bisection defect moves the point along the Kuhn-Tucker curve only: the
            # remaining comparisons (which account for the budget error) still apply
            if any(not a.startswith('@') for a, _ in fails):
                continue
        diag['ok'] = True

        # at least as good as the brute-force optimiser's solution (made feasible by clipping and
        # rescaling, so that it cannot beat the optimum)
        if 'brute' in obs:
            brows, _ = _rows_as_dicts(obs['brute'], labels, n_rows, n_draws)
            if brows is None:
                out.classes.append('brute_force:no_solution')
            else:
                xb = [brows[d][k] for k in labels]
                if all(math.isfinite(v) for v in xb) and sum(max(v, 0.0) for v in xb) > 0:
                    xb = [max(v, 0.0) for v in xb]
                    if outside_pos is not None:
                        xb[outside_pos] = max(xb[outside_pos], 1e-6 * budget)
                    s = sum(xb)
                    xb = [v * budget / s for v in xb]
                    obj = sum(ref[i].u(x[i]) for i in range(n))
                    obj_b = sum(ref[i].u(xb[i]) for i in range(n))
                    size = sum(abs(ref[i].u(x[i])) + abs(ref[i].u(xb[i])) for i in range(n))
                    slack = 1e-9 * size + 2 * max(abs(lam), mag) * abs(delta) + 1e-12
                    out.classes.append('brute_force:compared')
                    if obj < obj_b - slack:
                        report([('worse_than_brute_force',
                                 f'objective {obj!r} of the forecast {x_by_label} is below {obj_b!r} reached '
                                 f'by the brute-force solution {dict(zip(labels, xb))}')], d)
                else:
                    out.classes.append('brute_force:no_solution')
        elif 'brute_exc' in obs:
            out.classes.append(f'brute_force:raised:{obs["brute_exc"]["type"]}')
    return dict(diags=diags, root_cause=root_cause)


def judge_forecast(spec) -> Outcome:
    out = Outcome()
    variant = spec['variant']
    n = len(spec['alts'])
    outside_pos = next((i for i, a in enumerate(spec['alts']) if a['gamma'] is None), None)
    scheme = _label_scheme(spec['labels'])
    out.classes += [f'variant={variant}', f'outside_good={"yes" if outside_pos is not None else "no"}',
                    f'labels={scheme}', f'goods={n}', f'kind={spec["kind"]}',
                    f'scale={"yes" if spec["scale"] is not None else "no"}',
                    f'rows={len(spec["eps"])}', f'draws={len(spec["eps"][0])}']
    if variant in HAS_PRICES:
        out.classes.append(f'prices={"yes" if spec["prices"] else "no"}')
    res = isolate.call(_observe_forecast, spec)
    if not res['ok']:
        out.fail(f'forecast:{variant}:child:{res["exc_type"]}',
                 f'{_render_forecast(spec)}: {res["exc_type"]}: {res["exc_msg"]}')
        return out
    obs = res['value']
    ja = judge_labelling(out, spec, obs['A'], 'model')
    jb = judge_labelling(out, spec, obs['B'], 'relabelled')
    for o_ in (obs['A'], obs['B']):
        if o_.get('maps_ok') and o_['outside_key'] is not None and \
                o_['outside_index'] in o_['labels'] and o_['outside_index'] != o_['outside_key']:
            out.classes.append('label_equals_outside_index')
            break
    some_zero = False
    if ja is not None:
        for dg in ja['diags']:
            if dg['ok']:
                k = sum(1 for v in dg['x'] if v > 0)
                out.classes.append(f'consumed={k}_of_{n}' if n <= 3 else
                                   ('consumed=all' if k == n else 'consumed=some'))
                some_zero = some_zero or k < n
    out.nontrivial = n >= 3 and some_zero and scheme == 'arbitrary'

    # --- relabelling: every alternative keeps its forecast
    n_draws = len(spec['eps'][0])
    if ja is not None and jb is not None and not ja['root_cause'] and not jb['root_cause']:
        for d, (da, db_) in enumerate(zip(ja['diags'], jb['diags'])):
            if not (da['ok'] and db_['ok']):
                continue
            for i in range(n):
                xa, xb = da['x'][i], db_['x'][i]
                share = max(da['curv'][i] / da['xp'] if da['xp'] else 0.0,
                            db_['curv'][i] / db_['xp'] if db_['xp'] else 0.0, 0.0)
                tol = 2.0 * share * (abs(da['delta']) + abs(db_['delta'])) \
                    + 2.0 * share * (da['allowed'] + db_['allowed']) + 1e-9 * (1.0 + abs(xa))
                if abs(xa - xb) > tol:
                    out.fail(f'relabel:{variant}',
                             f'{_render_forecast(spec)} row {d // n_draws} draw {d % n_draws}: '
                             f'alternative at position {i} gets {xa!r} with '
                             f'labels {spec["labels"]} and {xb!r} with labels {spec["relabel"]["labels"]} '
                             f'(dictionary order {spec["relabel"]["order"]}), error terms following the alternatives')
                    break
    return out


# ---------------------------------------------------------------------------------------------
# sub-check 2: the pieces (numeric utility, symbolic utility, derivative, inverse)


def _observe_pieces(spec):
    from biogeme.expressions import Beta, Numeric

    labels = spec['labels']
    n = len(labels)
    o = dict(points=[])
    try:
        m, db = build_model(spec, labels, list(range(n)))
    except Exception as e:  # noqa
        o['build_exc'] = _exc(e)
        return o
    o['outside_key'] = None if m.outside_good_key is None else int(m.outside_good_key)
    o['outside_index'] = None if m.outside_good_index is None else int(m.outside_good_index)

    def guarded(fn):
        try:
            return float(fn())
        except Exception as e:  # noqa
            return _exc(e)

    # pure Python pieces first, the engine afterwards (an engine exception poisons the process)
    for i, x, eps, lam in spec['points']:
        k = labels[i]
        p = dict()
        p['u_num'] = guarded(lambda: m.utility_one_alternative(
            the_id=k, the_consumption=x, epsilon=eps, one_observation=db))
        p['du_num'] = guarded(lambda: m.derivative_utility_one_alternative(
            the_id=k, the_consumption=x, epsilon=eps, one_observation=db))
        p['x_opt'] = guarded(lambda: m.optimal_consumption_one_alternative(
            the_id=k, dual_variable=lam, epsilon=eps, one_observation=db))
        if isinstance(p['x_opt'], float) and math.isfinite(p['x_opt']) and \
                (p['x_opt'] > 0.0 or spec['alts'][i]['gamma'] is not None and p['x_opt'] >= 0.0):
            p['du_at_opt'] = guarded(lambda: m.derivative_utility_one_alternative(
                the_id=k, the_consumption=p['x_opt'], epsilon=eps, one_observation=db))
        o['points'].append(p)
    try:
        o['validation'] = [str(s)[:200] for s in m.validation(one_row=db)]
    except Exception as e:  # noqa
        o['validation_exc'] = _exc(e)
    for (i, x, eps, lam), p in zip(spec['points'], o['points']):
        k = labels[i]
        try:
            expr = m.utility_expression_one_alternative(
                the_id=k, the_consumption=Beta('consumption', x, None, None, 0),
                unscaled_epsilon=Numeric(eps))
            r = expr.get_value_and_derivatives(database=db, prepare_ids=True, gradient=True,
                                               hessian=False, bhhh=False, named_results=True)
            p['u_sym'] = float(r.function)
            p['du_sym'] = float(r.gradient['consumption'])
        except Exception as e:  # noqa
            p['sym_exc'] = _exc(e)
            break
    return o


def _close(a, b, scale=0.0, rel=REL):
    if not (math.isfinite(a) and math.isfinite(b)):
        return a == b
    return abs(a - b) <= rel * max(abs(a), abs(b), scale) + 1e-300


def _point_lambda(spec, i, eps, t, row=None):
    """A multiplier at which the closed-form expenditure of alternative i is positive."""
    alt = RefAlt(spec['variant'], spec['alts'][i], spec['prices'], spec['scale'],
                 spec['row'] if row is None else row, eps)
    if alt.outside:
        # any multiplier above the asymptote: the marginal utility at expenditure 1/t - 1
        return alt.du(1.0 / t - 1.0 + 1e-3)
    w = alt.du(0.0)
    return alt.m + t * (w - alt.m)


def judge_points(fail, out, spec, row, labels, points, observed, outside_index, where):
    """The numeric pieces observed at `points` (data row `row`) against the technical report; violated
    clauses go to fail(aspect, msg)."""
    variant = spec['variant']
    outside_pos = next((i for i, a in enumerate(spec['alts']) if a['gamma'] is None), None)
    outside_label = None if outside_pos is None else labels[outside_pos]
    for (i, x, eps, lam), p in zip(points, observed):
        k = labels[i]
        alt = RefAlt(variant, spec['alts'][i], spec['prices'], spec['scale'], row, eps)
        role = 'outside' if alt.outside else 'inside'
        at = f'{where}: alternative {k} ({role}), expenditure {x!r}, epsilon {eps!r}'
        u_ref, du_ref = alt.u(x), alt.du(x)
        u_scale = abs(alt.psi) * max(1.0, alt.offset()) + abs(alt.m * x)
        du_scale = alt.magnitude(x)
        if out is not None:
            out.classes.append('pieces:at_zero' if x == 0.0 else 'pieces:positive')
        for name in ('u_num', 'du_num', 'x_opt'):
            if isinstance(p[name], dict):
                fail(f'{name}:raises:{p[name]["type"]}', f'{at}: {name} raised {p[name]}')
        if 'sym_exc' in p:
            fail(f'symbolic:raises:{p["sym_exc"]["type"]}',
                 f'{at}: evaluating utility_expression_one_alternative raised {p["sym_exc"]}')
        have_sym = 'u_sym' in p
        # numeric utility == symbolic utility == report; the side that leaves the report is named
        u_num = p['u_num'] if isinstance(p['u_num'], float) else None
        num_off = u_num is not None and not _close(u_num, u_ref, u_scale)
        sym_off = have_sym and not _close(p['u_sym'], u_ref, u_scale)
        if num_off:
            fail(f'utility:{role}:numeric_vs_report',
                 f'{at}: utility_one_alternative = {u_num!r}, technical report = {u_ref!r}'
                 + (f', symbolic utility = {p["u_sym"]!r}' if have_sym else ''))
        if sym_off:
            fail(f'utility:{role}:symbolic_vs_report',
                 f'{at}: symbolic utility = {p["u_sym"]!r}, technical report = {u_ref!r}')
        if u_num is not None and have_sym and not (num_off or sym_off) and \
                not _close(u_num, p['u_sym'], u_scale, 3 * REL):
            fail(f'utility:{role}:numeric_vs_symbolic',
                 f'{at}: utility_one_alternative = {u_num!r}, symbolic utility = {p["u_sym"]!r}')
        # numeric derivative == derivative of the symbolic utility == report
        du_num = p['du_num'] if isinstance(p['du_num'], float) else None
        num_off = du_num is not None and not _close(du_num, du_ref, du_scale)
        sym_off = have_sym and not _close(p['du_sym'], du_ref, du_scale)
        if num_off:
            also = f', d/de symbolic utility = {p["du_sym"]!r}' if have_sym else ''
            if x == 0.0 and not alt.outside:
                collides = outside_label is not None and k == outside_index
                fail(f'derivative_at_zero:{variant}:'
                     f'{"label_equals_outside_index" if collides else "value"}',
                     f'{at}: derivative_utility_one_alternative = {du_num!r}, technical report = {du_ref!r}'
                     f'{also} (outside good: label {outside_label}, position {outside_index})')
            else:
                fail(f'derivative:{role}:numeric_vs_report',
                     f'{at}: derivative_utility_one_alternative = {du_num!r}, technical report = {du_ref!r}{also}')
        if sym_off:
            fail(f'derivative:{role}:symbolic_vs_report',
                 f'{at}: d/de symbolic utility = {p["du_sym"]!r}, technical report = {du_ref!r}')
        if du_num is not None and have_sym and not (num_off or sym_off) and \
                not _close(du_num, p['du_sym'], du_scale, 3 * REL):
            fail(f'derivative:{role}:numeric_vs_symbolic',
                 f'{at}: derivative_utility_one_alternative = {du_num!r}, d/de symbolic utility = {p["du_sym"]!r}')
        # the closed-form expenditure inverts the derivative
        if isinstance(p['x_opt'], float):
            xo = p['x_opt']
            at_l = f'{where}: alternative {k} ({role}), multiplier {lam!r}, epsilon {eps!r}'
            if not math.isfinite(xo) or xo < -1e-9 * (alt.offset() + 1.0) or (alt.outside and xo <= 0.0):
                fail(f'inverse:{role}:sign',
                     f'{at_l}: optimal_consumption_one_alternative = {xo!r} although the multiplier is '
                     f'below the marginal utility at zero {alt.du(0.0)!r}')
            else:
                xo_pos = max(xo, 0.0)
                back = alt.du(xo_pos)
                # conditioning: a relative rounding error in (x + offset) moves du by |d2u| * (x + offset)
                cond = abs(alt.d2u(xo_pos)) * (xo_pos + alt.offset()) if xo_pos + alt.offset() > 0 else 0.0
                tol = 1e-9 * max(abs(lam), alt.magnitude(xo_pos)) + 1e-12 * cond
                if abs(back - lam) > tol:
                    fail(f'inverse:{role}:report_derivative',
                         f'{at_l}: optimal_consumption_one_alternative = {xo!r} but dU/de there is {back!r}')
                elif isinstance(p.get('du_at_opt'), float) and abs(p['du_at_opt'] - lam) > tol:
                    fail(f'inverse:{role}:own_derivative',
                         f'{at_l}: optimal_consumption_one_alternative = {xo!r} but '
                         f'derivative_utility_one_alternative there is {p["du_at_opt"]!r}')
                elif isinstance(p.get('du_at_opt'), dict):
                    fail(f'du_num:raises:{p["du_at_opt"]["type"]}',
                         f'{at_l}: derivative at the optimal expenditure {xo!r} raised {p["du_at_opt"]}')


def relevant_validation(spec, row, labels, messages):
    """The reports of validation(one_row) that are held against the model.

    validation() inverts the derivative at the fixed multiplier 10 with epsilon 0.01; the closed form is
    only meant for multipliers not above the marginal utility at zero (report, Property 3), so reports
    about other alternatives are not held against it."""
    variant = spec['variant']
    relevant = []
    for msg in messages:
        hit = [i for i, k in enumerate(labels) if f'dual variables for alt. {k}:' in msg]
        if hit:
            alt = RefAlt(variant, spec['alts'][hit[0]], spec['prices'], spec['scale'], row, 0.01)
            if not alt.outside and not 10.0 <= alt.du(0.0) * (1 - 1e-6):
                continue
            if alt.outside and variant == 'nonmono' and not 10.0 > alt.m + 1e-6:
                continue
        relevant.append(msg)
    return relevant


def judge_pieces(spec) -> Outcome:
    out = Outcome()
    variant, labels = spec['variant'], spec['labels']
    n = len(labels)
    outside_pos = next((i for i, a in enumerate(spec['alts']) if a['gamma'] is None), None)
    scheme = _label_scheme(labels)
    out.classes += [f'pieces:variant={variant}', f'pieces:labels={scheme}',
                    f'pieces:outside_good={"yes" if outside_pos is not None else "no"}']
    out.evaluations = len(spec['points'])
    out.nontrivial = scheme == 'arbitrary' and len(spec['points']) >= 3
    key = lambda aspect: f'pieces:{variant}:{aspect}'  # noqa: E731
    where = _render_model(spec, labels)
    res = isolate.call(_observe_pieces, spec)
    if not res['ok']:
        out.fail(key(f'child:{res["exc_type"]}'), f'{where}: {res["exc_type"]}: {res["exc_msg"]}')
        return out
    obs = res['value']
    if 'build_exc' in obs:
        out.fail(f'construct:{variant}:raises:{obs["build_exc"]["type"]}',
                 f'{where}: constructor raised {obs["build_exc"]}')
        return out
    outside_label = None if outside_pos is None else labels[outside_pos]
    seen = set()

    def fail(aspect, msg):
        if aspect not in seen:
            seen.add(aspect)
            out.fail(aspect if aspect.startswith('derivative_at_zero') else key(aspect), msg)

    judge_points(fail, out, spec, spec['row'], labels, spec['points'], obs['points'], obs['outside_index'], where)
    # the model's own validation must not contradict agreement established above
    if not out.failures:
        if 'validation_exc' in obs:
            out.fail(key(f'validation:raises:{obs["validation_exc"]["type"]}'),
                     f'{where}: validation(one_row) raised {obs["validation_exc"]}')
        else:
            relevant = relevant_validation(spec, spec['row'], labels, obs.get('validation', []))
            if relevant:
                out.fail(key('validation:reports'),
                         f'{where}: validation(one_row) reports {relevant[:2]} although the pieces agree')
    return out


# ---------------------------------------------------------------------------------------------
# sub-check 3: histories - one model object used on several samples, one after the other
#
# spec['samples'] = [{'name', 'rows': [row, ...], 'eps': [row][draw][alternative]}, ...]
# spec['ops'] = list of
#   ['forecast', s, brute_force]            model.forecast(database of sample s, ...)
#   ['validation', s, r, name]              model.validation(one_row): row r of sample s, taken from
#                                           Database.mdcev_row_split() (name None) or hand-made with that name
#   ['one_draw', s, r, d, name, method]     forecast_bisection_one_draw / forecast_bruteforce_one_draw on a
#                                           hand-made one-row Database called `name`, draw d of row r
#   ['pieces', s, r, name, points]          the numeric pieces on a hand-made one-row Database called `name`
#   ['results', k]                          model.estimation_results = bioResults holding the parameter values
#                                           spec['results'][k] (same parameters, other values)
# validation, one_draw and pieces carry a last element `same_object`: True = hand the model the one-row
# Database OBJECT that an earlier operation made for the same (name, s, r), if there is one; False = a new
# object. name None = row r of Database.mdcev_row_split() of the sample.


def op_states(ops):
    """For every operation the index of the estimation results in force when it runs (None: none yet)."""
    states, current = [], None
    for op in ops:
        states.append(current)
        if op[0] == 'results':
            current = op[1]
    return states


def params_view(spec, state):
    """The spec with the parameter values of the estimation results `state` (None: initial values)."""
    if state is None:
        return spec
    return dict(spec, alts=spec['results'][state]['alts'], scale=spec['results'][state]['scale'])


def beta_values(spec, state):
    """{name of the Beta: value} of the parameter vector `state`, names as in build_model."""
    pv = params_view(spec, state)
    values = {}
    for i, alt in enumerate(pv['alts']):
        terms = [(f'v{i}', alt['V'])] + ([(f'm{i}', alt['mu'])] if spec['variant'] == 'nonmono' else [])
        for prefix, term in terms:
            values[f'{prefix}_c'] = term['c']
            for name, b in term['b']:
                values[f'{prefix}_{name}'] = b
        if alt['gamma'] is not None:
            values[f'gamma{i}'] = alt['gamma']
        if spec['variant'] != 'gamma' or spec.get('alpha_given', True):
            values[f'alpha{i}'] = alt['alpha']
    if pv['scale'] is not None:
        values['scale'] = pv['scale']
    return values


def make_results(values):
    """bioResults built the way BIOGEME.estimate builds it (RawResults(model, xstar, f_g_h_b)), from a stub
    that carries the attributes RawResults reads; all parameters free, estimates = `values`."""
    names = list(values)
    k = len(names)
    stub = types.SimpleNamespace(
        modelName='c18', user_notes=None,
        id_manager=types.SimpleNamespace(free_betas=types.SimpleNamespace(names=names)),
        initLogLike=-10.0, nullLogLike=-12.0, get_bounds_on_beta=lambda name: (None, None),
        database=types.SimpleNamespace(name='c18_estimation', get_sample_size=lambda: 50,
                                       get_number_of_observations=lambda: 50, typesOfDraws={}, excludedData=0),
        monte_carlo=False, number_of_draws=0, drawsProcessingTime=datetime.timedelta(0),
        optimizationMessages={'Algorithm': 'synthetic outcome'}, convergence=True, number_of_threads=1,
        bootstrap_time=datetime.timedelta(0))
    fgh = BiogemeFunctionOutput(function=-8.0, gradient=np.zeros(k), hessian=-np.eye(k), bhhh=np.eye(k))
    raw = biogeme.results.RawResults(stub, np.array([values[name] for name in names], dtype=float), fgh,
                                     bootstrap=None)
    return biogeme.results.bioResults(the_raw_results=raw, identification_threshold=1e-5)


def sample_view(spec, s, r=None, d=None):
    """The forecast spec of sub-check 1 for sample s (or for draw d of its row r only)."""
    sample = spec['samples'][s]
    rows, eps = sample['rows'], sample['eps']
    if r is not None:
        rows, eps = [rows[r]], [[eps[r][d]]]
    view = {k: v for k, v in spec.items() if k not in ('samples', 'ops')}
    view.update(row=rows[0], more_rows=rows[1:], eps=eps)
    return view


def _sample_database(sample):
    from biogeme.database import Database

    rows = sample['rows']
    return Database(sample['name'], pd.DataFrame({name: [float(r[name]) for r in rows] for name in rows[0]}))


def _eps_arrays(m, labels, eps):
    """Column j of an epsilon matrix belongs to alternative index_to_key[j]."""
    arrays = [np.zeros((len(per_row), len(labels))) for per_row in eps]
    for r, per_row in enumerate(eps):
        for d, per_alt in enumerate(per_row):
            for i, k in enumerate(labels):
                arrays[r][d, m.key_to_index[k]] = per_alt[i]
    return arrays


def _run_op(m, spec, op, objects=None):
    """Runs in the child: one use of the model object `m`, as plain data. `objects` keeps the one-row
    Database objects handed to the model so far, by (name, sample, row)."""
    from biogeme.database import Database

    labels = spec['labels']
    kind, s = op[0], op[1]
    if kind == 'results':
        try:
            m.estimation_results = make_results(beta_values(spec, op[1]))
            return dict(results=op[1])
        except Exception as e:  # noqa
            return dict(exc=_exc(e))
    sample = spec['samples'][s]
    budget, tol_d, tol_b = spec['budget'], spec['tol_dual'], spec['tol_budget']

    def one_row(db, name, r):
        key = (name, s, r)
        if objects is not None and op[-1] and key in objects:
            return objects[key]
        one = db.mdcev_row_split()[r] if name is None else Database(name, db.data.iloc[[r]])
        if objects is not None:
            objects[key] = one
        return one

    try:
        db = _sample_database(sample)
        eps = _eps_arrays(m, labels, sample['eps'])
        if kind == 'forecast':
            res = m.forecast(database=db, total_budget=budget, epsilons=[e.copy() for e in eps],
                             brute_force=op[2], tolerance_dual=tol_d, tolerance_budget=tol_b)
            return dict(frames=[dict(columns=[c if isinstance(c, str) else int(c) for c in df.columns],
                                     rows=[[float(v) for v in line] for line in df.to_numpy()])
                                for df in res])
        if kind == 'validation':
            r, name = op[2], op[3]
            one = one_row(db, name, r)
            return dict(messages=[str(x)[:300] for x in m.validation(one_row=one)])
        if kind == 'one_draw':
            r, d, name, method = op[2:6]
            one = one_row(db, name, r)
            if method == 'bisection':
                res = m.forecast_bisection_one_draw(one_row_of_database=one, total_budget=budget,
                                                    epsilon=eps[r][d].copy(), tolerance_dual=tol_d,
                                                    tolerance_budget=tol_b)
            else:
                res = m.forecast_bruteforce_one_draw(one_row_database=one, total_budget=budget,
                                                     epsilon=eps[r][d].copy())
            return dict(solution=None if res is None else
                        [[int(k), float(v)] for k, v in sorted(res.items())])
        r, name, points = op[2:5]
        one = one_row(db, name, r)
    except Exception as e:  # noqa
        return dict(exc=_exc(e))

    def guarded(fn):
        try:
            return float(fn())
        except Exception as e:  # noqa
            return _exc(e)

    observed = []
    for i, x, e, lam in points:
        k = labels[i]
        p = dict()
        p['u_num'] = guarded(lambda: m.utility_one_alternative(
            the_id=k, the_consumption=x, epsilon=e, one_observation=one))
        p['du_num'] = guarded(lambda: m.derivative_utility_one_alternative(
            the_id=k, the_consumption=x, epsilon=e, one_observation=one))
        p['x_opt'] = guarded(lambda: m.optimal_consumption_one_alternative(
            the_id=k, dual_variable=lam, epsilon=e, one_observation=one))
        if isinstance(p['x_opt'], float) and math.isfinite(p['x_opt']) and \
                (p['x_opt'] > 0.0 or spec['alts'][i]['gamma'] is not None and p['x_opt'] >= 0.0):
            p['du_at_opt'] = guarded(lambda: m.derivative_utility_one_alternative(
                the_id=k, the_consumption=p['x_opt'], epsilon=e, one_observation=one))
        observed.append(p)
    return dict(points=observed)


def _observe_history(spec, reuse):
    """Runs in the child. reuse=True: ONE model object performs all the operations in sequence.
    reuse=False: every use is performed by a model object of its own, which is first given the estimation
    results in force at that point of the history (if any); for every such state one more model object
    reports the marginal utilities at zero (root-cause attribution), each data row under its own name."""
    from biogeme.database import Database

    labels = spec['labels']
    n = len(labels)
    view = sample_view(spec, 0)
    o = dict(labels=list(labels), ops=[])

    def new_model(state=None):
        m_ = build_model(view, labels, list(range(n)))[0]
        if state is not None:
            m_.estimation_results = make_results(beta_values(spec, state))
        return m_

    try:
        m = new_model()
    except Exception as e:  # noqa: constructor refusing a valid model
        o['build_exc'] = _exc(e)
        return o
    states = op_states(spec['ops'])
    if reuse:
        objects = {}
        for op in spec['ops']:
            o['ops'].append(_run_op(m, spec, op, objects))
        return o

    o['index_to_key'] = [int(k) for k in m.index_to_key]
    o['key_to_index'] = {int(k): int(v) for k, v in m.key_to_index.items()}
    o['outside_key'] = None if m.outside_good_key is None else int(m.outside_good_key)
    o['outside_index'] = None if m.outside_good_index is None else int(m.outside_good_index)
    o['maps_ok'] = (sorted(o['index_to_key']) == sorted(labels)
                    and all(0 <= o['key_to_index'].get(k, -1) < n and
                            o['index_to_key'][o['key_to_index'][k]] == k for k in labels))
    if not o['maps_ok']:
        return o
    o['w0'] = {}
    for state in sorted({st_ for st_, op in zip(states, spec['ops']) if op[0] in ('forecast', 'one_draw')},
                        key=lambda v: -1 if v is None else v):
        try:
            m = new_model(state)
        except Exception as e:  # noqa
            o['w0'][str(state)] = dict(exc=_exc(e))
            continue
        per_state = []
        for s, sample in enumerate(spec['samples']):
            db = _sample_database(sample)
            eps = _eps_arrays(m, labels, sample['eps'])
            per_sample = []
            for r in range(len(sample['rows'])):
                one = Database(f'c18_state{state}_sample{s}_row{r}', db.data.iloc[[r]])
                for d in range(len(sample['eps'][r])):
                    per = {}
                    for i, k in enumerate(labels):
                        if spec['alts'][i]['gamma'] is None:
                            continue
                        try:
                            per[int(k)] = float(m.derivative_utility_one_alternative(
                                the_id=k, the_consumption=0.0, epsilon=float(eps[r][d, m.key_to_index[k]]),
                                one_observation=one))
                        except Exception as e:  # noqa
                            per[int(k)] = _exc(e)
                    per_sample.append(per)
            per_state.append(per_sample)
        o['w0'][str(state)] = per_state
    for state, op in zip(states, spec['ops']):
        if op[0] == 'results':
            o['ops'].append(dict(results=op[1]))
            continue
        try:
            m = new_model(state)
        except Exception as e:  # noqa
            o['ops'].append(dict(results_exc=_exc(e)))
            continue
        o['ops'].append(_run_op(m, spec, op))
    return o


def _same(a, b):
    """Two runs of the same deterministic computation."""
    if isinstance(a, dict) or isinstance(b, dict):  # a recorded exception
        return isinstance(a, dict) and isinstance(b, dict) and a['type'] == b['type']
    if a is None or b is None:
        return a is None and b is None
    if not (math.isfinite(a) and math.isfinite(b)):
        return a == b or (math.isnan(a) and math.isnan(b))
    return abs(a - b) <= 1e-9 * max(abs(a), abs(b)) + 1e-12


_NUMBER = re.compile(r'[-+]?(?:\d+\.?\d*(?:[eE][-+]?\d+)?|inf|nan)')


def _same_messages(a, b):
    if len(a) != len(b):
        return False
    for x, y in zip(a, b):
        if _NUMBER.sub('#', x) != _NUMBER.sub('#', y):
            return False
        try:
            if not all(_same(float(u), float(v)) for u, v in zip(_NUMBER.findall(x), _NUMBER.findall(y))):
                return False
        except ValueError:
            return False
    return True


def _same_frames(a, b):
    if len(a) != len(b):
        return False
    for fa, fb in zip(a, b):
        if fa['columns'] != fb['columns'] or len(fa['rows']) != len(fb['rows']):
            return False
        for la, lb in zip(fa['rows'], fb['rows']):
            if len(la) != len(lb) or not all(_same(u, v) for u, v in zip(la, lb)):
                return False
    return True


def op_rows(spec, op):
    """[name of the one-row Database, sample, row] for every data row a use hands to the model
    (forecast() and mdcev_row_split() call row i of any sample 'row_i'). Classification only."""
    kind, s = op[0], op[1]
    if kind == 'results':
        return []
    if kind == 'forecast':
        return [[f'row_{r}', s, r] for r in range(len(spec['samples'][s]['rows']))]
    name = op[4] if kind == 'one_draw' else op[3]
    return [[f'row_{op[2]}' if name is None else name, s, op[2]]]


def _utilities_differ(spec, a, state_a, b, state_b):
    """Do the deterministic parts (V, mu) of the utilities of two (row, parameter values) differ?"""
    ra, rb = spec['samples'][a[1]]['rows'][a[2]], spec['samples'][b[1]]['rows'][b[2]]
    alts_a, alts_b = params_view(spec, state_a)['alts'], params_view(spec, state_b)['alts']
    return any(abs(_lin(x[t], ra) - _lin(y[t], rb)) > 1e-3
               for x, y in zip(alts_a, alts_b) for t in ('V', 'mu') if t in x)


def history_classes(spec):
    """(classes, non-trivial) of a history, from the spec alone."""
    ops, states = spec['ops'], op_states(spec['ops'])
    classes = []
    # a later use hands the model a one-row Database with the name of an earlier one
    shared, stale = False, False
    for k in range(1, len(ops)):
        for j in range(k):
            for a in op_rows(spec, ops[j]):
                for b in op_rows(spec, ops[k]):
                    if a[0] == b[0]:
                        shared = True
                        if _utilities_differ(spec, a, states[j], b, states[k]):
                            stale = True
                            classes.append(f'history:{ops[j][0]}>{ops[k][0]}:same_name_other_utilities')
    classes.append('history:row_names=' + ('shared_other_utilities' if stale else
                                           'shared_same_utilities' if shared else 'distinct'))
    # a use after new estimation results is handed a one-row Database OBJECT used under other values
    objects, same_object = {}, False
    for j, op in enumerate(ops):
        if op[0] in ('results', 'forecast'):
            continue
        key = (op[4] if op[0] == 'one_draw' else op[3], op[1], op[2])
        if op[-1] and key in objects:
            here = [None, op[1], op[2]]
            if any(st_ != states[j] and _utilities_differ(spec, here, st_, here, states[j])
                   for st_ in objects[key]):
                same_object = True
                classes.append(f'history:after_new_results:{op[0]}:same_database_object')
            objects[key].append(states[j])
        else:
            objects[key] = [states[j]]
            if states[j] is not None:
                classes.append(f'history:after_new_results:{op[0]}:new_database_object')
    n_results = sum(1 for op in ops if op[0] == 'results')
    classes.append(f'history:results_given={min(n_results, 2)}{"+" if n_results >= 2 else ""}')
    return classes, stale or same_object


def judge_history(spec) -> Outcome:
    out = Outcome()
    variant, labels, ops = spec['variant'], spec['labels'], spec['ops']
    states = op_states(ops)
    outside_pos = next((i for i, a in enumerate(spec['alts']) if a['gamma'] is None), None)
    out.classes += [f'history:variant={variant}', f'history:uses={sum(1 for op in ops if op[0] != "results")}',
                    f'history:outside_good={"yes" if outside_pos is not None else "no"}',
                    f'history:kind={spec["kind"]}']
    out.evaluations = sum(1 for op in ops if op[0] != 'results')
    classes, out.nontrivial = history_classes(spec)
    out.classes += classes
    where0 = _render_model(spec, labels) + ' (V, mu shown for row 0 of the first sample)'

    res_f = isolate.call(_observe_history, spec, False)
    res_r = isolate.call(_observe_history, spec, True)
    for res, who in ((res_f, 'fresh'), (res_r, 'reused')):
        if not res['ok']:
            out.fail(f'history:{variant}:child:{who}:{res["exc_type"]}',
                     f'{_render_history(spec)}: {res["exc_type"]}: {res["exc_msg"]}')
    if out.failures:
        return out
    base, reused = res_f['value'], res_r['value']
    for o_ in (base, reused):
        if 'build_exc' in o_:
            out.fail(f'construct:{variant}:raises:{o_["build_exc"]["type"]}',
                     f'{where0}: constructor raised {o_["build_exc"]}')
            return out
    if not base['maps_ok']:
        out.fail(f'maps:{variant}', f'{where0}: index_to_key={base["index_to_key"]} key_to_index='
                 f'{base["key_to_index"]} are not inverse bijections between labels and 0..n-1')
        return out
    common = {k: base[k] for k in ('labels', 'maps_ok', 'index_to_key', 'key_to_index', 'outside_key',
                                   'outside_index')}

    for j, op in enumerate(ops):
        kind, state = op[0], states[j]
        f, r = base['ops'][j], reused['ops'][j]
        tag_r = f'one model object, {" then ".join(_render_op(spec, o_) for o_ in ops[:j + 1])}'
        if kind == 'results':
            if 'exc' in r:
                out.fail(f'reuse:{variant}:results:raises:{r["exc"]["type"]}',
                         f'{where0}: [{tag_r}] raised {r["exc"]}')
            continue
        s = op[1]
        sample = spec['samples'][s]
        n_draws = len(sample['eps'][0])
        # the oracle is about the parameter values in force
        pv = params_view(spec, state)
        where = where0 if state is None else \
            _render_model(pv, labels) + f' (values of the estimation results #{state}; V, mu shown for row 0 of the first sample)'
        given = '' if state is None else f'given the estimation results #{state}, '
        tag_f = f'a new model object, {given}{_render_op(spec, op)}'
        # failure keys: the reused object / the new object (which is the business of the other sub-checks
        # unless it has been given estimation results)
        if state is None:
            key_r = lambda aspect, _k=kind: f'reuse:{variant}:{_k}:{aspect}'  # noqa: E731
            key_f = None
        else:
            key_r = lambda aspect, _k=kind: f'reuse:{variant}:{_k}:after_new_results:{aspect}'  # noqa: E731
            key_f = lambda aspect, _k=kind: f'new_results:{variant}:{_k}:{aspect}'  # noqa: E731
        brute = (kind == 'forecast' and op[2]) or (kind == 'one_draw' and op[5] == 'bruteforce')
        before = len(out.failures)
        if 'results_exc' in f:
            out.fail(f'new_results:{variant}:raises:{f["results_exc"]["type"]}',
                     f'{where}: a new model object given the estimation results #{state} '
                     f'{beta_values(spec, state)} raised {f["results_exc"]}')
            continue

        if kind in ('forecast', 'one_draw') and not brute:
            # the same oracle as sub-check 1, first on the new model object, then on the reused one
            w0 = base['w0'][str(state)]
            if isinstance(w0, dict):
                continue  # the new model object refused the results: reported above for its own use
            if kind == 'forecast':
                view, w0 = sample_view(pv, s), w0[s]
            else:
                view, w0 = sample_view(pv, s, op[2], op[3]), [w0[s][op[2] * n_draws + op[3]]]
            observed = []
            for o_ in (f, r):
                obs = dict(common, w0=w0)
                if 'exc' in o_:
                    obs['forecast_exc'] = o_['exc']
                elif kind == 'forecast':
                    obs['forecast'] = dict(frames=o_['frames'])
                else:
                    sol = o_['solution']
                    obs['forecast'] = dict(frames=[dict(columns=[k for k, _ in sol], rows=[[v for _, v in sol]])])
                observed.append(obs)
            judge_labelling(out, view, observed[0], tag_f, key=key_f)
            if len(out.failures) > before:
                continue  # not a matter of the history
            judge_labelling(out, view, observed[1], tag_r, key=key_r)
            if 'forecast' in observed[1] and \
                    not _same_frames(observed[0]['forecast']['frames'], observed[1]['forecast']['frames']):
                out.fail(key_r('differs_from_new_model_object'),
                         f'{where}: [{tag_r}] gives {observed[1]["forecast"]["frames"]}, '
                         f'[{tag_f}] gives {observed[0]["forecast"]["frames"]}')
            continue

        if brute:
            # the reference optimiser is not judged on its own (sub-check 1 uses it as a lower bound only)
            if 'exc' in f:
                out.classes.append(f'history:brute_force:raised:{f["exc"]["type"]}')
                if 'exc' not in r or r['exc']['type'] != f['exc']['type']:
                    out.fail(key_r('brute_force:differs_from_new_model_object'),
                             f'{where}: [{tag_r}] gives {r}, [{tag_f}] gives {f}')
                continue
            if 'exc' in r:
                out.fail(key_r(f'brute_force:raises:{r["exc"]["type"]}'), f'{where}: [{tag_r}] raised {r["exc"]} '
                         f'but not [{tag_f}]')
                continue
            if kind == 'forecast':
                same = _same_frames(f['frames'], r['frames'])
            else:
                same = (f['solution'] is None) == (r['solution'] is None) and \
                    (f['solution'] is None or
                     len(f['solution']) == len(r['solution']) and
                     all(a[0] == b[0] and _same(a[1], b[1]) for a, b in zip(f['solution'], r['solution'])))
            if not same:
                out.fail(key_r('brute_force:differs_from_new_model_object'),
                         f'{where}: [{tag_r}] gives {r}, [{tag_f}] gives {f}')
            continue

        row = sample['rows'][op[2]]
        pieces_key = (lambda aspect: f'pieces:{variant}:{aspect}') if key_f is None else key_f  # noqa: E731
        if kind == 'validation':
            if 'exc' in f:
                out.fail(pieces_key(f'validation:raises:{f["exc"]["type"]}'),
                         f'{where}: [{tag_f}] raised {f["exc"]}')
                continue
            if 'exc' in r:
                out.fail(key_r(f'raises:{r["exc"]["type"]}'), f'{where}: [{tag_r}] raised {r["exc"]}')
                continue
            relevant = relevant_validation(pv, row, labels, f['messages'])
            if relevant:
                out.fail(pieces_key('validation:reports'), f'{where}: [{tag_f}] reports {relevant[:2]}')
                continue
            relevant = relevant_validation(pv, row, labels, r['messages'])
            if relevant:
                out.fail(key_r('reports'), f'{where}: [{tag_r}] reports {relevant[:2]}, [{tag_f}] does not')
            if not _same_messages(f['messages'], r['messages']):
                out.fail(key_r('differs_from_new_model_object'),
                         f'{where}: [{tag_r}] reports {r["messages"][:3]}, [{tag_f}] reports {f["messages"][:3]}')
            continue

        # pieces
        if 'exc' in f:
            out.fail(pieces_key(f'one_row_database:raises:{f["exc"]["type"]}'),
                     f'{where}: [{tag_f}] raised {f["exc"]}')
            continue
        if 'exc' in r:
            out.fail(key_r(f'raises:{r["exc"]["type"]}'), f'{where}: [{tag_r}] raised {r["exc"]}')
            continue
        seen = set()

        def fail_f(aspect, msg, _key=pieces_key, _plain=key_f is None):
            if aspect not in seen:
                seen.add(aspect)
                out.fail(aspect if _plain and aspect.startswith('derivative_at_zero') else _key(aspect), msg)

        def fail_r(aspect, msg, _key=key_r):
            if aspect not in seen:
                seen.add(aspect)
                out.fail(_key(aspect), msg)

        judge_points(fail_f, None, pv, row, labels, op[4], f['points'], base['outside_index'],
                     f'{where} [{tag_f}]')
        if len(out.failures) > before:
            continue
        judge_points(fail_r, None, pv, row, labels, op[4], r['points'], base['outside_index'],
                     f'{where} [{tag_r}]')
        for point, pf, pr in zip(op[4], f['points'], r['points']):
            bad = [name for name in ('u_num', 'du_num', 'x_opt', 'du_at_opt')
                   if (name in pf) != (name in pr) or name in pf and not _same(pf[name], pr[name])]
            if bad:
                out.fail(key_r('differs_from_new_model_object'),
                         f'{where}: at [alternative position, expenditure, epsilon, multiplier] = {point} '
                         f'[{tag_r}] gives {({k: pr.get(k) for k in bad})}, [{tag_f}] gives '
                         f'{({k: pf.get(k) for k in bad})}')
                break
    return out


# ---------------------------------------------------------------------------------------------
# strategies


def _r(lo, hi, digits=4):
    return st.floats(lo, hi, allow_nan=False, allow_infinity=False).map(lambda v: round(v, digits))


def _logr(lo, hi, digits=4):
    return st.floats(math.log(lo), math.log(hi)).map(lambda v: float(f'{math.exp(v):.{digits}g}'))


_GUMBEL = st.floats(1e-4, 0.995).map(lambda u: round(-math.log(-math.log(u)), 4))


@st.composite
def _labels(draw, n):
    scheme = draw(st.sampled_from(['pos0', 'pos1', 'perm1', 'small', 'small', 'small', 'wide', 'wide']))
    if scheme == 'pos0':
        return list(range(n))
    if scheme == 'pos1':
        return list(range(1, n + 1))
    if scheme == 'perm1':
        return list(draw(st.permutations(list(range(1, n + 1)))))
    hi = 9 if scheme == 'small' else 100000
    return draw(st.lists(st.integers(0, hi), min_size=n, max_size=n, unique=True))


@st.composite
def _linear_term(draw, spread):
    nb = draw(st.sampled_from([0, 1, 2, 2]))
    names = ['x1', 'x2'][:nb]
    return dict(c=draw(_r(-spread, spread)), b=[[name, draw(_r(-1.0, 1.0))] for name in names])


@st.composite
def _model(draw, tier):
    variant = draw(st.sampled_from(VARIANTS))
    n = draw(st.sampled_from([2, 3, 3, 4, 4, 5]))
    outside = draw(st.one_of(st.none(), st.integers(0, n - 1)))
    alts = []
    for i in range(n):
        alt = dict(V=draw(_linear_term(1.5)),
                   gamma=None if i == outside else draw(_logr(0.05, 20.0)),
                   alpha=draw(_r(0.05, 0.95)),
                   price=draw(_logr(0.2, 5.0)))
        if variant == 'nonmono':
            alt['mu'] = draw(_linear_term(1.5))
        alts.append(alt)
    return dict(
        variant=variant, alts=alts,
        labels=draw(_labels(n)),
        prices=draw(st.booleans()) if variant in HAS_PRICES else False,
        scale=draw(st.one_of(st.none(), _logr(0.5, 4.0))),
        kind=draw(st.sampled_from(['beta', 'beta', 'fixed', 'numeric'])),
        alpha_given=draw(st.booleans()) if variant == 'gamma' else True,
        row=dict(x1=draw(_r(-2.0, 2.0)), x2=draw(_r(-2.0, 2.0))),
    )


@st.composite
def _forecast_case(draw, tier):
    spec = draw(_model(tier))
    n = len(spec['alts'])
    n_draws = draw(st.sampled_from([1, 1, 2]))
    if draw(st.sampled_from([False, False, True])):
        spec['more_rows'] = [dict(x1=draw(_r(-2.0, 2.0)), x2=draw(_r(-2.0, 2.0)))]
    n_rows = 1 + len(spec.get('more_rows', []))
    spec['eps'] = [[[draw(_GUMBEL) for _ in range(n)] for _ in range(n_draws)] for _ in range(n_rows)]
    spec['budget'] = draw(_logr(0.2, 400.0))
    spec['tol_dual'] = draw(st.sampled_from([1e-10, 1e-10, 1e-13]))
    spec['tol_budget'] = draw(st.sampled_from([1e-10, 1e-10, 1e-8]))
    spec['relabel'] = dict(labels=draw(_labels(n)), order=list(draw(st.permutations(list(range(n))))))
    return spec


@st.composite
def _pieces_case(draw, tier):
    spec = draw(_model(tier))
    n = len(spec['alts'])
    points = []
    for _ in range(draw(st.integers(2, 6))):
        i = draw(st.integers(0, n - 1))
        inside = spec['alts'][i]['gamma'] is not None
        x = draw(st.one_of(st.just(0.0), _logr(1e-3, 1e3), _logr(1e-3, 1e3))) if inside \
            else draw(_logr(1e-3, 1e3))
        eps = draw(_GUMBEL)
        t = draw(_r(0.02, 0.98))
        points.append([i, x, eps, _point_lambda(spec, i, eps, t)])
    spec['points'] = points
    return spec

_ROW_NAMES = ['row_0', 'row_0', 'row_0', 'row_1', 'obs', 'c18_rows']


@st.composite
def _parameter_vector(draw, spec):
    """Other values for the parameters of the model (same structure: outside good, variables, scale)."""
    alts = []
    for alt in spec['alts']:
        new = dict(V=dict(c=draw(_r(-1.5, 1.5)), b=[[name, draw(_r(-1.0, 1.0))] for name, _ in alt['V']['b']]),
                   gamma=None if alt['gamma'] is None else draw(_logr(0.05, 20.0)),
                   alpha=draw(_r(0.05, 0.95)), price=alt['price'])
        if 'mu' in alt:
            new['mu'] = dict(c=draw(_r(-1.5, 1.5)), b=[[name, draw(_r(-1.0, 1.0))] for name, _ in alt['mu']['b']])
        alts.append(new)
    return dict(alts=alts, scale=None if spec['scale'] is None else draw(_logr(0.5, 4.0)))


def _point_in_domain(pv, point, row):
    """Is the multiplier of a generated point one that _pieces_case could have drawn under the parameter
    values of pv (closed-form expenditure positive)?"""
    i, _, eps, lam = point
    alt = RefAlt(pv['variant'], pv['alts'][i], pv['prices'], pv['scale'], row, eps)
    if alt.outside:
        return alt.du(1.0 / 0.02 - 1.0 + 1e-3) <= lam <= alt.du(1.0 / 0.98 - 1.0 + 1e-3)
    w = alt.du(0.0)
    return alt.m + 0.02 * (w - alt.m) <= lam <= alt.m + 0.98 * (w - alt.m)


@st.composite
def _history_case(draw, tier):
    spec = draw(_model(tier))
    n = len(spec['alts'])
    n_draws = draw(st.sampled_from([1, 1, 2]))
    samples = []
    for _ in range(draw(st.sampled_from([2, 2, 3]))):
        n_rows = draw(st.sampled_from([1, 2, 2]))
        samples.append(dict(
            name=draw(st.sampled_from(['base_case', 'scenario', 'c18_rows'])),
            rows=[dict(x1=draw(_r(-2.0, 2.0)), x2=draw(_r(-2.0, 2.0))) for _ in range(n_rows)],
            eps=[[[draw(_GUMBEL) for _ in range(n)] for _ in range(n_draws)] for _ in range(n_rows)]))
    spec['row'] = samples[0]['rows'][0]
    spec['samples'] = samples
    spec['budget'] = draw(_logr(0.2, 400.0))
    spec['tol_dual'] = draw(st.sampled_from([1e-10, 1e-10, 1e-13]))
    spec['tol_budget'] = draw(st.sampled_from([1e-10, 1e-10, 1e-8]))
    # estimation results exist for models whose parameters are free
    spec['results'] = [draw(_parameter_vector(spec)) for _ in range(draw(st.sampled_from([2, 3])))] \
        if spec['kind'] == 'beta' else []
    ops, state = [], None
    made = []  # [name, s, r, points or None]: the one-row Databases handed to the model so far
    for j in range(draw(st.sampled_from([2, 2, 3, 4]))):
        new_results = bool(spec['results']) and draw(st.sampled_from(
            [False, False, False, True] if j == 0 else [False, True, True] if made else [False, True]))
        if new_results:
            state = draw(st.integers(0, len(spec['results']) - 1))
            ops.append(['results', state])
        pv = params_view(spec, state)
        # right after new results: mostly a use of a one-row Database the model has already seen
        few_forecasts = bool(spec['results']) and (j == 0 or new_results and bool(made))
        kind = draw(st.sampled_from(['forecast', 'forecast', 'forecast'][:1 if few_forecasts else 3] +
                                    ['validation', 'validation', 'one_draw', 'one_draw', 'pieces', 'pieces']))
        # the first two uses are about two different samples, unless the second one is about a one-row
        # Database made for the first one
        s = j if j < 2 else draw(st.integers(0, len(samples) - 1))
        if kind == 'forecast':
            ops.append([kind, s, draw(st.sampled_from([False, False, False, True]))])
            continue
        again = draw(st.sampled_from(made)) if made and draw(st.sampled_from(
            [True, True, True, False] if new_results else [True, False])) else None
        if again is not None:
            name, s, r = again[:3]
            same_object = draw(st.sampled_from([True, True, True, False]))
        else:
            r = draw(st.sampled_from([0] + list(range(len(samples[s]['rows'])))))
            name = draw(st.one_of(st.none(), st.sampled_from(_ROW_NAMES))) if kind == 'validation' \
                else draw(st.sampled_from(_ROW_NAMES))
            same_object = draw(st.booleans())
        row = samples[s]['rows'][r]
        points = None
        if kind == 'validation':
            ops.append([kind, s, r, name, same_object])
        elif kind == 'one_draw':
            ops.append([kind, s, r, draw(st.integers(0, n_draws - 1)), name,
                        draw(st.sampled_from(['bisection', 'bisection', 'bruteforce'])), same_object])
        else:
            # the points of an earlier use again (if they are in the domain for the values in force), or new ones
            points = [p for p in (again[3] or [] if again is not None else []) if _point_in_domain(pv, p, row)]
            if not points or draw(st.booleans()):
                points = []
                for _ in range(draw(st.integers(1, 3))):
                    i = draw(st.integers(0, n - 1))
                    inside = spec['alts'][i]['gamma'] is not None
                    x = draw(st.one_of(st.just(0.0), _logr(1e-3, 1e3), _logr(1e-3, 1e3))) if inside \
                        else draw(_logr(1e-3, 1e3))
                    eps = draw(_GUMBEL)
                    points.append([i, x, eps, _point_lambda(pv, i, eps, draw(_r(0.02, 0.98)), row)])
            ops.append([kind, s, r, name, points, same_object])
        made.append([name, s, r, points])
    spec['ops'] = ops
    return spec


def strat_forecast(tier):
    return _forecast_case(tier)


def strat_pieces(tier):
    return _pieces_case(tier)


def strat_history(tier):
    return _history_case(tier)


# ---------------------------------------------------------------------------------------------
# rendering


def _render_model(spec, labels):
    names = dict(gamma='GammaProfile', translated='Translated', generalized='Generalized',
                 nonmono='NonMonotonic')
    parts = []
    for k, a in zip(labels, spec['alts']):
        s = f'{k}: V[row 0]={_lin(a["V"], spec["row"]):.4g} gamma={a["gamma"]}'
        if spec['variant'] != 'gamma':
            s += f' alpha={a["alpha"]}'
        if spec['prices'] and spec['variant'] in HAS_PRICES:
            s += f' price={a["price"]}'
        if spec['variant'] == 'nonmono':
            s += f' mu={_lin(a["mu"], spec["row"]):.4g}'
        parts.append(s)
    return f'{names[spec["variant"]]}({{{"; ".join(parts)}}}, scale={spec["scale"]}, {spec["kind"]} parameters)'


def _render_forecast(spec):
    return (f'{_render_model(spec, spec["labels"])}.forecast(rows={all_rows(spec)}, budget={spec["budget"]}, '
            f'epsilons[row][draw][alternative]={spec["eps"]}, tolerance_dual={spec["tol_dual"]}, '
            f'tolerance_budget={spec["tol_budget"]})')


def _render_pieces(spec):
    return f'{_render_model(spec, spec["labels"])} at {[[spec["labels"][p[0]]] + p[1:] for p in spec["points"]]}'


def _render_op(spec, op):
    kind, s = op[0], op[1]
    if kind == 'results':
        return f'estimation_results = bioResults with the values #{op[1]} {beta_values(spec, op[1])}'
    sample = spec['samples'][s]
    if kind == 'forecast':
        return (f'forecast(Database({sample["name"]!r}, rows={sample["rows"]}), epsilons[row][draw][alternative]='
                f'{sample["eps"]}, brute_force={op[2]})')
    name = op[4] if kind == 'one_draw' else op[3]
    one = (f'Database({sample["name"]!r}, rows={sample["rows"]}).mdcev_row_split()[{op[2]}]' if name is None else
           f'Database({name!r}, {sample["rows"][op[2]]})') + \
        (' [the object made before for this name and row, if any]' if op[-1] else ' [new object]')
    if kind == 'validation':
        return f'validation({one})'
    if kind == 'one_draw':
        return f'forecast_{op[5]}_one_draw({one}, epsilon[alternative]={sample["eps"][op[2]][op[3]]})'
    return (f'utility/derivative/optimal_consumption_one_alternative(one_observation={one}) at '
            f'[alternative, expenditure, epsilon, multiplier] {[[spec["labels"][p[0]]] + p[1:] for p in op[4]]}')


def _render_history(spec):
    return (f'{_render_model(spec, spec["labels"])}, budget={spec["budget"]}, tolerance_dual={spec["tol_dual"]}, '
            f'tolerance_budget={spec["tol_budget"]}: ' + ' then '.join(_render_op(spec, op) for op in spec['ops']))


SUBCHECKS = [
    SubCheck('forecast', strat_forecast, judge_forecast, _render_forecast,
             dict(quick=2000, thorough=40000),
             'variant x outside good x prices x scale x 2-5 labelled goods x budget x 1-2 data rows x 1-2 error draws, judged by '
             'non-negativity, budget, Kuhn-Tucker conditions, outside good, brute-force objective, and again after '
             'relabelling/reordering; non-trivial if >= 3 goods, one of them not consumed, labels differ from '
             '0..n-1 and from any order of 1..n'),
    SubCheck('pieces', strat_pieces, judge_pieces, _render_pieces,
             dict(quick=1200, thorough=24000),
             'numeric utility = symbolic utility (engine) = report formula, numeric derivative = gradient of the '
             'symbolic utility = report formula (incl. zero expenditure for inside goods), closed-form '
             'expenditure inverts the derivative; non-trivial if labels are arbitrary and >= 3 points'),
    SubCheck('history', strat_history, judge_history, _render_history,
             dict(quick=600, thorough=12000),
             '2-4 uses of ONE model object (forecast by bisection or brute force, validation, one-draw forecasts and '
             'numeric pieces on one-row Databases whose names repeat, new objects or the objects of earlier uses) on '
             '2-3 samples of 1-2 rows, possibly with new estimation results (other values of the free parameters) '
             'given to the model between two uses: every use is judged by the oracles of the other sub-checks '
             '(Kuhn-Tucker conditions, report formulas, validation reports) for the rows it was given and the '
             'parameter values in force, and equals the same use by a new model object given the same results; '
             'non-trivial if a later use hands the model a one-row Database carrying the name of an earlier one '
             '(forecast and mdcev_row_split call row i of every sample row_i) with other baseline utilities, or, '
             'after new estimation results, a one-row Database object already used under other values'),
]
RULE = ' | '.join(f'{s.name}: {s.rule}' for s in SUBCHECKS)
