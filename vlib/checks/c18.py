"""C18 MDCEV forecasts solve the consumer problem and model pieces agree.

Reference: the utility functions, their derivatives and the consumer problem
    max sum_k U_k(e_k)   s.t.  sum_k e_k = E,  e_k >= 0
as written in the technical report (reports/mdcev/mdcev.tex, sections "Forecasting" and "Model
specifications"), re-implemented here in plain Python floats.  All four utilities are strictly
concave on the generated domain (gamma > 0, 0 < alpha < 1), so the Kuhn-Tucker conditions
    U_k'(e_k) = lambda  (e_k > 0),   U_k'(0) <= lambda  (e_k = 0),   sum e_k = E
characterise the unique optimum; the oracle checks them on the forecast itself.
"""
from __future__ import annotations

import math

import numpy as np
import pandas as pd
from hypothesis import strategies as st

# imported eagerly so that forked children do not pay for the imports
import biogeme.database  # noqa: F401
import biogeme.expressions  # noqa: F401
import biogeme.mdcev  # noqa: F401

from .. import isolate
from ..runner import Outcome, SubCheck

PROPERTY = 'C18'
LEVEL = 'exploration'
ASSUMPTIONS = [
    'utility functions, derivatives and the equality-constrained consumer problem are those of the '
    'technical report reports/mdcev/mdcev.tex (error term divided by the scale parameter as in the '
    'symbolic utility); all four are strictly concave for gamma > 0, 0 < alpha < 1, so the '
    'Kuhn-Tucker conditions checked on the forecast are sufficient for optimality',
    'column j of an epsilon matrix belongs to alternative model.index_to_key[j] (the only convention '
    'the public attributes define; the documentation does not fix a column order)',
    'the engine value and gradient of the symbolic utility (get_value_and_derivatives) are trusted '
    '(expression evaluation is the subject of C01) and cross-checked against the report formulas',
    'the documented stopping rule bounds the forecast error: |sum e - E| <= tolerance_budget or the '
    'dual variable is within tolerance_dual (plus float resolution) of its optimal value',
    'parameters are Beta (free or fixed) or Numeric expressions, prices Numeric (the forecasting code '
    'reads them with get_value()); labels are distinct non-negative integers; one or two data rows',
]
BUDGETS = dict(quick=dict(shards=8), thorough=dict(shards=16))

VARIANTS = ['gamma', 'translated', 'generalized', 'nonmono']
HAS_PRICES = {'gamma', 'generalized'}
EPS_MACH = 2.220446049250313e-16
REL = 1e-9  # agreement of two evaluations of the same closed form


# ---------------------------------------------------------------------------------------------
# independent reference: the four utilities of the technical report


def _lin(term, row):
    return term['c'] + sum(b * row[name] for name, b in term['b'])


class RefAlt:
    """One alternative of one variant for one error draw, in plain floats."""

    def __init__(self, variant, alt, prices, scale, row, eps):
        self.variant = variant
        self.outside = alt['gamma'] is None
        self.gamma = alt['gamma']
        self.alpha = alt['alpha']
        self.price = alt['price'] if (prices and variant in HAS_PRICES) else 1.0
        self.v = _lin(alt['V'], row)
        self.e = eps / scale if scale is not None else eps
        if variant == 'nonmono':
            self.psi = math.exp(self.v)
            self.m = _lin(alt['mu'], row) + self.e
        else:
            self.psi = math.exp(self.v + self.e)
            self.m = 0.0

    # value, first and second derivative with respect to the expenditure x
    def u(self, x):
        g, a, p, psi = self.gamma, self.alpha, self.price, self.psi
        if self.variant == 'gamma':
            return psi * math.log(x / p) if self.outside else psi * g * math.log1p(x / (p * g))
        if self.variant == 'translated':
            return psi * x ** a if self.outside else psi * (x + g) ** a
        if self.variant == 'generalized':
            if self.outside:
                return psi * (x / p) ** a / a
            return psi * g * ((x / (p * g) + 1.0) ** a - 1.0) / a
        if self.outside:
            return psi * x ** a / a + self.m * x
        return g * psi * ((x / g + 1.0) ** a - 1.0) / a + self.m * x

    def du(self, x):
        g, a, p, psi = self.gamma, self.alpha, self.price, self.psi
        if self.outside and x == 0.0:
            return math.inf
        if self.variant == 'gamma':
            return psi / x if self.outside else psi * g / (x + p * g)
        if self.variant == 'translated':
            return psi * a * x ** (a - 1.0) if self.outside else psi * a * (x + g) ** (a - 1.0)
        if self.variant == 'generalized':
            if self.outside:
                return psi / p * (x / p) ** (a - 1.0)
            return psi / p * (x / (p * g) + 1.0) ** (a - 1.0)
        if self.outside:
            return psi * x ** (a - 1.0) + self.m
        return psi * (x / g + 1.0) ** (a - 1.0) + self.m

    def d2u(self, x):
        g, a, p, psi = self.gamma, self.alpha, self.price, self.psi
        if self.variant == 'gamma':
            return -psi / (x * x) if self.outside else -psi * g / (x + p * g) ** 2
        if self.variant == 'translated':
            base = x if self.outside else x + g
            return psi * a * (a - 1.0) * base ** (a - 2.0)
        if self.variant == 'generalized':
            if self.outside:
                return (a - 1.0) * psi / (p * p) * (x / p) ** (a - 2.0)
            return (a - 1.0) * psi / (p * p * g) * (x / (p * g) + 1.0) ** (a - 2.0)
        if self.outside:
            return (a - 1.0) * psi * x ** (a - 2.0)
        return (a - 1.0) / g * psi * (x / g + 1.0) ** (a - 2.0)

    def magnitude(self, x):
        """Size of the terms whose difference is du(x): scale for comparing marginal utilities."""
        if self.variant == 'nonmono':
            return abs(self.du(x) - self.m) + abs(self.m)
        return abs(self.du(x))

    def offset(self):
        """Constant subtracted in the closed-form expenditure (rounding scale of that formula)."""
        if self.outside:
            return 0.0
        return self.price * self.gamma if self.variant != 'translated' else self.gamma


def all_rows(spec):
    return [spec['row']] + list(spec.get('more_rows', []))


def ref_alts(spec, r, d):
    """The alternatives for data row r and error draw d of that row."""
    return [RefAlt(spec['variant'], alt, spec['prices'], spec['scale'], all_rows(spec)[r],
                   spec['eps'][r][d][i])
            for i, alt in enumerate(spec['alts'])]


# ---------------------------------------------------------------------------------------------
# building the real objects


def _param(kind, name, value, lower=None, upper=None):
    from biogeme.expressions import Beta, Numeric

    if kind == 'numeric':
        return Numeric(value)
    return Beta(name, value, lower, upper, 1 if kind == 'fixed' else 0)


def _linear(kind, prefix, term):
    from biogeme.expressions import Variable

    e = _param(kind, f'{prefix}_c', term['c'])
    for name, b in term['b']:
        e = e + _param(kind, f'{prefix}_{name}', b) * Variable(name)
    return e


def build_model(spec, labels, order):
    """The model of `spec` with alternative i (position in spec['alts']) carrying labels[i],
    dictionaries filled in the order `order` (a permutation of positions)."""
    from biogeme.database import Database
    from biogeme.expressions import Numeric
    from biogeme.mdcev import GammaProfile, Generalized, NonMonotonic, Translated

    kind, variant = spec['kind'], spec['variant']
    bu, ga, al, pr, mu = {}, {}, {}, {}, {}
    for i in order:
        alt, k = spec['alts'][i], labels[i]
        bu[k] = _linear(kind, f'v{i}', alt['V'])
        ga[k] = None if alt['gamma'] is None else _param(kind, f'gamma{i}', alt['gamma'], 0.001, None)
        al[k] = _param(kind, f'alpha{i}', alt['alpha'], 0.0, 1.0)
        pr[k] = Numeric(alt['price'])
        if variant == 'nonmono':
            mu[k] = _linear(kind, f'm{i}', alt['mu'])
    scale = None if spec['scale'] is None else _param(kind, 'scale', spec['scale'], 0.0001, None)
    prices = pr if (spec['prices'] and variant in HAS_PRICES) else None
    if variant == 'gamma':
        m = GammaProfile('c18', bu, ga, alpha_parameters=al if spec.get('alpha_given', True) else None,
                         scale_parameter=scale, prices=prices)
    elif variant == 'translated':
        m = Translated('c18', bu, ga, alpha_parameters=al, scale_parameter=scale)
    elif variant == 'generalized':
        m = Generalized('c18', bu, ga, alpha_parameters=al, scale_parameter=scale, prices=prices)
    else:
        m = NonMonotonic('c18', bu, ga, mu_utilities=mu, alpha_parameters=al, scale_parameter=scale)
    rows = all_rows(spec)
    table = pd.DataFrame({name: [float(r[name]) for r in rows] for name in rows[0]})
    return m, Database('c18_rows', table)


def _exc(e):
    return dict(type=type(e).__name__, msg=str(e)[:300])


# ---------------------------------------------------------------------------------------------
# sub-check 1: forecasts


def _observe_model(spec, labels, order, brute):
    """Runs in the child. Everything the library says about one labelling of the model."""
    o = dict(labels=list(labels))
    try:
        m, db = build_model(spec, labels, order)
    except Exception as e:  # noqa: constructor refusing a valid model
        o['build_exc'] = _exc(e)
        return o
    n = len(labels)
    o['index_to_key'] = [int(k) for k in m.index_to_key]
    o['key_to_index'] = {int(k): int(v) for k, v in m.key_to_index.items()}
    o['outside_key'] = None if m.outside_good_key is None else int(m.outside_good_key)
    o['outside_index'] = None if m.outside_good_index is None else int(m.outside_good_index)
    maps_ok = (sorted(o['index_to_key']) == sorted(labels)
               and all(0 <= o['key_to_index'].get(k, -1) < n and
                       o['index_to_key'][o['key_to_index'][k]] == k for k in labels))
    o['maps_ok'] = maps_ok
    if not maps_ok:
        return o
    from biogeme.database import Database

    n_rows, n_draws = len(spec['eps']), len(spec['eps'][0])
    one_row = [Database(f'c18_row{r}', db.data.iloc[[r]]) for r in range(n_rows)]
    # column j of an epsilon matrix belongs to alternative index_to_key[j]
    eps = [np.zeros((n_draws, n)) for _ in range(n_rows)]
    for r in range(n_rows):
        for d, per_alt in enumerate(spec['eps'][r]):
            for i, k in enumerate(labels):
                eps[r][d, m.key_to_index[k]] = per_alt[i]
    scenarios = [(r, d) for r in range(n_rows) for d in range(n_draws)]

    # marginal utility at zero expenditure, the quantity the goods are ordered by
    w0 = []
    for r, d in scenarios:
        per = {}
        for i, k in enumerate(labels):
            if spec['alts'][i]['gamma'] is None:
                continue
            try:
                per[int(k)] = float(m.derivative_utility_one_alternative(
                    the_id=k, the_consumption=0.0, epsilon=float(eps[r][d, m.key_to_index[k]]),
                    one_observation=one_row[r]))
            except Exception as e:  # noqa
                per[int(k)] = _exc(e)
        w0.append(per)
    o['w0'] = w0

    budget, tol_d, tol_b = spec['budget'], spec['tol_dual'], spec['tol_budget']

    def frames(brute_force):
        res = m.forecast(database=db, total_budget=budget, epsilons=[e.copy() for e in eps],
                         brute_force=brute_force, tolerance_dual=tol_d, tolerance_budget=tol_b)
        return dict(frames=[dict(columns=[c if isinstance(c, str) else int(c) for c in df.columns],
                                 rows=[[float(v) for v in row] for row in df.to_numpy()])
                            for df in res])

    try:
        o['forecast'] = frames(False)
    except Exception as e:  # noqa
        o['forecast_exc'] = _exc(e)

    # trace of the bisection (attribution of budget failures only): total expenditure at the last
    # multiplier tried inside the loop and at the multiplier finally returned
    traces = []
    for r, d in scenarios:
        calls = []
        original = m.optimal_consumption

        def recorder(chosen_alternatives, dual_variable, epsilon, one_observation, _o=original, _c=calls):
            r = _o(chosen_alternatives=chosen_alternatives, dual_variable=dual_variable,
                   epsilon=epsilon, one_observation=one_observation)
            _c.append((float(dual_variable), float(sum(r.values()))))
            return r

        m.optimal_consumption = recorder
        try:
            m.forecast_bisection_one_draw(one_row_of_database=one_row[r], total_budget=budget,
                                          epsilon=eps[r][d].copy(), tolerance_dual=tol_d,
                                          tolerance_budget=tol_b)
            traces.append(dict(last_loop=calls[-2] if len(calls) >= 2 else None,
                               final=calls[-1] if calls else None, n_calls=len(calls)))
        except Exception as e:  # noqa
            traces.append(dict(exc=_exc(e)))
        finally:
            del m.optimal_consumption
    o['traces'] = traces

    if brute:
        try:
            o['brute'] = frames(True)
        except Exception as e:  # noqa
            o['brute_exc'] = _exc(e)
    return o


def _observe_forecast(spec):
    n = len(spec['alts'])
    a = _observe_model(spec, spec['labels'], list(range(n)), brute=True)
    b = _observe_model(spec, spec['relabel']['labels'], spec['relabel']['order'], brute=False)
    return dict(A=a, B=b)


def _label_scheme(labels):
    n = len(labels)
    if list(labels) == list(range(n)):
        return 'positions0'
    if list(labels) == list(range(1, n + 1)):
        return 'positions1'
    if sorted(labels) == list(range(1, n + 1)):
        return 'permuted_1..n'
    return 'arbitrary'


def _rows_as_dicts(result, labels, n_rows, n_draws):
    """The list of data frames (one per observation, one line per draw) as one {label: value}
    per (observation, draw), or a reason."""
    frames = result['frames']
    if len(frames) != n_rows:
        return None, f'{len(frames)} data frames for {n_rows} observations'
    out = []
    for frame in frames:
        if sorted(frame['columns'], key=str) != sorted(labels, key=str):
            return None, f'columns {frame["columns"]} instead of the labels {sorted(labels)}'
        if len(frame['rows']) != n_draws:
            return None, f'{len(frame["rows"])} lines for {n_draws} draws'
        out += [dict(zip(frame['columns'], line)) for line in frame['rows']]
    return out, None


def judge_labelling(out, spec, obs, tag):
    """KKT oracle on the forecasts of one labelling. Returns per-draw diagnostics or None."""
    variant = spec['variant']
    labels = obs['labels']
    n = len(labels)
    key = lambda aspect: f'forecast:{variant}:{aspect}'  # noqa: E731
    where = f'[{tag}] {_render_model(spec, labels)}'
    if 'build_exc' in obs:
        out.fail(f'construct:{variant}:raises:{obs["build_exc"]["type"]}',
                 f'{where}: constructor raised {obs["build_exc"]}')
        return None
    if not obs['maps_ok']:
        out.fail(f'maps:{variant}', f'{where}: index_to_key={obs["index_to_key"]} key_to_index='
                 f'{obs["key_to_index"]} are not inverse bijections between labels and 0..n-1')
        return None
    outside_pos = next((i for i, a in enumerate(spec['alts']) if a['gamma'] is None), None)
    outside_label = None if outside_pos is None else labels[outside_pos]
    if obs['outside_key'] != outside_label or \
            (outside_label is not None and obs['index_to_key'][obs['outside_index']] != outside_label):
        out.fail(f'maps:{variant}:outside_good', f'{where}: outside_good_key={obs["outside_key"]} '
                 f'outside_good_index={obs["outside_index"]} but the outside good is {outside_label}')
        return None

    # --- root cause candidates: marginal utility at zero of the inside goods
    root_cause = False
    n_rows, n_draws = len(spec['eps']), len(spec['eps'][0])
    refs = [ref_alts(spec, r, d) for r in range(n_rows) for d in range(n_draws)]
    for d in range(len(refs)):
        for i, k in enumerate(labels):
            if i == outside_pos:
                continue
            got, want = obs['w0'][d][k], refs[d][i].du(0.0)
            bad = isinstance(got, dict) or not math.isfinite(got) or \
                abs(got - want) > 1e-9 * refs[d][i].magnitude(0.0)
            if bad:
                root_cause = True
                collides = outside_label is not None and k == obs['outside_index']
                aspect = 'label_equals_outside_index' if collides else 'value'
                out.fail(f'derivative_at_zero:{variant}:{aspect}',
                         f'{where}: derivative_utility_one_alternative(the_id={k}, the_consumption=0) '
                         f'= {got}, dU/de(0) = {want!r} (outside good: label {outside_label}, '
                         f'position {obs["outside_index"]})')
                break
        if root_cause:
            break

    if 'forecast_exc' in obs:
        if not root_cause:
            out.fail(key(f'raises:{obs["forecast_exc"]["type"]}'),
                     f'{where}: forecast(budget={spec["budget"]}) raised {obs["forecast_exc"]}')
        return None
    rows, why = _rows_as_dicts(obs['forecast'], labels, n_rows, n_draws)
    if rows is None:
        if not root_cause:
            out.fail(key('shape'), f'{where}: {why}')
        return None

    budget, tol_d, tol_b = spec['budget'], spec['tol_dual'], spec['tol_budget']
    diags = []

    def report(fails, d):
        """Record the violated clauses of scenario d, unless they follow from a root cause above."""
        if not root_cause:
            for aspect, msg in fails:
                out.fail(aspect[1:] if aspect.startswith('@') else key(aspect),
                         f'{where} row {d // n_draws} draw {d % n_draws}: {msg}')

    for d, x_by_label in enumerate(rows):
        ref = refs[d]
        x = [x_by_label[k] for k in labels]
        diag = dict(x=x, ok=False, delta=None, curv=None)
        diags.append(diag)
        fails = []
        if not all(math.isfinite(v) for v in x):
            fails.append(('nonfinite', f'forecast {x_by_label} is not finite'))
        elif min(x) < -1e-12 * (budget + sum(a.offset() for a in ref)):
            fails.append(('negative', f'negative expenditure in {x_by_label}'))
        if fails:
            report(fails, d)
            continue
        x = [max(v, 0.0) for v in x]
        consumed = [i for i in range(n) if x[i] > 0.0]
        if outside_pos is not None and x[outside_pos] <= 0.0:
            fails.append(('outside_good_not_consumed',
                          f'outside good {outside_label} gets {x_by_label[outside_label]!r} in {x_by_label}'))
        if not consumed:
            fails.append(('budget', f'nothing is consumed: {x_by_label}'))
        if fails:
            report(fails, d)
            continue
        mu_c = [ref[i].du(x[i]) for i in consumed]
        mag = max(ref[i].magnitude(x[i]) for i in consumed)
        lam_lo, lam_hi = min(mu_c), max(mu_c)
        lam = 0.5 * (lam_lo + lam_hi)
        curv = [1.0 / abs(ref[i].d2u(x[i])) if x[i] > 0.0 else 0.0 for i in range(n)]
        xp = sum(curv)
        delta = sum(x) - budget
        rounding = 1e-11 * (budget + sum(ref[i].offset() for i in consumed) + 1.0)
        tol_lambda = tol_d + 8 * EPS_MACH * max(abs(lam), mag)
        allowed = 2.0 * max(tol_b, tol_lambda * xp) + rounding
        diag.update(delta=delta, curv=curv, xp=xp, lam=lam, consumed=consumed, allowed=allowed)
        # equal marginal utilities on the consumed goods
        if lam_hi - lam_lo > 1e-6 * mag:
            fails.append(('kkt_consumed',
                          f'marginal utilities of the consumed goods differ: '
                          f'{ {labels[i]: ref[i].du(x[i]) for i in consumed} } at {x_by_label}'))
        # not larger at zero for the others
        for i in range(n):
            if x[i] == 0.0 and ref[i].du(0.0) > lam_lo + 1e-6 * max(mag, ref[i].magnitude(0.0)):
                fails.append(('kkt_zero',
                              f'good {labels[i]} is not consumed but its marginal utility at zero '
                              f'{ref[i].du(0.0)!r} exceeds that of the consumed goods {lam_lo!r}: {x_by_label}'))
                break
        if abs(delta) > allowed:
            tr = obs['traces'][d]
            discarded = (tr.get('last_loop') is not None and tr.get('final') is not None
                         and abs(tr['last_loop'][1] - budget) <= tol_b < abs(tr['final'][1] - budget))
            aspect = '@forecast:bisection:accepted_iterate_discarded' if discarded else 'budget'
            fails.append((aspect,
                          f'sum of expenditures - budget = {delta!r} (allowed {allowed:.3g} from '
                          f'tolerance_budget={tol_b}, tolerance_dual={tol_d}, |dE/dlambda|={xp:.3g}); '
                          f'forecast {x_by_label}, budget {budget}; bisection trace {tr}'))
        if fails:
            report(fails, d)
            # the recognised bisection defect moves the point along the Kuhn-Tucker curve only: the
            # remaining comparisons (which account for the budget error) still apply
            if any(not a.startswith('@') for a, _ in fails):
                continue
        diag['ok'] = True

        # at least as good as the brute-force optimiser's solution (made feasible by clipping and
        # rescaling, so that it cannot beat the optimum)
        if 'brute' in obs:
            brows, _ = _rows_as_dicts(obs['brute'], labels, n_rows, n_draws)
            if brows is None:
                out.classes.append('brute_force:no_solution')
            else:
                xb = [brows[d][k] for k in labels]
                if all(math.isfinite(v) for v in xb) and sum(max(v, 0.0) for v in xb) > 0:
                    xb = [max(v, 0.0) for v in xb]
                    if outside_pos is not None:
                        xb[outside_pos] = max(xb[outside_pos], 1e-6 * budget)
                    s = sum(xb)
                    xb = [v * budget / s for v in xb]
                    obj = sum(ref[i].u(x[i]) for i in range(n))
                    obj_b = sum(ref[i].u(xb[i]) for i in range(n))
                    size = sum(abs(ref[i].u(x[i])) + abs(ref[i].u(xb[i])) for i in range(n))
                    slack = 1e-9 * size + 2 * max(abs(lam), mag) * abs(delta) + 1e-12
                    out.classes.append('brute_force:compared')
                    if obj < obj_b - slack:
                        report([('worse_than_brute_force',
                                 f'objective {obj!r} of the forecast {x_by_label} is below {obj_b!r} reached '
                                 f'by the brute-force solution {dict(zip(labels, xb))}')], d)
                else:
                    out.classes.append('brute_force:no_solution')
        elif 'brute_exc' in obs:
            out.classes.append(f'brute_force:raised:{obs["brute_exc"]["type"]}')
    return dict(diags=diags, root_cause=root_cause)


def judge_forecast(spec) -> Outcome:
    out = Outcome()
    variant = spec['variant']
    n = len(spec['alts'])
    outside_pos = next((i for i, a in enumerate(spec['alts']) if a['gamma'] is None), None)
    scheme = _label_scheme(spec['labels'])
    out.classes += [f'variant={variant}', f'outside_good={"yes" if outside_pos is not None else "no"}',
                    f'labels={scheme}', f'goods={n}', f'kind={spec["kind"]}',
                    f'scale={"yes" if spec["scale"] is not None else "no"}',
                    f'rows={len(spec["eps"])}', f'draws={len(spec["eps"][0])}']
    if variant in HAS_PRICES:
        out.classes.append(f'prices={"yes" if spec["prices"] else "no"}')
    res = isolate.call(_observe_forecast, spec)
    if not res['ok']:
        out.fail(f'forecast:{variant}:child:{res["exc_type"]}',
                 f'{_render_forecast(spec)}: {res["exc_type"]}: {res["exc_msg"]}')
        return out
    obs = res['value']
    ja = judge_labelling(out, spec, obs['A'], 'model')
    jb = judge_labelling(out, spec, obs['B'], 'relabelled')
    for o_ in (obs['A'], obs['B']):
        if o_.get('maps_ok') and o_['outside_key'] is not None and \
                o_['outside_index'] in o_['labels'] and o_['outside_index'] != o_['outside_key']:
            out.classes.append('label_equals_outside_index')
            break
    some_zero = False
    if ja is not None:
        for dg in ja['diags']:
            if dg['ok']:
                k = sum(1 for v in dg['x'] if v > 0)
                out.classes.append(f'consumed={k}_of_{n}' if n <= 3 else
                                   ('consumed=all' if k == n else 'consumed=some'))
                some_zero = some_zero or k < n
    out.nontrivial = n >= 3 and some_zero and scheme == 'arbitrary'

    # --- relabelling: every alternative keeps its forecast
    n_draws = len(spec['eps'][0])
    if ja is not None and jb is not None and not ja['root_cause'] and not jb['root_cause']:
        for d, (da, db_) in enumerate(zip(ja['diags'], jb['diags'])):
            if not (da['ok'] and db_['ok']):
                continue
            for i in range(n):
                xa, xb = da['x'][i], db_['x'][i]
                share = max(da['curv'][i] / da['xp'] if da['xp'] else 0.0,
                            db_['curv'][i] / db_['xp'] if db_['xp'] else 0.0, 0.0)
                tol = 2.0 * share * (abs(da['delta']) + abs(db_['delta'])) \
                    + 2.0 * share * (da['allowed'] + db_['allowed']) + 1e-9 * (1.0 + abs(xa))
                if abs(xa - xb) > tol:
                    out.fail(f'relabel:{variant}',
                             f'{_render_forecast(spec)} row {d // n_draws} draw {d % n_draws}: '
                             f'alternative at position {i} gets {xa!r} with '
                             f'labels {spec["labels"]} and {xb!r} with labels {spec["relabel"]["labels"]} '
                             f'(dictionary order {spec["relabel"]["order"]}), error terms following the alternatives')
                    break
    return out


# ---------------------------------------------------------------------------------------------
# sub-check 2: the pieces (numeric utility, symbolic utility, derivative, inverse)


def _observe_pieces(spec):
    from biogeme.expressions import Beta, Numeric

    labels = spec['labels']
    n = len(labels)
    o = dict(points=[])
    try:
        m, db = build_model(spec, labels, list(range(n)))
    except Exception as e:  # noqa
        o['build_exc'] = _exc(e)
        return o
    o['outside_key'] = None if m.outside_good_key is None else int(m.outside_good_key)
    o['outside_index'] = None if m.outside_good_index is None else int(m.outside_good_index)

    def guarded(fn):
        try:
            return float(fn())
        except Exception as e:  # noqa
            return _exc(e)

    # pure Python pieces first, the engine afterwards (an engine exception poisons the process)
    for i, x, eps, lam in spec['points']:
        k = labels[i]
        p = dict()
        p['u_num'] = guarded(lambda: m.utility_one_alternative(
            the_id=k, the_consumption=x, epsilon=eps, one_observation=db))
        p['du_num'] = guarded(lambda: m.derivative_utility_one_alternative(
            the_id=k, the_consumption=x, epsilon=eps, one_observation=db))
        p['x_opt'] = guarded(lambda: m.optimal_consumption_one_alternative(
            the_id=k, dual_variable=lam, epsilon=eps, one_observation=db))
        if isinstance(p['x_opt'], float) and math.isfinite(p['x_opt']) and \
                (p['x_opt'] > 0.0 or spec['alts'][i]['gamma'] is not None and p['x_opt'] >= 0.0):
            p['du_at_opt'] = guarded(lambda: m.derivative_utility_one_alternative(
                the_id=k, the_consumption=p['x_opt'], epsilon=eps, one_observation=db))
        o['points'].append(p)
    try:
        o['validation'] = [str(s)[:200] for s in m.validation(one_row=db)]
    except Exception as e:  # noqa
        o['validation_exc'] = _exc(e)
    for (i, x, eps, lam), p in zip(spec['points'], o['points']):
        k = labels[i]
        try:
            expr = m.utility_expression_one_alternative(
                the_id=k, the_consumption=Beta('consumption', x, None, None, 0),
                unscaled_epsilon=Numeric(eps))
            r = expr.get_value_and_derivatives(database=db, prepare_ids=True, gradient=True,
                                               hessian=False, bhhh=False, named_results=True)
            p['u_sym'] = float(r.function)
            p['du_sym'] = float(r.gradient['consumption'])
        except Exception as e:  # noqa
            p['sym_exc'] = _exc(e)
            break
    return o


def _close(a, b, scale=0.0, rel=REL):
    if not (math.isfinite(a) and math.isfinite(b)):
        return a == b
    return abs(a - b) <= rel * max(abs(a), abs(b), scale) + 1e-300


def _point_lambda(spec, i, eps, t):
    """A multiplier at which the closed-form expenditure of alternative i is positive."""
    alt = RefAlt(spec['variant'], spec['alts'][i], spec['prices'], spec['scale'], spec['row'], eps)
    if alt.outside:
        # any multiplier above the asymptote: the marginal utility at expenditure 1/t - 1
        return alt.du(1.0 / t - 1.0 + 1e-3)
    w = alt.du(0.0)
    return alt.m + t * (w - alt.m)


def judge_pieces(spec) -> Outcome:
    out = Outcome()
    variant, labels = spec['variant'], spec['labels']
    n = len(labels)
    outside_pos = next((i for i, a in enumerate(spec['alts']) if a['gamma'] is None), None)
    scheme = _label_scheme(labels)
    out.classes += [f'pieces:variant={variant}', f'pieces:labels={scheme}',
                    f'pieces:outside_good={"yes" if outside_pos is not None else "no"}']
    out.evaluations = len(spec['points'])
    out.nontrivial = scheme == 'arbitrary' and len(spec['points']) >= 3
    key = lambda aspect: f'pieces:{variant}:{aspect}'  # noqa: E731
    where = _render_model(spec, labels)
    res = isolate.call(_observe_pieces, spec)
    if not res['ok']:
        out.fail(key(f'child:{res["exc_type"]}'), f'{where}: {res["exc_type"]}: {res["exc_msg"]}')
        return out
    obs = res['value']
    if 'build_exc' in obs:
        out.fail(f'construct:{variant}:raises:{obs["build_exc"]["type"]}',
                 f'{where}: constructor raised {obs["build_exc"]}')
        return out
    outside_label = None if outside_pos is None else labels[outside_pos]
    seen = set()

    def fail(aspect, msg):
        if aspect not in seen:
            seen.add(aspect)
            out.fail(aspect if aspect.startswith('derivative_at_zero') else key(aspect), msg)

    for (i, x, eps, lam), p in zip(spec['points'], obs['points']):
        k = labels[i]
        alt = RefAlt(variant, spec['alts'][i], spec['prices'], spec['scale'], spec['row'], eps)
        role = 'outside' if alt.outside else 'inside'
        at = f'{where}: alternative {k} ({role}), expenditure {x!r}, epsilon {eps!r}'
        u_ref, du_ref = alt.u(x), alt.du(x)
        u_scale = abs(alt.psi) * max(1.0, alt.offset()) + abs(alt.m * x)
        du_scale = alt.magnitude(x)
        out.classes.append('pieces:at_zero' if x == 0.0 else 'pieces:positive')
        for name in ('u_num', 'du_num', 'x_opt'):
            if isinstance(p[name], dict):
                fail(f'{name}:raises:{p[name]["type"]}', f'{at}: {name} raised {p[name]}')
        if 'sym_exc' in p:
            fail(f'symbolic:raises:{p["sym_exc"]["type"]}',
                 f'{at}: evaluating utility_expression_one_alternative raised {p["sym_exc"]}')
        have_sym = 'u_sym' in p
        # numeric utility == symbolic utility == report; the side that leaves the report is named
        u_num = p['u_num'] if isinstance(p['u_num'], float) else None
        num_off = u_num is not None and not _close(u_num, u_ref, u_scale)
        sym_off = have_sym and not _close(p['u_sym'], u_ref, u_scale)
        if num_off:
            fail(f'utility:{role}:numeric_vs_report',
                 f'{at}: utility_one_alternative = {u_num!r}, technical report = {u_ref!r}'
                 + (f', symbolic utility = {p["u_sym"]!r}' if have_sym else ''))
        if sym_off:
            fail(f'utility:{role}:symbolic_vs_report',
                 f'{at}: symbolic utility = {p["u_sym"]!r}, technical report = {u_ref!r}')
        if u_num is not None and have_sym and not (num_off or sym_off) and \
                not _close(u_num, p['u_sym'], u_scale, 3 * REL):
            fail(f'utility:{role}:numeric_vs_symbolic',
                 f'{at}: utility_one_alternative = {u_num!r}, symbolic utility = {p["u_sym"]!r}')
        # numeric derivative == derivative of the symbolic utility == report
        du_num = p['du_num'] if isinstance(p['du_num'], float) else None
        num_off = du_num is not None and not _close(du_num, du_ref, du_scale)
        sym_off = have_sym and not _close(p['du_sym'], du_ref, du_scale)
        if num_off:
            also = f', d/de symbolic utility = {p["du_sym"]!r}' if have_sym else ''
            if x == 0.0 and not alt.outside:
                collides = outside_label is not None and k == obs['outside_index']
                fail(f'derivative_at_zero:{variant}:'
                     f'{"label_equals_outside_index" if collides else "value"}',
                     f'{at}: derivative_utility_one_alternative = {du_num!r}, technical report = {du_ref!r}'
                     f'{also} (outside good: label {outside_label}, position {obs["outside_index"]})')
            else:
                fail(f'derivative:{role}:numeric_vs_report',
                     f'{at}: derivative_utility_one_alternative = {du_num!r}, technical report = {du_ref!r}{also}')
        if sym_off:
            fail(f'derivative:{role}:symbolic_vs_report',
                 f'{at}: d/de symbolic utility = {p["du_sym"]!r}, technical report = {du_ref!r}')
        if du_num is not None and have_sym and not (num_off or sym_off) and \
                not _close(du_num, p['du_sym'], du_scale, 3 * REL):
            fail(f'derivative:{role}:numeric_vs_symbolic',
                 f'{at}: derivative_utility_one_alternative = {du_num!r}, d/de symbolic utility = {p["du_sym"]!r}')
        # the closed-form expenditure inverts the derivative
        if isinstance(p['x_opt'], float):
            xo = p['x_opt']
            at_l = f'{where}: alternative {k} ({role}), multiplier {lam!r}, epsilon {eps!r}'
            if not math.isfinite(xo) or xo < -1e-9 * (alt.offset() + 1.0) or (alt.outside and xo <= 0.0):
                fail(f'inverse:{role}:sign',
                     f'{at_l}: optimal_consumption_one_alternative = {xo!r} although the multiplier is '
                     f'below the marginal utility at zero {alt.du(0.0)!r}')
            else:
                xo_pos = max(xo, 0.0)
                back = alt.du(xo_pos)
                # conditioning: a relative rounding error in (x + offset) moves du by |d2u| * (x + offset)
                cond = abs(alt.d2u(xo_pos)) * (xo_pos + alt.offset()) if xo_pos + alt.offset() > 0 else 0.0
                tol = 1e-9 * max(abs(lam), alt.magnitude(xo_pos)) + 1e-12 * cond
                if abs(back - lam) > tol:
                    fail(f'inverse:{role}:report_derivative',
                         f'{at_l}: optimal_consumption_one_alternative = {xo!r} but dU/de there is {back!r}')
                elif isinstance(p.get('du_at_opt'), float) and abs(p['du_at_opt'] - lam) > tol:
                    fail(f'inverse:{role}:own_derivative',
                         f'{at_l}: optimal_consumption_one_alternative = {xo!r} but '
                         f'derivative_utility_one_alternative there is {p["du_at_opt"]!r}')
                elif isinstance(p.get('du_at_opt'), dict):
                    fail(f'du_num:raises:{p["du_at_opt"]["type"]}',
                         f'{at_l}: derivative at the optimal expenditure {xo!r} raised {p["du_at_opt"]}')
    # the model's own validation must not contradict agreement established above
    if not out.failures:
        if 'validation_exc' in obs:
            out.fail(key(f'validation:raises:{obs["validation_exc"]["type"]}'),
                     f'{where}: validation(one_row) raised {obs["validation_exc"]}')
        else:
            # validation() inverts the derivative at the fixed multiplier 10 with epsilon 0.01; the
            # closed form is only meant for multipliers not above the marginal utility at zero
            # (report, Property 3), so reports about other alternatives are not held against it
            relevant = []
            for msg in obs.get('validation', []):
                hit = [i for i, k in enumerate(labels) if f'dual variables for alt. {k}:' in msg]
                if hit:
                    alt = RefAlt(variant, spec['alts'][hit[0]], spec['prices'], spec['scale'],
                                 spec['row'], 0.01)
                    if not alt.outside and not 10.0 <= alt.du(0.0) * (1 - 1e-6):
                        continue
                    if alt.outside and variant == 'nonmono' and not 10.0 > alt.m + 1e-6:
                        continue
                relevant.append(msg)
            if relevant:
                out.fail(key('validation:reports'),
                         f'{where}: validation(one_row) reports {relevant[:2]} although the pieces agree')
    return out


# ---------------------------------------------------------------------------------------------
# strategies


def _r(lo, hi, digits=4):
    return st.floats(lo, hi, allow_nan=False, allow_infinity=False).map(lambda v: round(v, digits))


def _logr(lo, hi, digits=4):
    return st.floats(math.log(lo), math.log(hi)).map(lambda v: float(f'{math.exp(v):.{digits}g}'))


_GUMBEL = st.floats(1e-4, 0.995).map(lambda u: round(-math.log(-math.log(u)), 4))


@st.composite
def _labels(draw, n):
    scheme = draw(st.sampled_from(['pos0', 'pos1', 'perm1', 'small', 'small', 'small', 'wide', 'wide']))
    if scheme == 'pos0':
        return list(range(n))
    if scheme == 'pos1':
        return list(range(1, n + 1))
    if scheme == 'perm1':
        return list(draw(st.permutations(list(range(1, n + 1)))))
    hi = 9 if scheme == 'small' else 100000
    return draw(st.lists(st.integers(0, hi), min_size=n, max_size=n, unique=True))


@st.composite
def _linear_term(draw, spread):
    nb = draw(st.sampled_from([0, 1, 2, 2]))
    names = ['x1', 'x2'][:nb]
    return dict(c=draw(_r(-spread, spread)), b=[[name, draw(_r(-1.0, 1.0))] for name in names])


@st.composite
def _model(draw, tier):
    variant = draw(st.sampled_from(VARIANTS))
    n = draw(st.sampled_from([2, 3, 3, 4, 4, 5]))
    outside = draw(st.one_of(st.none(), st.integers(0, n - 1)))
    alts = []
    for i in range(n):
        alt = dict(V=draw(_linear_term(1.5)),
                   gamma=None if i == outside else draw(_logr(0.05, 20.0)),
                   alpha=draw(_r(0.05, 0.95)),
                   price=draw(_logr(0.2, 5.0)))
        if variant == 'nonmono':
            alt['mu'] = draw(_linear_term(1.5))
        alts.append(alt)
    return dict(
        variant=variant, alts=alts,
        labels=draw(_labels(n)),
        prices=draw(st.booleans()) if variant in HAS_PRICES else False,
        scale=draw(st.one_of(st.none(), _logr(0.5, 4.0))),
        kind=draw(st.sampled_from(['beta', 'beta', 'fixed', 'numeric'])),
        alpha_given=draw(st.booleans()) if variant == 'gamma' else True,
        row=dict(x1=draw(_r(-2.0, 2.0)), x2=draw(_r(-2.0, 2.0))),
    )


@st.composite
def _forecast_case(draw, tier):
    spec = draw(_model(tier))
    n = len(spec['alts'])
    n_draws = draw(st.sampled_from([1, 1, 2]))
    if draw(st.sampled_from([False, False, True])):
        spec['more_rows'] = [dict(x1=draw(_r(-2.0, 2.0)), x2=draw(_r(-2.0, 2.0)))]
    n_rows = 1 + len(spec.get('more_rows', []))
    spec['eps'] = [[[draw(_GUMBEL) for _ in range(n)] for _ in range(n_draws)] for _ in range(n_rows)]
    spec['budget'] = draw(_logr(0.2, 400.0))
    spec['tol_dual'] = draw(st.sampled_from([1e-10, 1e-10, 1e-13]))
    spec['tol_budget'] = draw(st.sampled_from([1e-10, 1e-10, 1e-8]))
    spec['relabel'] = dict(labels=draw(_labels(n)), order=list(draw(st.permutations(list(range(n))))))
    return spec


@st.composite
def _pieces_case(draw, tier):
    spec = draw(_model(tier))
    n = len(spec['alts'])
    points = []
    for _ in range(draw(st.integers(2, 6))):
        i = draw(st.integers(0, n - 1))
        inside = spec['alts'][i]['gamma'] is not None
        x = draw(st.one_of(st.just(0.0), _logr(1e-3, 1e3), _logr(1e-3, 1e3))) if inside \
            else draw(_logr(1e-3, 1e3))
        eps = draw(_GUMBEL)
        t = draw(_r(0.02, 0.98))
        points.append([i, x, eps, _point_lambda(spec, i, eps, t)])
    spec['points'] = points
    return spec


def strat_forecast(tier):
    return _forecast_case(tier)


def strat_pieces(tier):
    return _pieces_case(tier)


# ---------------------------------------------------------------------------------------------
# rendering


def _render_model(spec, labels):
    names = dict(gamma='GammaProfile', translated='Translated', generalized='Generalized',
                 nonmono='NonMonotonic')
    parts = []
    for k, a in zip(labels, spec['alts']):
        s = f'{k}: V[row 0]={_lin(a["V"], spec["row"]):.4g} gamma={a["gamma"]}'
        if spec['variant'] != 'gamma':
            s += f' alpha={a["alpha"]}'
        if spec['prices'] and spec['variant'] in HAS_PRICES:
            s += f' price={a["price"]}'
        if spec['variant'] == 'nonmono':
            s += f' mu={_lin(a["mu"], spec["row"]):.4g}'
        parts.append(s)
    return f'{names[spec["variant"]]}({{{"; ".join(parts)}}}, scale={spec["scale"]}, {spec["kind"]} parameters)'


def _render_forecast(spec):
    return (f'{_render_model(spec, spec["labels"])}.forecast(rows={all_rows(spec)}, budget={spec["budget"]}, '
            f'epsilons[row][draw][alternative]={spec["eps"]}, tolerance_dual={spec["tol_dual"]}, '
            f'tolerance_budget={spec["tol_budget"]})')


def _render_pieces(spec):
    return f'{_render_model(spec, spec["labels"])} at {[[spec["labels"][p[0]]] + p[1:] for p in spec["points"]]}'


SUBCHECKS = [
    SubCheck('forecast', strat_forecast, judge_forecast, _render_forecast,
             dict(quick=2000, thorough=40000),
             'variant x outside good x prices x scale x 2-5 labelled goods x budget x 1-2 data rows x 1-2 error draws, judged by '
             'non-negativity, budget, Kuhn-Tucker conditions, outside good, brute-force objective, and again after '
             'relabelling/reordering; non-trivial if >= 3 goods, one of them not consumed, labels differ from '
             '0..n-1 and from any order of 1..n'),
    SubCheck('pieces', strat_pieces, judge_pieces, _render_pieces,
             dict(quick=1200, thorough=24000),
             'numeric utility = symbolic utility (engine) = report formula, numeric derivative = gradient of the '
             'symbolic utility = report formula (incl. zero expenditure for inside goods), closed-form '
             'expenditure inverts the derivative; non-trivial if labels are arbitrary and >= 3 points'),
]
RULE = ' | '.join(f'{s.name}: {s.rule}' for s in SUBCHECKS)
