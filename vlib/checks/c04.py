"""C04 The sample log likelihood is the weighted sum of per-observation values."""
from __future__ import annotations

import math

import numpy as np
from hypothesis import strategies as st

from .. import build, gen, isolate, refsem
from ..runner import Outcome, SubCheck
from .c01 import reference_values, tol as ev_tol
from .c02 import _full_point

PROPERTY = 'C04'
LEVEL = 'exploration'
ASSUMPTIONS = [
    'per-observation values and weights are those BIOGEME.simulate reports for the same parameters; per-observation '
    'derivatives come from get_value_and_derivatives(aggregation=False) of the same formula (same engine), so defects of '
    'individual operators cancel and only the aggregation is judged',
    'the thread count is a configuration (1 .. rows + 3, and 0 = all cores); interleavings inside the engine threads are '
    'not controllable from Python and are only sampled by repeating every evaluation three times',
    'BHHH aggregates as sum_n w_n g_n g_n^T (weights enter linearly, as for the value, gradient and Hessian)',
    'tolerance 1e-10 relative to the sum of absolute terms',
]
BUDGETS = dict(quick=dict(shards=8), thorough=dict(shards=16))


@st.composite
def strat(draw, tier):
    big = tier == 'thorough'
    many = draw(st.floats(0, 1)) < 0.3  # some tables have more rows than the machine has cores
    case = draw(gen.expression_cases(tier, differentiable=True, min_free=1, with_weight=True, sharing=False,
                                     min_rows=18 if many else 2, max_rows=(40 if big else 24) if many else (24 if big else 10)))
    case['keys'] = [draw(st.sampled_from(['log_like', 'log_like', 'loglike'])), draw(st.sampled_from(['weight', 'weights']))]
    n = len(case['table']['columns'][0][2])
    wcol = case['weight_column']
    case['weight'] = draw(st.sampled_from([None, ['Var', wcol], ['Var', wcol], ['Times', ['Num', 2.0], ['Var', wcol]],
                                           ['Plus', ['Var', wcol], ['Num', 0.5]], ['Num', 1.0], ['Num', 3.0]]))
    threads = sorted(set([1, 2, draw(st.integers(1, n)), n, n + draw(st.integers(1, 3)), 0] + ([33] if many else [])))
    case['threads'] = threads
    case['perm'] = list(draw(st.permutations(list(range(n)))))
    k = draw(st.integers(2, min(4, n)))
    cuts = sorted(draw(st.lists(st.integers(1, n - 1), min_size=k - 1, max_size=k - 1, unique=True)))
    case['cuts'] = cuts
    return case


def _sub_table(table, idx):
    return dict(columns=[[name, dtype, [vals[i] for i in idx]] for name, dtype, vals in table['columns']])


def _make(case, table, threads):
    import biogeme.biogeme as bio
    from biogeme.parameters import Parameters

    b = build.Builder(case['shared'], overloads=case['overloads'])
    k_like, k_weight = case.get('keys', ['log_like', 'weight'])
    formulas = {k_like: b.build(case['roots'][0])}
    if case['weight'] is not None:
        formulas[k_weight] = build.Builder([]).build(case['weight'])
    params = Parameters()
    params.set_value(name='number_of_threads', value=threads)
    the = bio.BIOGEME(build.build_database(table), formulas, parameters=params)
    the.save_iterations = False
    the.generate_html = False
    the.generate_pickle = False
    return the


def _arr(x):
    return None if x is None else np.asarray(x, dtype=float).tolist()


def _observe(case):
    res = {'threads': {}}
    x = case['x']
    for t in case['threads']:
        the = _make(case, case['table'], t)
        runs = []
        for _ in range(3):
            like = float(the.calculate_likelihood(x, scaled=False))
            scaled = float(the.calculate_likelihood(x, scaled=True))
            d = the.calculate_likelihood_and_derivatives(x, scaled=False, hessian=True, bhhh=True)
            ds = the.calculate_likelihood_and_derivatives(x, scaled=True, hessian=True, bhhh=True)
            runs.append(dict(like=like, scaled=scaled, f=float(d.function), g=_arr(d.gradient), h=_arr(d.hessian),
                             b=_arr(d.bhhh), sf=float(ds.function), sg=_arr(ds.gradient), sh=_arr(ds.hessian),
                             sb=_arr(ds.bhhh)))
        res['threads'][t] = runs
        k_like, k_weight = case.get('keys', ['log_like', 'weight'])
        sim = the.simulate(dict(zip(the.free_beta_names, x)))
        # the same object is used again after a simulation
        runs.append(dict(runs[-1], like=float(the.calculate_likelihood(x, scaled=False)), after_simulate=True))
        if t == 1:
            res['names'] = list(the.free_beta_names)
            res['sample_size'] = int(the.database.get_sample_size())
            res['sim_columns'] = list(sim.columns)
            res['sim_log_like'] = _arr(sim[k_like])
            res['sim_weight'] = _arr(sim[k_weight]) if k_weight in sim.columns else None
    # per-observation derivatives of the same formula (same engine)
    e = build.Builder(case['shared'], overloads=case['overloads']).build(case['roots'][0])
    database = build.build_database(case['table'])
    d = e.get_value_and_derivatives(database=database, betas=dict(zip(res['names'], x)), gradient=True, hessian=True,
                                    bhhh=True, aggregation=False, prepare_ids=True)
    res['dis'] = dict(f=_arr(d.functions), g=_arr(d.gradients), h=_arr(d.hessians))
    # permuted rows
    the = _make(case, _sub_table(case['table'], case['perm']), 1)
    res['perm_like'] = float(the.calculate_likelihood(x, scaled=False))
    dp = the.calculate_likelihood_and_derivatives(x, scaled=False, hessian=True, bhhh=True)
    res['perm'] = dict(g=_arr(dp.gradient), h=_arr(dp.hessian), b=_arr(dp.bhhh))
    # partition into consecutive parts, each its own object
    n = len(case['table']['columns'][0][2])
    bounds = [0] + list(case['cuts']) + [n]
    parts = []
    for lo, hi in zip(bounds[:-1], bounds[1:]):
        the = _make(case, _sub_table(case['table'], list(range(lo, hi))), 2)
        dd = the.calculate_likelihood_and_derivatives(x, scaled=False, hessian=True, bhhh=True)
        parts.append(dict(like=float(the.calculate_likelihood(x, scaled=False)), g=_arr(dd.gradient),
                          h=_arr(dd.hessian), b=_arr(dd.bhhh), n=hi - lo))
    res['parts'] = parts
    return res


def judge(case) -> Outcome:
    out = Outcome()
    root = case['roots'][0]
    point = _full_point(case)
    names = refsem.free_names(root, case['shared'])
    if not names:
        out.skipped = 'no free parameter'
        return out
    rows = build.table_rows(case['table'])
    n = len(rows)
    try:
        l_evs = reference_values(case, root, betas=point)
        l_ref = [ev.v for ev in l_evs]
        l_tol = [ev_tol(ev) for ev in l_evs]
        if case['weight'] is None:
            w_ref = [1.0] * n
        else:
            w_ref = [refsem.evaluate(case['weight'], refsem.Env(row=r), refsem.EVAlg()).v for r in rows]
    except (refsem.IllPosed, OverflowError) as e:
        out.skipped = 'ill-posed: ' + str(e)[:40]
        return out
    case = dict(case, x=[point[nm] for nm in names])
    const_w = len(set(w_ref)) == 1
    bounds = [0] + list(case['cuts']) + [n]
    unequal = len({hi - lo for lo, hi in zip(bounds[:-1], bounds[1:])}) > 1
    out.nontrivial = n >= 3 and not const_w and unequal and any(t > n for t in case['threads'])
    out.classes += [f'keys={"/".join(case.get("keys", []))}', 'more_rows_than_cores' if n > 16 else 'few_rows',
                    'weighted' if case['weight'] is not None else 'unweighted',
                    'const_weight' if const_w else 'varying_weight', f'rows={min(n, 10)}']
    res = isolate.call(_observe, case)
    if not res['ok']:
        out.fail(f'raises:{res["exc_type"]}', f'likelihood evaluation raised {res["exc_type"]}: {res["exc_msg"][:300]} '
                                              f'for {refsem.render(root, case["shared"])[:200]}')
        return out
    o = res['value']
    if o['names'] != names:
        out.fail('names', f'free_beta_names {o["names"]} vs {names}')
        return out
    total_ref = sum(w * l for w, l in zip(w_ref, l_ref))
    scale = sum(abs(w * l) for w, l in zip(w_ref, l_ref)) + 1.0
    tol = 1e-10 * scale

    # (1) simulation reports per-observation values and weights; the likelihood is their weighted sum
    sim_l = o['sim_log_like']
    sim_w = o['sim_weight'] if o['sim_weight'] is not None else [1.0] * n
    if len(sim_l) != n or len(sim_w) != n:
        out.fail('simulate:rows', f'simulate returned {len(sim_l)} rows for {n} observations')
        return out
    for i in range(n):
        if not abs(sim_l[i] - l_ref[i]) <= l_tol[i] + 1e-9 * (1 + abs(l_ref[i])) or not abs(sim_w[i] - w_ref[i]) <= 1e-12 * (1 + abs(w_ref[i])):
            out.fail('simulate:value', f'row {i}: simulate gives (l, w) = ({sim_l[i]!r}, {sim_w[i]!r}), reference ({l_ref[i]!r}, {w_ref[i]!r})')
            return out
    total_sim = sum(w * l for w, l in zip(sim_w, sim_l))

    dis = o['dis']
    k = len(names)
    g_n = np.asarray(dis['g'], dtype=float).reshape(n, k)
    h_n = np.asarray(dis['h'], dtype=float).reshape(n, k, k)
    w = np.asarray(w_ref, dtype=float)
    G = (w[:, None] * g_n).sum(0)
    H = (w[:, None, None] * h_n).sum(0)
    B = sum(w[i] * np.outer(g_n[i], g_n[i]) for i in range(n))
    gs = 1e-9 * (1 + np.abs(w[:, None] * g_n).sum())
    hs = 1e-9 * (1 + np.abs(w[:, None, None] * h_n).sum())
    bs = 1e-9 * (1 + sum(abs(w[i]) * float(np.abs(np.outer(g_n[i], g_n[i])).max()) for i in range(n)))
    if not (np.all(np.isfinite(G)) and np.all(np.isfinite(H)) and np.all(np.isfinite(B))):
        out.skipped = 'ill-posed: per-observation derivatives overflow'
        return out

    def close(a, b_, t):
        a = np.asarray(a, dtype=float)
        return a.shape == np.asarray(b_).shape and bool(np.all(np.isfinite(a))) and bool(np.all(np.abs(a - b_) <= t))

    for t, runs in o['threads'].items():
        tag = 'threads>rows' if (t > n) else ('threads=0' if t == 0 else 'threads<=rows')
        for r_i, r in enumerate(runs):
            where = f' (number_of_threads={t}, {n} rows, evaluation {r_i + 1}/{len(runs)}' + (', after simulate()' if r.get('after_simulate') else '') + f', formula keys {case.get("keys")})'
            if not abs(r['like'] - total_sim) <= tol:
                out.fail(f'likelihood:{tag}', f'calculate_likelihood = {r["like"]!r} but sum_n w_n l_n from simulate = {total_sim!r}' + where)
                return out
            if not abs(r['like'] - total_ref) <= 1e-9 * scale + sum(abs(w_) * t_ for w_, t_ in zip(w_ref, l_tol)):
                out.fail(f'likelihood_vs_reference:{tag}', f'calculate_likelihood = {r["like"]!r}, reference {total_ref!r}' + where)
                return out
            if not abs(r['scaled'] - r['like'] / o['sample_size']) <= tol:
                out.fail(f'scaled:{tag}', f'scaled likelihood {r["scaled"]!r} vs {r["like"]!r} / {o["sample_size"]}' + where)
                return out
            if not abs(r['f'] - r['like']) <= tol:
                out.fail(f'value_with_derivatives:{tag}', f'{r["f"]!r} vs {r["like"]!r}' + where)
                return out
            if not close(r['g'], G, gs):
                out.fail(f'gradient:{tag}', f'gradient {r["g"]} vs sum_n w_n g_n = {G.tolist()}' + where)
                return out
            if not close(r['h'], H, hs):
                out.fail(f'hessian:{tag}', f'Hessian {r["h"]} vs sum_n w_n H_n = {H.tolist()}' + where)
                return out
            if not close(r['b'], B, bs):
                out.fail(f'bhhh:{tag}', f'BHHH {r["b"]} vs sum_n w_n g_n g_n^T = {B.tolist()}' + where)
                return out
            ss = float(o['sample_size'])
            if not (abs(r['sf'] - r['like'] / ss) <= tol and close(r['sg'], G / ss, gs) and close(r['sh'], H / ss, hs)
                    and close(r['sb'], B / ss, bs)):
                out.fail(f'scaled_derivatives:{tag}',
                         f'scaled=True: (f, g, H, BHHH) = ({r["sf"]}, {r["sg"]}, {r["sh"]}, {r["sb"]}) is not the unscaled '
                         f'output divided by the sample size {ss}: ({r["like"]}, {G.tolist()}, {H.tolist()}, {B.tolist()})' + where)
                return out
    # (2) row order
    if not abs(o['perm_like'] - total_sim) <= tol:
        out.fail('permutation:likelihood', f'after permuting the rows {case["perm"]}: {o["perm_like"]!r} vs {total_sim!r}')
    elif not (close(o['perm']['g'], G, gs) and close(o['perm']['h'], H, hs) and close(o['perm']['b'], B, bs)):
        out.fail('permutation:derivatives', f'derivatives change after permuting the rows {case["perm"]}')
    # (3) partition
    parts = o['parts']
    if not abs(sum(p['like'] for p in parts) - total_sim) <= tol:
        out.fail('partition:likelihood', f'parts {[p["n"] for p in parts]} give {[p["like"] for p in parts]}, total {total_sim!r}')
    else:
        pg = sum(np.asarray(p['g'], dtype=float) for p in parts)
        ph = sum(np.asarray(p['h'], dtype=float) for p in parts)
        pb = sum(np.asarray(p['b'], dtype=float) for p in parts)
        if not (close(pg, G, gs) and close(ph, H, hs) and close(pb, B, bs)):
            out.fail('partition:derivatives', f'derivatives of the parts {[p["n"] for p in parts]} do not add up')
    return out


# ---------------------------------------------------------------------------------------------
# simulated likelihoods: the same relations when the formula contains a Monte-Carlo integral


@st.composite
def strat_simulated(draw, tier):
    table, info = draw(gen.tables(min_rows=2, max_rows=12 if tier == 'thorough' else 8, with_choice=False, weight=True))
    xs = info['real']
    x1, x2 = draw(st.sampled_from(xs)), draw(st.sampled_from(xs))
    n = len(table['columns'][0][2])
    wcol = info['weight']
    return dict(table=table, x1=x1, x2=x2, b=[draw(gen.dyadic(-1, 1)), draw(gen.dyadic(-1, 1))],
                draw_type=draw(st.sampled_from(['NORMAL', 'UNIFORM', 'NORMAL_HALTON2', 'NORMAL_MLHS', 'UNIFORMSYM', 'NORMAL_ANTI'])),
                R=draw(st.integers(1, 10)) * 2, np_seed=draw(st.integers(1, 10**6)),
                weight=draw(st.sampled_from([None, ['Var', wcol], ['Times', ['Num', 2.0], ['Var', wcol]]])),
                threads=sorted(set([1, 2, n, n + 2, 0])), simulate_first=draw(st.booleans()))


def _observe_simulated(case):
    import biogeme.biogeme as bio
    from biogeme.expressions import Beta, Variable, bioDraws, MonteCarlo, exp, log
    from biogeme.parameters import Parameters

    res = {}
    for t in case['threads']:
        np.random.seed(case['np_seed'])
        b1 = Beta('B_1', case['b'][0], None, None, 0)
        s = Beta('sigma', case['b'][1], None, None, 0)
        like = log(MonteCarlo(exp(b1 * Variable(case['x1']) + s * bioDraws('xi', case['draw_type']) * Variable(case['x2']))))
        formulas = {'log_like': like}
        if case['weight'] is not None:
            formulas['weight'] = build.Builder([]).build(case['weight'])
        params = Parameters()
        params.set_value(name='number_of_threads', value=t)
        params.set_value(name='number_of_draws', value=case['R'])
        the = bio.BIOGEME(build.build_database(case['table']), formulas, parameters=params)
        the.save_iterations = the.generate_html = the.generate_pickle = False
        x = [case['b'][0], case['b'][1]]
        one = {}
        if case['simulate_first']:
            one['sim0'] = _arr(the.simulate(dict(zip(the.free_beta_names, x)))['log_like'])
        one['like'] = float(the.calculate_likelihood(x, scaled=False))
        d = the.calculate_likelihood_and_derivatives(x, scaled=False, hessian=False, bhhh=False)
        one['f'], one['g'] = float(d.function), _arr(d.gradient)
        sim = the.simulate(dict(zip(the.free_beta_names, x)))
        one['sim'] = _arr(sim['log_like'])
        one['w'] = _arr(sim['weight']) if 'weight' in sim.columns else None
        one['like_after'] = float(the.calculate_likelihood(x, scaled=False))
        d2 = the.calculate_likelihood_and_derivatives(x, scaled=False, hessian=False, bhhh=False)
        one['g_after'] = _arr(d2.gradient)
        res[t] = one
    return res


def judge_simulated(case) -> Outcome:
    out = Outcome()
    rows = build.table_rows(case['table'])
    n = len(rows)
    w_ref = [1.0] * n if case['weight'] is None else [refsem.evaluate(case['weight'], refsem.Env(row=r), refsem.EVAlg()).v for r in rows]
    out.nontrivial = n >= 3 and len(set(w_ref)) > 1
    out.classes += [f'draws={case["draw_type"]}', 'simulate_first' if case['simulate_first'] else 'likelihood_first',
                    'weighted' if case['weight'] is not None else 'unweighted']
    res = isolate.call(_observe_simulated, case)
    if not res['ok']:
        out.fail(f'simulated:raises:{res["exc_type"]}', f'{res["exc_type"]}: {res["exc_msg"][:300]}')
        return out
    o = res['value']
    first = None
    for t in case['threads']:
        one = o[t]
        where = f' (number_of_threads={t}, {n} rows, {case["R"]} draws of type {case["draw_type"]}, simulate first: {case["simulate_first"]})'
        w = one['w'] if one['w'] is not None else [1.0] * n
        if len(one['sim']) != n or any(abs(a - b_) > 1e-12 * (1 + abs(b_)) for a, b_ in zip(w, w_ref)):
            out.fail('simulated:simulate_rows', f'simulate returns {len(one["sim"])} rows / weights {w} for weights {w_ref}' + where)
            return out
        total = sum(wi * li for wi, li in zip(w, one['sim']))
        scale = 1 + sum(abs(wi * li) for wi, li in zip(w, one['sim']))
        if not abs(one['like'] - total) <= 1e-10 * scale:
            out.fail('simulated:likelihood_vs_simulate', f'calculate_likelihood = {one["like"]!r}, simulate rows of the same object sum to {total!r}' + where)
            return out
        if one['like_after'] != one['like'] or not abs(one['f'] - one['like']) <= 1e-10 * scale:
            out.fail('simulated:likelihood_changes', f'log likelihood {one["like"]!r} (with derivatives {one["f"]!r}) becomes {one["like_after"]!r} '
                                                     f'after simulate() on the same object' + where)
            return out
        if one['g'] != one['g_after']:
            out.fail('simulated:gradient_changes', f'gradient {one["g"]} becomes {one["g_after"]} after simulate()' + where)
            return out
        if 'sim0' in one and one['sim0'] != one['sim']:
            out.fail('simulated:simulate_changes', 'two simulations of the same object differ' + where)
            return out
        if first is None:
            first = one
        elif not abs(one['like'] - first['like']) <= 1e-10 * scale:
            out.fail('simulated:threads', f'log likelihood {one["like"]!r} with {t} threads, {first["like"]!r} with {case["threads"][0]} '
                                          f'(same numpy seed, same draws)' + where)
            return out
    return out


def render(case):
    return (f'log_like = {refsem.render(case["roots"][0], case["shared"])[:300]}, weight = '
            f'{refsem.render(case["weight"]) if case["weight"] else None}, {len(case["table"]["columns"][0][2])} rows, '
            f'threads {case["threads"]}, cuts {case["cuts"]}')


SUBCHECKS = [
    SubCheck('aggregation', strat, judge, render, dict(quick=1500, thorough=30000),
             'random differentiable likelihood formulas x tables of 2-10 (thorough 24) rows x weight formulas; thread counts '
             '{1, 2, k<=N, N, N+1..3, 0}, three evaluations each; row permutation; partition into 2-4 consecutive parts; '
             'likelihood vs sum of simulate rows, scaled variant, gradient/Hessian/BHHH vs weighted sums of per-observation '
             'derivatives; non-trivial: >= 3 rows, non-constant weights, unequal parts, a thread count above the row count',
             max_skip_fraction=0.3),
    SubCheck('simulated', strat_simulated, judge_simulated,
             lambda c: f"log(MonteCarlo(exp(B_1 {c['x1']} + sigma xi {c['x2']}))), xi ~ {c['draw_type']}, R={c['R']}, weight {c['weight']}",
             dict(quick=400, thorough=8000),
             'a mixed-logit-like simulated likelihood (native draw types, numpy seed fixed per object): likelihood == sum of weight x '
             'simulate rows of the SAME object, unchanged by simulate() before or after, same for every thread count; non-trivial: '
             '>= 3 rows and varying weights'),
]
RULE = ' | '.join(f'{s.name}: {s.rule}' for s in SUBCHECKS)
