"""C11 Every named draw type delivers the distribution and structure it advertises."""
from __future__ import annotations

import math
import re

import numpy as np
from hypothesis import strategies as st
from scipy.special import ndtr, ndtri

from ..runner import Outcome, SubCheck

PROPERTY = 'C11'
LEVEL = 'exploration'
ASSUMPTIONS = [
    'scipy.special.ndtri is the reference standard-normal quantile (relative accuracy ~1e-15)',
    'random catalogue entries are compared with their unit/uniform counterpart under the same '
    'numpy.random seed (the relation the property states), not against a fixed expected stream',
    'numbers of draws are even (documented requirement of the antithetic types)',
]
BUDGETS = dict(quick=dict(shards=8), thorough=dict(shards=16))

QTOL_ABS = 1e-13
QTOL_REL = 1e-13


def _lib():
    import biogeme.draws as draws
    import biogeme.native_draws as nd

    return draws, nd


# ---------------------------------------------------------------------------------------------
# independent reference pieces


def radical_inverse(index: int, base: int) -> float:
    """van der Corput radical inverse of a positive integer in a prime base."""
    f, r, i = 1.0, 0.0, index
    while i > 0:
        f /= base
        r += f * (i % base)
        i //= base
    return r


def halton_ref(n, r, base, skip):
    """Elements skip+1, skip+2, ... of the base-b sequence, laid out row by row."""
    vals = np.array([radical_inverse(k, base) for k in range(skip + 1, skip + 1 + n * r)])
    return vals.reshape(n, r)


def parse_description(description: str):
    """What a catalogue description advertises."""
    d = description.lower()
    info = dict(base=None, skip=None, support='unit', anti='antithetic' in d,
                mlhs='latin hypercube' in d, halton='halton' in d, normal='normal' in d)
    m = re.search(r'base (\d+)', d)
    if m:
        info['base'] = int(m.group(1))
    m = re.search(r'skipping\s+the first (\d+)', d)
    if m:
        info['skip'] = int(m.group(1))
    if '[-1, 1]' in d:
        info['support'] = 'sym'
    if info['normal']:
        info['support'] = 'real'
    return info


FAMILY = {
    # name: (unit counterpart, relation)
    'UNIFORMSYM': ('UNIFORM', 'sym'),
    'UNIFORMSYM_ANTI': ('UNIFORM_ANTI', 'sym'),
    'UNIFORMSYM_HALTON2': ('UNIFORM_HALTON2', 'sym'),
    'UNIFORMSYM_HALTON3': ('UNIFORM_HALTON3', 'sym'),
    'UNIFORMSYM_HALTON5': ('UNIFORM_HALTON5', 'sym'),
    'UNIFORMSYM_MLHS': ('UNIFORM_MLHS', 'sym'),
    'UNIFORMSYM_MLHS_ANTI': ('UNIFORM_MLHS_ANTI', 'sym'),
    'NORMAL': ('UNIFORM', 'normal'),
    'NORMAL_ANTI': ('UNIFORM_ANTI', 'normal'),
    'NORMAL_HALTON2': ('UNIFORM_HALTON2', 'normal'),
    'NORMAL_HALTON3': ('UNIFORM_HALTON3', 'normal'),
    'NORMAL_HALTON5': ('UNIFORM_HALTON5', 'normal'),
    'NORMAL_MLHS': ('UNIFORM_MLHS', 'normal'),
    'NORMAL_MLHS_ANTI': ('UNIFORM_MLHS_ANTI', 'normal'),
}

ALL_TYPES = [
    'UNIFORM', 'UNIFORM_ANTI', 'UNIFORM_HALTON2', 'UNIFORM_HALTON3', 'UNIFORM_HALTON5',
    'UNIFORM_MLHS', 'UNIFORM_MLHS_ANTI', 'UNIFORMSYM', 'UNIFORMSYM_ANTI', 'UNIFORMSYM_HALTON2',
    'UNIFORMSYM_HALTON3', 'UNIFORMSYM_HALTON5', 'UNIFORMSYM_MLHS', 'UNIFORMSYM_MLHS_ANTI',
    'NORMAL', 'NORMAL_ANTI', 'NORMAL_HALTON2', 'NORMAL_HALTON3', 'NORMAL_HALTON5',
    'NORMAL_MLHS', 'NORMAL_MLHS_ANTI',
]


_A = [3.3871328727963666080e0, 1.3314166789178437745e2, 1.9715909503065514427e3,
      1.3731693765509461125e4, 4.5921953931549871457e4, 6.7265770927008700853e4,
      3.3430575583588128105e4, 2.5090809287301226727e3]
_B = [1.0, 4.2313330701600911252e1, 6.8718700749205790830e2, 5.3941960214247511077e3,
      2.1213794301586595867e4, 3.9307895800092710610e4, 2.8729085735721942674e4,
      5.2264952788528545610e3]
_C = [1.42343711074968357734e0, 4.63033784615654529590e0, 5.76949722146069140550e0,
      3.64784832476320460504e0, 1.27045825245236838258e0, 2.41780725177450611770e-1,
      2.27238449892691845833e-2, 7.74545014278341407640e-4]
_D = [1.0, 2.05319162663775882187e0, 1.67638483018380384940e0, 6.89767334985100004550e-1,
      1.48103976427480074590e-1, 1.51986665636164571966e-2, 5.47593808499534494600e-4,
      1.05075007164441684324e-9]
_E = [6.65790464350110377720e0, 5.46378491116411436990e0, 1.78482653991729133580e0,
      2.96560571828504891230e-1, 2.65321895265761230930e-2, 1.24266094738807843860e-3,
      2.71155556874348757815e-5, 2.01033439929228813265e-7]
_F = [1.0, 5.99832206555887937690e-1, 1.36929880922735805310e-1, 1.48753612908506148525e-2,
      7.86869131145613259100e-4, 1.84631831751005468180e-5, 1.42151175831644588870e-7,
      2.04426310338993978564e-15]


def _horner(coeffs, r):
    acc = 0.0
    for c in reversed(coeffs):
        acc = acc * r + c
    return acc


def as241(u: float, known_defect: bool = False) -> float:
    """Wichura's PPND16.  With known_defect=True the branch is selected the way the
    recorded finding describes (|u| <= 0.45 instead of |u - 0.5| <= 0.425): used only to
    recognise that exact defect, never as an oracle."""
    q = u - 0.5
    central = (abs(u) <= 0.45) if known_defect else (abs(q) <= 0.425)
    if central:
        r = 0.180625 - q * q
        return q * _horner(_A, r) / _horner(_B, r)
    r = u if q < 0 else 1.0 - u
    if r <= 0:
        return 0.0
    r = math.sqrt(-math.log(r))
    if r <= 5.0:
        r -= 1.6
        v = _horner(_C, r) / _horner(_D, r)
    else:
        r -= 5.0
        v = _horner(_E, r) / _horner(_F, r)
    return -v if q < 0 else v


def matches_known_as241_defect(d, u) -> bool:
    """Are the numbers exactly what the recorded AS241 branch defect produces from u?"""
    d = np.asarray(d, dtype=float).ravel()
    u = np.asarray(u, dtype=float).ravel()
    if d.shape != u.shape:
        return False
    zb = np.array([as241(float(x), known_defect=True) for x in u])
    return bool(np.all(np.abs(d - zb) <= 1e-12 + 1e-12 * np.abs(zb)))


def quantile_close(d, z):
    return np.abs(d - z) <= QTOL_ABS + QTOL_REL * np.abs(z)


def _gen(nd, name, n, r, np_seed):
    np.random.seed(np_seed)
    return np.asarray(nd.native_random_number_generators[name].generator(n, r))


def strata_ok(unit_values: np.ndarray) -> bool:
    """Exactly one point in each of the N equal strata of [0, 1]."""
    v = np.sort(unit_values.ravel())
    n = v.size
    lo = np.arange(n) / n
    hi = (np.arange(n) + 1) / n
    return bool(np.all(v >= lo - 1e-12) and np.all(v <= hi + 1e-12))


# ---------------------------------------------------------------------------------------------
# sub-check 1: the catalogue


def judge_catalogue(spec) -> Outcome:
    out = Outcome()
    draws, nd = _lib()
    name, n, r, np_seed = spec['type'], spec['n'], spec['r'], spec['np_seed']
    out.classes.append(f'type={name}')
    out.nontrivial = r >= 4
    out.ident = f'cat:{name}:{n}:{r}:{np_seed}'
    cat = nd.native_random_number_generators
    key = lambda aspect: f'catalogue:{name}:{aspect}'  # noqa: E731
    if name not in cat:
        out.fail(key('missing'), f'{name} absent from the catalogue')
        return out
    info = parse_description(cat[name].description)
    try:
        a = _gen(nd, name, n, r, np_seed)
    except Exception as e:  # noqa: a generator must not raise on a valid size
        out.fail(key('raises'), f'{name}({n},{r}) raised {type(e).__name__}: {e}')
        return out
    if a.shape != (n, r):
        out.fail(key('shape'), f'{name}({n},{r}) has shape {a.shape}')
        return out
    if not np.all(np.isfinite(a)):
        out.fail(key('support'), f'{name}({n},{r}) contains non-finite entries')
        return out
    if info['support'] == 'unit' and not (np.all(a >= 0) and np.all(a <= 1)):
        out.fail(key('support'), f'{name}: entries outside [0,1]: min {a.min()} max {a.max()}')
    if info['support'] == 'sym' and not (np.all(a >= -1) and np.all(a <= 1)):
        out.fail(key('support'), f'{name}: entries outside [-1,1]: min {a.min()} max {a.max()}')

    # the unit-interval image of the array, by the advertised transformation
    if info['support'] == 'unit':
        unit = a
    elif info['support'] == 'sym':
        unit = (a + 1.0) / 2.0
    else:
        unit = ndtr(a)

    relation_verified = False
    if info['halton']:
        if info['support'] == 'real':
            # no skip advertised for the normal variants: any contiguous run of the base-b
            # sequence is acceptable as the underlying uniform numbers
            found = None
            for s_ in range(0, 65):
                cand = halton_ref(n, r, info['base'], s_)
                if np.all(quantile_close(a, ndtri(cand))):
                    found = ('ok', cand)
                    break
                if matches_known_as241_defect(a, cand):
                    found = ('defect', cand)
                    break
            if found is None:
                out.fail(key('halton_sequence'),
                         f'{name}({n},{r}) is not the normal quantile of a run of the radical-inverse '
                         f'sequence of base {info["base"]}: Phi(first entries) = {unit.ravel()[:4].tolist()}')
            elif found[0] == 'defect':
                relation_verified = True
                out.fail(f'as241_branch:catalogue:{name}',
                         f'{name}: quantiles of its Halton numbers carry the AS241 branch defect')
            else:
                relation_verified = True
        else:
            ref = halton_ref(n, r, info['base'], info['skip'] or 0)
            target = ref if info['support'] == 'unit' else 2 * ref - 1
            if not np.allclose(a, target, rtol=0, atol=1e-14):
                out.fail(key('halton_sequence'),
                         f'{name}({n},{r}) is not the radical-inverse sequence of base {info["base"]} '
                         f'after skipping {info["skip"]}: first entries {unit.ravel()[:4].tolist()} '
                         f'expected {ref.ravel()[:4].tolist()}')

    half = r // 2
    if info['anti']:
        first, second = a[:, :half], a[:, half:]
        mirror = (1.0 - first) if info['support'] == 'unit' else -first
        if second.shape != first.shape or not np.allclose(second, mirror, rtol=0, atol=1e-15):
            out.fail(key('mirror'), f'{name}({n},{r}): second half is not the mirror image of the first')
        generated = unit[:, :half]
    else:
        generated = unit
    if info['mlhs'] and generated.size > 0 and info['support'] != 'real':
        # (normal variants: the strata are those of the underlying uniform numbers, which the
        # family relation below ties to the UNIFORM_MLHS* entry checked here)
        ok = strata_ok(generated)
        if not ok:
            out.fail(key('strata'),
                     f'{name}({n},{r}): generated part does not put one point in each of '
                     f'{generated.size} equal strata')

    if name in FAMILY:
        base_name, relation = FAMILY[name]
        try:
            u = _gen(nd, base_name, n, r, np_seed)
        except Exception as e:  # noqa
            out.fail(f'catalogue:{base_name}:raises', f'{base_name}({n},{r}) raised {e!r}')
            return out
        if u.shape == a.shape:
            if relation == 'sym':
                if not np.allclose(a, 2.0 * u - 1.0, rtol=0, atol=2e-15):
                    out.fail(key('sym_map'),
                             f'{name} is not 2u-1 of {base_name} under the same seed '
                             f'(max diff {np.max(np.abs(a - (2 * u - 1)))})')
            elif not (info['halton'] and relation_verified):
                z = ndtri(u)
                close = quantile_close(a, z)
                gen_a, gen_u = (a[:, :half], u[:, :half]) if info['anti'] else (a, u)
                if not np.all(close) and matches_known_as241_defect(gen_a, gen_u):
                    out.fail(f'as241_branch:catalogue:{name}',
                             f'{name}: quantiles of {base_name} carry the AS241 branch defect')
                elif not np.all(close):
                    i = int(np.argmax(np.where(close, 0, np.abs(a - z))))
                    loose = np.allclose(ndtr(a), u, rtol=0, atol=1e-6)
                    out.fail(key('quantile' if loose else 'underlying'),
                             f'{name} is not the normal quantile of {base_name} under the same seed: '
                             f'u={u.ravel()[i]!r} got {a.ravel()[i]!r} expected {z.ravel()[i]!r}')

    if info['halton'] and n * r >= 2:
        # entries advertising different bases must differ
        prefix = name[: name.index('HALTON')]
        for other_base in (2, 3, 5):
            other = f'{prefix}HALTON{other_base}'
            if other == name or other not in cat:
                continue
            b = _gen(nd, other, n, r, np_seed)
            if b.shape == a.shape and np.array_equal(a, b):
                lo, hi = sorted([name, other])
                out.fail(f'catalogue:{lo}={hi}:distinct_bases',
                         f'{name} and {other} advertise different bases but yield the same numbers')
    return out


def strat_catalogue(tier):
    big = tier == 'thorough'
    return st.fixed_dictionaries(dict(
        type=st.sampled_from(ALL_TYPES),
        n=st.integers(1, 12 if big else 7),
        r=st.integers(1, 60 if big else 20).map(lambda k: 2 * k),
        np_seed=st.integers(0, 2**31 - 1),
    ))


# ---------------------------------------------------------------------------------------------
# sub-check 2: the quantile transform over the whole unit interval

_BRANCH_POINTS = [0.075, 0.925, 0.45, 0.55, 0.5, 0.425, 0.575, 0.05, 0.95]


def _u_values():
    tiny = st.integers(1, 320).map(lambda k: 10.0 ** (-k))
    tiny = tiny.filter(lambda x: x > 0)
    near_one = st.integers(1, 53).map(lambda k: 1.0 - 2.0 ** (-k))
    near_branch = st.tuples(st.sampled_from(_BRANCH_POINTS), st.floats(-1e-3, 1e-3)).map(
        lambda t: min(max(t[0] + t[1], 5e-324), 1 - 2**-53))
    anywhere = st.floats(min_value=5e-324, max_value=1 - 2**-53, exclude_min=False)
    uniform = st.floats(min_value=1e-6, max_value=1 - 1e-6)
    return st.one_of(uniform, uniform, near_branch, tiny, near_one, anywhere)


def judge_quantile(spec) -> Outcome:
    out = Outcome()
    draws, _ = _lib()
    u = np.array(spec['u'], dtype=float)
    anti = bool(spec.get('antithetic'))
    n = spec.get('n', 1)
    r = u.size // n
    u = u[: n * r]
    out.evaluations = int(u.size)
    out.nontrivial = bool(np.any((u < 0.08) | (u > 0.92))) and bool(np.any((u > 0.08) & (u < 0.92)))
    out.classes += ['tail' if np.any((u < 1e-3) | (u > 1 - 1e-3)) else 'centre']
    try:
        d = draws.get_normal_wichura_draws(
            sample_size=n, number_of_draws=2 * r if anti else r,
            uniform_numbers=u.copy(), antithetic=anti)
    except Exception as e:  # noqa
        out.fail('quantile:raises', f'get_normal_wichura_draws raised {type(e).__name__}: {e}')
        return out
    d = np.asarray(d)
    want_shape = (n, 2 * r) if anti else (n, r)
    if d.shape != want_shape:
        out.fail('quantile:shape', f'shape {d.shape}, expected {want_shape}')
        return out
    z = ndtri(u).reshape(n, r)
    first = d[:, :r]
    close = quantile_close(first, z)
    if not np.all(close) and matches_known_as241_defect(first, u):
        out.fail('as241_branch:get_normal_wichura_draws',
                 f'quantiles of {u[:4].tolist()}... carry the AS241 branch defect')
    elif not np.all(close):
        i = int(np.argmax(np.where(close, 0, np.abs(first - z))))
        out.fail('quantile:accuracy',
                 f'normal quantile of u={u[i]!r}: got {first.ravel()[i]!r}, '
                 f'expected {z.ravel()[i]!r} (diff {abs(first.ravel()[i] - z.ravel()[i]):.3e})',
                 dict(u=float(u[i])))
    if anti and not np.array_equal(d[:, r:], -first):
        out.fail('quantile:mirror', 'antithetic half is not minus the first half')
    return out


def strat_quantile(tier):
    return st.fixed_dictionaries(dict(
        u=st.lists(_u_values(), min_size=1, max_size=24),
        antithetic=st.booleans(),
        n=st.just(1),
    ))


# ---------------------------------------------------------------------------------------------
# sub-check 3: the underlying functions with explicit arguments

PRIMES = [2, 3, 5, 7, 11, 13, 17, 19, 23]


def judge_halton_args(spec) -> Outcome:
    out = Outcome()
    draws, _ = _lib()
    n, r, base, skip = spec['n'], spec['r'], spec['base'], spec['skip']
    sym, shuffled = spec['symmetric'], spec['shuffled']
    out.nontrivial = n * r >= base and skip > 0
    out.classes += [f'base={base}', 'shuffled' if shuffled else 'ordered']
    np.random.seed(spec['np_seed'])
    try:
        a = np.asarray(draws.get_halton_draws(n, r, symmetric=sym, base=base, skip=skip,
                                              shuffled=shuffled))
    except Exception as e:  # noqa
        out.fail('halton_args:raises', f'get_halton_draws{(n, r, sym, base, skip, shuffled)} raised {e!r}')
        return out
    if a.shape != (n, r):
        out.fail('halton_args:shape', f'shape {a.shape} instead of {(n, r)}')
        return out
    ref = halton_ref(n, r, base, skip)
    if sym:
        ref = 2 * ref - 1
    if shuffled:
        ok = np.allclose(np.sort(a.ravel()), np.sort(ref.ravel()), rtol=0, atol=1e-14)
    else:
        ok = np.allclose(a, ref, rtol=0, atol=1e-14)
    if not ok:
        out.fail('halton_args:sequence',
                 f'get_halton_draws(n={n}, r={r}, symmetric={sym}, base={base}, skip={skip}, '
                 f'shuffled={shuffled}) differs from the radical inverse of indices '
                 f'{skip + 1}..{skip + n * r}: got {a.ravel()[:3].tolist()} expected {ref.ravel()[:3].tolist()}')
    return out


def strat_halton_args(tier):
    return st.fixed_dictionaries(dict(
        n=st.integers(1, 8), r=st.integers(1, 40),
        base=st.sampled_from(PRIMES), skip=st.integers(0, 200),
        symmetric=st.booleans(), shuffled=st.booleans(),
        np_seed=st.integers(0, 2**31 - 1),
    ))


def judge_lhs_args(spec) -> Outcome:
    out = Outcome()
    draws, _ = _lib()
    n, r, sym = spec['n'], spec['r'], spec['symmetric']
    total = n * r
    supplied = spec['u'] is not None
    out.nontrivial = total >= 3
    out.classes.append('supplied_uniforms' if supplied else 'own_uniforms')
    np.random.seed(spec['np_seed'])
    try:
        if supplied:
            u = np.array((spec['u'] * (total // len(spec['u']) + 1))[:total], dtype=float)
            a = draws.get_latin_hypercube_draws(n, r, symmetric=sym, uniform_numbers=u.copy())
        else:
            a = draws.get_latin_hypercube_draws(n, r, symmetric=sym)
    except Exception as e:  # noqa
        out.fail('lhs_args:raises', f'get_latin_hypercube_draws raised {e!r}')
        return out
    a = np.asarray(a)
    if a.shape != (n, r):
        out.fail('lhs_args:shape', f'shape {a.shape} instead of {(n, r)}')
        return out
    unit = (a + 1) / 2 if sym else a
    if not strata_ok(unit):
        out.fail('lhs_args:strata', f'LHS({n},{r},symmetric={sym}) does not hit each of {total} strata once')
    if supplied:
        ref = (np.arange(total) + u) / total
        if not np.allclose(np.sort(unit.ravel()), np.sort(ref), rtol=0, atol=1e-14):
            out.fail('lhs_args:values', 'LHS with supplied uniforms is not the multiset {(i+u_i)/N}')
    return out


def strat_lhs_args(tier):
    return st.fixed_dictionaries(dict(
        n=st.integers(1, 8), r=st.integers(1, 30), symmetric=st.booleans(),
        u=st.one_of(st.none(), st.lists(st.floats(0, 1, exclude_max=True), min_size=1, max_size=12)),
        np_seed=st.integers(0, 2**31 - 1),
    ))


def judge_generate_draws(spec) -> Outcome:
    """Database.generate_draws: shape [obs, draws, variables], each slab from its own type."""
    out = Outcome()
    import pandas as pd
    import biogeme.database as db
    draws, nd = _lib()

    n, r, types, np_seed = spec['n'], spec['r'], spec['types'], spec['np_seed']
    names = [f'v{i}' for i in range(len(types))]
    # the dictionary name -> type may list the variables in another order than `names` (the library itself passes the
    # sorted names and a dictionary in order of appearance in the formula)
    order = [i % len(names) for i in spec.get('dict_order', range(len(names)))]
    order = list(dict.fromkeys(order + list(range(len(names)))))
    type_dict = {names[i]: types[i] for i in order}
    out.nontrivial = len(set(types)) >= 2 and list(type_dict) != names
    out.classes.append('dict_order_differs' if list(type_dict) != names else 'dict_order_same')
    d = db.Database('t', pd.DataFrame({'x': np.arange(n, dtype=float)}))
    np.random.seed(np_seed)
    try:
        table = d.generate_draws(type_dict, names, r)
    except Exception as e:  # noqa
        out.fail('generate_draws:raises', f'generate_draws({types},{r}) on {n} rows raised {e!r}')
        return out
    if table.shape != (n, r, len(types)):
        out.fail('generate_draws:shape', f'shape {table.shape}, expected {(n, r, len(types))}')
        return out
    # same stream consumed in the same order, one generator after the other
    np.random.seed(np_seed)
    for k, t in enumerate(types):
        ref = np.asarray(nd.native_random_number_generators[t].generator(n, r))
        if not np.array_equal(table[:, :, k], ref):
            out.fail(f'generate_draws:slab', f'slab {k} of the table is not the output of generator {t}')
            break
    return out


def strat_generate_draws(tier):
    return st.fixed_dictionaries(dict(
        n=st.integers(1, 6), r=st.integers(1, 10).map(lambda k: 2 * k),
        types=st.lists(st.sampled_from(ALL_TYPES), min_size=1, max_size=4),
        np_seed=st.integers(0, 2**31 - 1),
        dict_order=st.lists(st.integers(0, 3), min_size=0, max_size=4),
    ))


def judge_shape_enforcement(spec) -> Outcome:
    """Database.generate_draws must refuse (BiogemeError) any generator output that does not have
    the shape (observations, draws) - documented in its docstring - and accept the right one."""
    out = Outcome()
    import pandas as pd
    import biogeme.database as db
    from biogeme.exceptions import BiogemeError

    n, r = spec['n'], spec['r']
    dn, dr = spec['dn'], spec['dr']
    d = db.Database('t', pd.DataFrame({'x': np.arange(n, dtype=float)}))
    kind = spec['kind']
    out.nontrivial = (dn != 0) != (dr != 0)  # wrong in exactly one dimension
    out.classes.append(f'{kind}:' + ('ok' if dn == 0 and dr == 0 else 'rows' if dr == 0 else 'cols' if dn == 0 else 'both'))
    if kind == 'user':
        def gen_(sample_size, number_of_draws):
            return np.zeros((sample_size + dn, number_of_draws + dr))
        d.set_random_number_generators({'MYSHAPE': (gen_, 'user generator with a given shape')})
        types, wrong = {'v': 'MYSHAPE'}, (dn != 0 or dr != 0)
        what = f'user generator returning shape ({n}+{dn}, {r}+{dr})'
    else:
        # antithetic native types produce 2*int(R/2) columns: an odd R cannot be honoured
        types, wrong = {'v': spec['native']}, (r % 2 == 1)
        what = f'{spec["native"]} with {r} draws'
    np.random.seed(spec['np_seed'])
    try:
        table = d.generate_draws(types, ['v'], r)
    except BiogemeError:
        if not wrong:
            out.fail(f'shape_enforcement:{kind}:refuses_correct_shape', f'{what}: refused although the shape is right')
        return out
    except Exception as e:  # noqa
        out.fail(f'shape_enforcement:{kind}:raises:{type(e).__name__}', f'{what}: raised {e!r} instead of BiogemeError')
        return out
    if wrong:
        out.fail(f'shape_enforcement:{kind}:accepted_wrong_shape',
                 f'{what} on {n} rows was accepted; table shape {np.asarray(table).shape}, expected refusal '
                 f'(documented BiogemeError) because the requested shape is ({n}, {r})')
    elif np.asarray(table).shape != (n, r, 1):
        out.fail(f'shape_enforcement:{kind}:table_shape', f'{what}: table shape {np.asarray(table).shape}')
    return out


def strat_shape_enforcement(tier):
    return st.fixed_dictionaries(dict(
        n=st.integers(1, 8), r=st.integers(1, 21),
        dn=st.sampled_from([0, 0, 1, -1, 2, 5]).filter(lambda x: True),
        dr=st.sampled_from([0, 0, 1, -1, 3, 10]),
        kind=st.sampled_from(['user', 'user', 'native']),
        native=st.sampled_from(['UNIFORM_ANTI', 'UNIFORM_MLHS_ANTI', 'UNIFORMSYM_ANTI', 'UNIFORMSYM_MLHS_ANTI',
                                'NORMAL_ANTI', 'NORMAL_MLHS_ANTI']),
        np_seed=st.integers(0, 2**31 - 1),
    )).filter(lambda s: s['n'] + s['dn'] >= 1 and s['r'] + s['dr'] >= 1)


def _render_cat(s):
    return f"{s['type']}(sample_size={s['n']}, number_of_draws={s['r']}) under numpy seed {s['np_seed']}"


SUBCHECKS = [
    SubCheck('catalogue', strat_catalogue, judge_catalogue, _render_cat,
             dict(quick=1600, thorough=40000),
             'one of the 21 catalogue entries x size; non-trivial if >= 4 draws; distinct by (type,n,R,seed)'),
    SubCheck('quantile', strat_quantile, judge_quantile,
             lambda s: f"get_normal_wichura_draws(uniform_numbers={s['u'][:6]}..., antithetic={s['antithetic']})",
             dict(quick=1600, thorough=60000),
             'vectors of u in (0,1) incl. 1e-320..1e-1, 1-2^-k, branch neighbourhoods; non-trivial if both tail and centre present'),
    SubCheck('halton_args', strat_halton_args, judge_halton_args,
             lambda s: f"get_halton_draws({s['n']},{s['r']},symmetric={s['symmetric']},base={s['base']},skip={s['skip']},shuffled={s['shuffled']})",
             dict(quick=600, thorough=15000),
             'explicit base/skip/symmetric/shuffled; non-trivial if skip>0 and more numbers than the base'),
    SubCheck('lhs_args', strat_lhs_args, judge_lhs_args,
             lambda s: f"get_latin_hypercube_draws({s['n']},{s['r']},symmetric={s['symmetric']},uniform_numbers={'given' if s['u'] else None})",
             dict(quick=400, thorough=10000),
             'with and without supplied uniforms; non-trivial if >= 3 strata'),
    SubCheck('generate_draws', strat_generate_draws, judge_generate_draws,
             lambda s: f"Database({s['n']} rows).generate_draws(types={s['types']}, R={s['r']})",
             dict(quick=300, thorough=6000),
             'draw table through the database API; non-trivial if >= 2 different types'),
    SubCheck('shape_enforcement', strat_shape_enforcement, judge_shape_enforcement,
             lambda s: f"generate_draws on {s['n']} rows, R={s['r']}, {s['kind']} generator off by ({s['dn']},{s['dr']}) / {s['native']}",
             dict(quick=600, thorough=10000),
             'generators whose output is wrong in rows, columns or both (user-defined) and antithetic native types asked '
             'for an odd number of draws must be refused with BiogemeError; non-trivial if wrong in exactly one dimension'),
]
RULE = ' | '.join(f'{s.name}: {s.rule}' for s in SUBCHECKS)
