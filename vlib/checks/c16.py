"""C16 Catalogs span the product of their controllers; operators stay inside it.

A case is a *catalog structure*: explicit controllers, catalogs (own controller, a shared explicit
controller, or the controller of an earlier catalog), catalogs nested inside members of other
catalogs, catalogs produced by the helpers `segmentation_catalogs` / `generic_alt_specific_catalogs`,
all embedded in a small formula over Beta / Numeric / Variable; members are composite expressions or a
bare Beta / Variable / Numeric (what `generic_alt_specific_catalogs` and `Catalog.from_dict` of parameters
produce).  The harness keeps its own model of
the structure (which controllers exist, which member every catalog shows under a configuration, and
the catalog-free formula obtained by writing the chosen members out by hand); the library is
compared with that model.
"""
from __future__ import annotations

import itertools
import math
import random
import traceback

import numpy as np
from hypothesis import strategies as st

from .. import build, isolate, refsem
from ..runner import Outcome, SubCheck

import biogeme.catalog as bcat
import biogeme.configuration as bconf
import biogeme.controller as bctl
import biogeme.expressions as bexpr
import biogeme.segmentation as bseg
from biogeme.expressions import NamedExpression

PROPERTY = 'C16'
LEVEL = 'exploration'
ASSUMPTIONS = [
    'names of controllers, catalogs and members are non-empty, unique where the library identifies '
    'objects by name, and free of the reserved characters ";" and ":"; the space has at most 100 '
    'configurations where the enumerated set is used (library default above which no set is built)',
    'the catalog-free formula is written by the harness from the spec; for the helpers it follows their '
    'documentation: a segmented parameter is beta + sum over kept segmentations and non-reference '
    'categories of Beta(beta_category) * (variable == value), combinations are named no_seg or the '
    'kept variable names joined by "-", generic/altspec choose beta or Beta(beta_alternative); the '
    'ORDER of the specifications of a helper-made controller is read from the library (set checked)',
    'values: vlib/refsem.py reference semantics with forward error bounds (ill-posed steps are not '
    'compared with the reference); the same engine evaluating the hand-written formula must agree '
    'bit for bit',
    'operations through catalogs: MultipleExpression hands every tree operation to the selected member, so '
    'on a configured formula they act as on the hand-written one; their meaning on a catalog-free formula '
    'is the documented one: change_init_values(d) gives every parameter named in d, free or fixed, the '
    'value d[name]; fix_betas(d, prefix, suffix) gives it the value, the status fixed and the name with '
    'the affixes; rename_elementary(names, prefix, suffix) the name with the affixes; a dictionary never '
    'holds a name together with its affixed form; the betas dictionary of an evaluation names free '
    'parameters of the formula (or names foreign to it) only',
    'several formulas: each formula is a fresh composite expression built over catalog objects that other '
    'formulas may also contain; the formula object itself is never a sub-expression of another formula '
    '(set_central_controller hands a formula\'s central controller down to every node below it, so a node that '
    'is itself used as a formula reports the space of the formula explored last - observed on the unchanged '
    'library, not asserted either way); nothing is asserted about what a formula reports after ANOTHER formula '
    'moved a shared controller, only about what it does when explored or configured itself',
    'operators are looked up under the names prepare_operators gives them (Increase <c>, Decrease <c>, '
    'Pair_<a>_<b>_<NE|NW|SE|SW>, Increase_several, Decrease_several; names that two pairs would share are '
    'only checked for validity); the global `random` / numpy RNG is seeded from the spec before each call',
    'single-controller operators are cyclic shifts by `step` (docstrings + tests/functions/'
    'test_controller.py); pair operators follow the compass table of two_controllers; the "several" '
    'operators move controllers by unit steps in the advertised direction, the reported count of them',
]
BUDGETS = dict(quick=dict(shards=8), thorough=dict(shards=16))

MAX_SET = 100  # library default of maximum_number_catalog_expressions

# ---------------------------------------------------------------------------------------------
# spec language: refsem specs plus three leaf kinds
#   ['Cat', k]              k-th catalog of spec['catalogs']
#   ['Seg', h, i]           catalog of the i-th parameter made by segmentation helper h
#   ['Gas', h, i, a]        generic/alt-specific catalog of parameter i, alternative a, helper h

LEAVES = {'Num', 'Lit', 'Beta', 'Var', 'Cat', 'Seg', 'Gas'}
BARE_KINDS = {'Beta': 'Beta', 'Var': 'Variable', 'Num': 'Numeric', 'Lit': 'Numeric'}


def xchildren(spec):
    k = spec[0]
    if k in LEAVES:
        return []
    if k in refsem.BINARY:
        return [spec[1], spec[2]]
    if k in refsem.UNARY or k == 'PowC':
        return [spec[1]]
    if k == 'MultSum':
        return list(spec[1])
    if k == 'Elem':
        return [spec[1]] + [e for _, e in spec[2]]
    if k == 'LogLogit':
        res = [spec[1]]
        for _, u, av in spec[2]:
            res.append(u)
            if av is not None:
                res.append(av)
        return res
    raise ValueError(f'C16 spec: unknown node {k!r}')


def xmap(spec, f):
    k = spec[0]
    if k in LEAVES:
        return spec
    if k in refsem.BINARY:
        return [k, f(spec[1]), f(spec[2])]
    if k in refsem.UNARY:
        return [k, f(spec[1])]
    if k == 'PowC':
        return [k, f(spec[1]), spec[2]]
    if k == 'MultSum':
        return [k, [f(e) for e in spec[1]]]
    if k == 'Elem':
        return [k, f(spec[1]), [[kk, f(e)] for kk, e in spec[2]]]
    if k == 'LogLogit':
        return [k, f(spec[1]), [[a, f(u), None if av is None else f(av)] for a, u, av in spec[2]]]
    raise ValueError(f'C16 spec: unknown node {k!r}')


def xwalk(spec):
    yield spec
    for c in xchildren(spec):
        yield from xwalk(c)


# ---------------------------------------------------------------------------------------------
# the harness's own model of a structure


def seg_combinations(segs, maximum):
    """Kept-index tuples of the admissible combinations (own order: by size, then position)."""
    res = []
    for size in range(0, len(segs) + 1):
        if size > maximum:
            break
        res += list(itertools.combinations(range(len(segs)), size))
    return res


def seg_name(segs, kept):
    return 'no_seg' if not kept else '-'.join(segs[i][0] for i in kept)


def seg_reference(seg):
    return seg[2] if seg[2] is not None else seg[1][0][1]


def segmented_spec(beta, segs, kept):
    """beta + sum over kept segmentations, non-reference categories, of beta_cat * (var == value)."""
    terms = [list(beta)]
    for i in kept:
        var, mapping, _ = segs[i]
        ref = seg_reference(segs[i])
        for value, cat in mapping:
            if cat == ref:
                continue
            terms.append(['Times', ['Beta', f'{beta[1]}_{cat}', beta[2], None, None, beta[5]],
                          ['Eq', ['Var', var], ['Num', float(value)]]])
    return ['MultSum', terms]


def alt_beta(beta, alt):
    return ['Beta', f'{beta[1]}_{alt}', beta[2], beta[3], beta[4], beta[5]]


class Model:
    """Controllers and catalogs reachable from the root, by the rules of the documentation."""

    def __init__(self, spec):
        self.spec = spec
        self.cats = spec['catalogs']
        self.helpers = spec['helpers']
        self.order = {}  # controller name -> list of specification names
        self.kind = {}  # controller name -> explicit | helper
        self.catalogs = {}  # catalog name -> controller name (all reachable catalogs)
        self.conflict = None
        self.nested = False
        self.flags = set()
        self._seen = set()
        self._reach(spec['root'], 0)
        self.names = sorted(self.order)
        governed = {}
        for cname, ctl in self.catalogs.items():
            governed[ctl] = governed.get(ctl, 0) + 1
        self.shared = any(v >= 2 for v in governed.values())
        self.governed = governed

    # -- controllers -------------------------------------------------------------------------
    def cat_controller(self, k):
        c = self.cats[k]
        if c['ctl'] is None:
            return c['name'], [m[0] for m in c['members']]
        if c['ctl'][0] == 'ctl':
            name, names = self.spec['controllers'][c['ctl'][1]]
            return name, list(names)
        j = c['ctl'][1]
        return self.cats[j]['name'], [m[0] for m in self.cats[j]['members']]

    def _declare(self, ctl, names, kind, catalog):
        if ctl in self.order and self.order[ctl] != names:
            self.conflict = f'two controllers named {ctl!r}'
        self.order.setdefault(ctl, names)
        self.kind[ctl] = kind
        if catalog in self.catalogs and self.catalogs[catalog] != ctl:
            self.conflict = f'two catalogs named {catalog!r}'
        self.catalogs[catalog] = ctl

    def helper_seg_names(self, h):
        hp = self.helpers[h]
        return [seg_name(hp['segs'], kept) for kept in seg_combinations(hp['segs'], hp['max'])]

    def _reach(self, spec, depth):
        for node in xwalk(spec):
            k = node[0]
            if k == 'Cat':
                if depth > 0:
                    self.nested = True
                key = ('Cat', node[1])
                c = self.cats[node[1]]
                ctl, names = self.cat_controller(node[1])
                self._declare(ctl, names, 'explicit', c['name'])
                if key in self._seen:
                    self.flags.add('catalog_object_used_twice')
                    continue
                self._seen.add(key)
                for _, e in c['members']:
                    self._reach(e, depth + 1)
            elif k == 'Seg':
                if depth > 0:
                    self.nested = True
                hp = self.helpers[node[1]]
                self._declare(hp['name'], self.helper_seg_names(node[1]), 'helper',
                              f'segmented_{hp["betas"][node[2]][1]}')
            elif k == 'Gas':
                if depth > 0:
                    self.nested = True
                hp = self.helpers[node[1]]
                beta = hp['betas'][node[2]]
                alt = hp['alts'][node[3]]
                self._declare(f'{hp["name"]}_gen_altspec', ['generic', 'altspec'], 'explicit',
                              f'{beta[1]}_{alt}_gen_altspec')
                if hp['segs']:
                    self.nested = True
                    names = self.helper_seg_names(node[1])
                    self._declare(hp['name'], names, 'helper', f'segmented_{beta[1]}')
                    self._declare(hp['name'], names, 'helper', f'segmented_{beta[1]}_{alt}')

    # -- configurations ----------------------------------------------------------------------
    def size(self):
        return math.prod(len(self.order[n]) for n in self.names)

    def all_configs(self):
        for combo in itertools.product(*[self.order[n] for n in self.names]):
            yield dict(zip(self.names, combo))

    def config_from_indices(self, idx):
        return {n: self.order[n][idx[i % len(idx)] % len(self.order[n])]
                for i, n in enumerate(self.names)}

    def valid(self, cfg):
        return (isinstance(cfg, dict) and sorted(cfg) == self.names
                and all(cfg[n] in self.order[n] for n in self.names))

    def index(self, cfg):
        return {n: self.order[n].index(cfg[n]) for n in self.names}

    # -- hand substitution -------------------------------------------------------------------
    def substitute(self, spec, cfg, top=True):
        k = spec[0]
        if k == 'Cat':
            ctl, names = self.cat_controller(spec[1])
            member = self.cats[spec[1]]['members'][names.index(cfg[ctl])][1]
            return self.substitute(member, cfg)
        if k == 'Seg':
            hp = self.helpers[spec[1]]
            return segmented_spec(hp['betas'][spec[2]], hp['segs'], self._kept(hp, cfg))
        if k == 'Gas':
            hp = self.helpers[spec[1]]
            beta = hp['betas'][spec[2]]
            if cfg[f'{hp["name"]}_gen_altspec'] == 'altspec':
                beta = alt_beta(beta, hp['alts'][spec[3]])
            if hp['segs']:
                return segmented_spec(beta, hp['segs'], self._kept(hp, cfg))
            return list(beta)
        if k == 'Lit':
            return ['Num', float(spec[1])]
        return xmap(spec, lambda s: self.substitute(s, cfg, False))

    def reached(self, spec, cfg, acc=None):
        """What the formula reaches THROUGH catalogs under cfg: acc['through'] = names of the parameters
        inside selected members, acc['bare'] = {(kind, name or None)} of the selected members that are
        a bare leaf (nested selections followed)."""
        if acc is None:
            acc = dict(through=set(), bare=set())
        for node in xwalk(spec):
            k = node[0]
            if k == 'Cat':
                ctl, names = self.cat_controller(node[1])
                member = self.cats[node[1]]['members'][names.index(cfg[ctl])][1]
                if member[0] in BARE_KINDS:
                    acc['bare'].add((BARE_KINDS[member[0]], member[1] if member[0] in ('Beta', 'Var') else None))
                acc['through'] |= {n[1] for n in refsem.walk(self.substitute(member, cfg)) if n[0] == 'Beta'}
                self.reached(member, cfg, acc)
            elif k in ('Seg', 'Gas'):
                plain = self.substitute(node, cfg)
                if plain[0] == 'Beta':
                    acc['bare'].add(('Beta', plain[1]))
                acc['through'] |= {n[1] for n in refsem.walk(plain) if n[0] == 'Beta'}
        return acc

    def _kept(self, hp, cfg):
        wanted = cfg[hp['name']]
        for kept in seg_combinations(hp['segs'], hp['max']):
            if seg_name(hp['segs'], kept) == wanted:
                return kept
        raise KeyError(wanted)


def classify(out, m):
    out.classes.append(f'controllers={min(len(m.names), 5)}')
    n = m.size()
    out.classes.append('configs:' + ('1' if n == 1 else '2-3' if n < 4 else '4-15' if n < 16 else
                                     '16-100' if n <= 100 else '>100'))
    if m.shared:
        out.classes.append('shared_controller')
    if m.nested:
        out.classes.append('nested_catalog')
    for f in sorted(m.flags):
        out.classes.append(f)
    kinds = set()
    for node in all_nodes(m.spec):
        if node[0] == 'Seg':
            kinds.add('helper:segmentation_catalogs')
        if node[0] == 'Gas':
            hp = m.helpers[node[1]]
            kinds.add('helper:generic_alt_specific' + ('+segmentation' if hp['segs'] else ''))
        if node[0] == 'LogLogit':
            kinds.add('catalogs_inside_loglogit')
    for c in m.cats:
        if c['name'] in m.catalogs:
            for _, e in c['members']:
                if e[0] in BARE_KINDS:
                    kinds.add('member:bare_' + BARE_KINDS[e[0]])
    out.classes += sorted(kinds)
    if any(len(v) == 1 for v in m.order.values()):
        out.classes.append('controller_of_size_1')
    for c in m.cats:
        if c['ctl'] is not None and c['name'] in m.catalogs:
            out.classes.append('controlled_by=' + ('Controller' if c['ctl'][0] == 'ctl' else 'other_catalog'))
            break
    out.nontrivial = bool(m.shared and m.nested and n >= 4)


def all_nodes(spec):
    """Nodes of the root and of every reachable catalog member."""
    seen = set()
    stack = [spec['root']]
    while stack:
        s = stack.pop()
        for node in xwalk(s):
            yield node
            if node[0] == 'Cat' and node[1] not in seen:
                seen.add(node[1])
                stack += [e for _, e in spec['catalogs'][node[1]]['members']]


# ---------------------------------------------------------------------------------------------
# building the real objects


class CatalogBuilder(build.Builder):
    def __init__(self, spec):
        super().__init__(shared=(), overloads=bool(spec.get('overloads')))
        self.spec = spec
        self.controllers = {}
        self.cat_objects = {}
        self.helper_objects = {}

    def controller(self, j):
        if j not in self.controllers:
            name, names = self.spec['controllers'][j]
            self.controllers[j] = bctl.Controller(controller_name=name, specification_names=list(names))
        return self.controllers[j]

    def catalog(self, k):
        if k in self.cat_objects:
            return self.cat_objects[k]
        c = self.spec['catalogs'][k]
        if c['ctl'] is None:
            controlled_by = None
        elif c['ctl'][0] == 'ctl':
            controlled_by = self.controller(c['ctl'][1])
        else:
            controlled_by = self.catalog(c['ctl'][1]).controlled_by
        members = [(name, self.build(e)) for name, e in c['members']]
        if c.get('from_dict'):
            obj = bcat.Catalog.from_dict(catalog_name=c['name'], dict_of_expressions=dict(members),
                                         controlled_by=controlled_by)
        else:
            obj = bcat.Catalog(catalog_name=c['name'],
                               named_expressions=[NamedExpression(name=n, expression=e) for n, e in members],
                               controlled_by=controlled_by)
        self.cat_objects[k] = obj
        return obj

    def helper(self, h):
        if h in self.helper_objects:
            return self.helper_objects[h]
        hp = self.spec['helpers'][h]
        betas = [super(CatalogBuilder, self).build(b) for b in hp['betas']]
        segs = tuple(
            bseg.DiscreteSegmentationTuple(
                variable=(var if hp.get('var_by_name') else build._ex().Variable(var)),
                mapping={int(v): c for v, c in mapping}, reference=ref)
            for var, mapping, ref in hp['segs'])
        if hp['kind'] == 'seg':
            obj = bcat.segmentation_catalogs(generic_name=hp['name'], beta_parameters=betas,
                                             potential_segmentations=segs, maximum_number=hp['max'])
        else:
            obj = bcat.generic_alt_specific_catalogs(
                generic_name=hp['name'], beta_parameters=betas, alternatives=tuple(hp['alts']),
                potential_segmentations=segs if segs else None, maximum_number=hp['max'])
        self.helper_objects[h] = obj
        return obj

    def build(self, spec):
        k = spec[0]
        if k == 'Cat':
            return self.catalog(spec[1])
        if k == 'Seg':
            return self.helper(spec[1])[spec[2]]
        if k == 'Gas':
            hp = self.spec['helpers'][spec[1]]
            return self.helper(spec[1])[spec[2]][hp['alts'][spec[3]]]
        return super().build(spec)


def real_catalogs(expression):
    """Every Catalog object below the expression (through ALL members), once each."""
    found, seen, stack = [], set(), [expression]
    while stack:
        e = stack.pop()
        if id(e) in seen:
            continue
        seen.add(id(e))
        if isinstance(e, bcat.Catalog):
            found.append(e)
        stack += list(e.children)
    return found


def shown(catalogs):
    return sorted([c.name, c.controlled_by.controller_name, c.selected_name()] for c in catalogs)


def conf_dict(conf):
    """controller -> selection of a library Configuration (None if a controller is listed twice)."""
    d = {}
    for s in conf.selections:
        if s.controller in d:
            return None
        d[s.controller] = s.selection
    return d


def make_configuration(cfg, perm=0, how=0):
    """A library Configuration from a model dict, choices listed in a spec-chosen order."""
    items = sorted(cfg.items())
    r = random.Random(perm)
    r.shuffle(items)
    if how % 3 == 0:
        return bconf.Configuration.from_dict(dict(items))
    if how % 3 == 1:
        return bconf.Configuration([bconf.SelectionTuple(controller=c, selection=s) for c, s in items])
    return bconf.Configuration.from_string(';'.join(f'{c}:{s}' for c, s in items))


class _Stop(Exception):
    pass


def _guard(res, stage, fn, *args, **kwargs):
    """Call into the library; a library exception is recorded with its stage, a harness one escapes."""
    try:
        return fn(*args, **kwargs)
    except StopIteration:
        raise
    except Exception as e:  # noqa
        frames = traceback.extract_tb(e.__traceback__)
        if frames and '/vlib/' in frames[-1].filename:
            raise
        res['error'] = dict(stage=stage, type=type(e).__name__, module=type(e).__module__,
                            msg=str(e)[:300])
        raise _Stop()


def check_structure(out, m, expression, prefix):
    """Controllers and catalogs found in the real tree against the model; adopts the library's
    order for helper-made controllers.  Returns the catalogs or None."""
    cats = real_catalogs(expression)
    real = {}
    for c in cats:
        ctl = c.controlled_by
        names = list(ctl.specification_names)
        if ctl.controller_name in real and real[ctl.controller_name] != names:
            out.fail(f'{prefix}:structure:controller_name_clash',
                     f'two different controllers are named {ctl.controller_name!r}')
            return None
        real[ctl.controller_name] = names
        member_names = [n.name for n in c.named_expressions]
        if member_names != names:
            out.fail(f'{prefix}:structure:member_names',
                     f'catalog {c.name!r} has members {member_names} under controller {names}')
            return None
    if sorted(real) != m.names:
        out.fail(f'{prefix}:structure:controllers',
                 f'controllers in the formula {sorted(real)} vs expected {m.names}')
        return None
    for n in m.names:
        if m.kind[n] == 'helper':
            if sorted(real[n]) != sorted(m.order[n]) or len(set(real[n])) != len(real[n]):
                out.fail(f'{prefix}:structure:helper_specifications',
                         f'controller {n!r} offers {real[n]}, documentation implies {sorted(m.order[n])}')
                return None
            m.order[n] = list(real[n])
        elif real[n] != m.order[n]:
            out.fail(f'{prefix}:structure:specifications',
                     f'controller {n!r} offers {real[n]}, expected {m.order[n]}')
            return None
    got = {c.name: c.controlled_by.controller_name for c in cats}
    if got != m.catalogs:
        out.fail(f'{prefix}:structure:catalogs', f'catalogs -> controllers {got} vs expected {m.catalogs}')
        return None
    return cats


def prepare(spec, out, prefix):
    """Model + real formula; None if the case cannot be judged or building failed."""
    m = Model(spec)
    if not m.names:
        out.skipped = 'no catalog reachable from the formula'
        return None
    if m.conflict:
        out.skipped = 'ill-formed spec: ' + m.conflict
        return None
    classify(out, m)
    res = {}
    try:
        b = CatalogBuilder(spec)
        expression = _guard(res, 'build', b.build, spec['root'])
    except _Stop:
        e = res['error']
        out.fail(f'{prefix}:build:raises:{e["type"]}', f'building {render(spec)[:300]} raised {e["type"]}: {e["msg"]}')
        return None
    cats = check_structure(out, m, expression, prefix)
    if cats is None:
        return None
    return m, expression, cats


# ---------------------------------------------------------------------------------------------
# sub-check 1: the configuration space, identifiers, iteration


def parse_id(sid):
    """The documented wire format, parsed by hand."""
    d = {}
    for term in sid.split(';'):
        if term.count(':') != 1:
            return None
        c, s = term.split(':')
        if c in d:
            return None
        d[c] = s
    return d


def judge_identifiers(spec) -> Outcome:
    out = Outcome()
    prep = prepare(spec, out, 'identifiers')
    if prep is None:
        return out
    m, expression, cats = prep
    expected = {frozenset(c.items()) for c in m.all_configs()}
    n_expected = m.size()
    out.evaluations = n_expected
    res = {}
    try:
        n = _guard(res, 'number_of_multiple_expressions', expression.number_of_multiple_expressions)
        if n != n_expected:
            out.fail('identifiers:count:number_of_multiple_expressions',
                     f'{n} configurations announced, product of the controller sizes is {n_expected} '
                     f'({ {k: len(v) for k, v in m.order.items()} })')
        the_set = _guard(res, 'set_of_configurations', expression.set_of_configurations)
        if the_set is None:
            out.fail('identifiers:count:no_set', f'no set of configurations for {n_expected} <= {MAX_SET} configurations')
            return out
        as_dicts = [conf_dict(c) for c in the_set]
        if any(d is None for d in as_dicts):
            out.fail('identifiers:set:duplicate_controller', 'a configuration lists a controller twice')
            return out
        got = {frozenset(d.items()) for d in as_dicts}
        if len(the_set) != n_expected or len(got) != len(the_set):
            out.fail('identifiers:count:set_size',
                     f'{len(the_set)} configurations ({len(got)} distinct) for a product of {n_expected}')
        if got != expected:
            extra = [dict(x) for x in list(got - expected)[:2]]
            missing = [dict(x) for x in list(expected - got)[:2]]
            out.fail('identifiers:set:content', f'set of configurations: unexpected {extra}, missing {missing}')

        # identifiers
        sids = {}
        perm = spec.get('perm', 0)
        for i, conf in enumerate(sorted(the_set, key=lambda c: sorted(conf_dict(c).items()))):
            d = conf_dict(conf)
            sid = _guard(res, 'get_string_id', conf.get_string_id)
            if not isinstance(sid, str) or parse_id(sid) != d:
                out.fail('identifiers:string:format', f'identifier {sid!r} does not spell {d}')
                break
            sids.setdefault(sid, []).append(d)
            back = _guard(res, 'from_string', bconf.Configuration.from_string, sid)
            if conf_dict(back) != d or not (back == conf) or back.get_string_id() != sid or hash(back) != hash(conf):
                out.fail('identifiers:round_trip:from_string',
                         f'from_string({sid!r}) gives {conf_dict(back)} / {back.get_string_id()!r}, '
                         f'equal={back == conf}')
                break
            for how in (0, 1, 2):
                other = _guard(res, ('from_dict', 'ctor', 'from_string')[how], make_configuration, d, perm + i, how)
                if other.get_string_id() != sid or not (other == conf) or hash(other) != hash(conf) \
                        or conf_dict(other) != d:
                    out.fail('identifiers:order:' + ('from_dict', 'selection_list', 'permuted_string')[how],
                             f'choices {d} listed in another order give {other.get_string_id()!r} instead of {sid!r}')
                    break
            if out.failures:
                break
            if other not in the_set:
                out.fail('identifiers:order:set_membership', f'{other.get_string_id()!r} built from {d} is not found in the set')
                break
        if len(sids) != len(the_set) and not out.failures:
            clash = next(v for v in sids.values() if len(v) > 1)
            out.fail('identifiers:string:not_unique', f'configurations {clash[:2]} share one identifier')

        # iteration
        visited = []
        iterator = _guard(res, 'iter', iter, expression)
        while True:
            try:
                e = _guard(res, 'next', next, iterator)
            except StopIteration:
                break
            if len(visited) > n_expected + 2:
                out.fail('identifiers:iteration:endless', f'more than {n_expected} + 2 steps')
                break
            current = conf_dict(_guard(res, 'current_configuration', e.current_configuration))
            visited.append(frozenset(current.items()))
            wrong = [s for s in shown(cats) if s[2] != current.get(s[1])]
            if wrong and not any(f.key.startswith('identifiers:iteration:shown') for f in out.failures):
                out.fail('identifiers:iteration:shown',
                         f'while iterating at {current}: catalog {wrong[0][0]!r} (controller {wrong[0][1]!r}) '
                         f'shows {wrong[0][2]!r}')
        if len(visited) != len(set(visited)):
            out.fail('identifiers:iteration:repeats', f'{len(visited)} steps but {len(set(visited))} distinct configurations')
        if set(visited) != expected:
            miss = [dict(x) for x in list(expected - set(visited))[:2]]
            out.fail('identifiers:iteration:coverage',
                     f'iteration visited {len(set(visited))} of {n_expected} configurations; e.g. missing {miss}')
    except _Stop:
        e = res['error']
        out.fail(f'identifiers:{e["stage"]}:raises:{e["type"]}',
                 f'{e["stage"]} raised {e["type"]}: {e["msg"]} for {render(spec)[:300]}')
    return out


# ---------------------------------------------------------------------------------------------
# operators: the model


def several_feasible(deltas, sizes, count):
    """Can `count` unit moves produce offsets deltas (mod sizes)?  m_c = delta_c + t_c * size_c."""
    rest = count - sum(deltas)
    if rest < 0:
        return False
    reach = {0}
    for s in set(sizes):
        new = set(reach)
        for r in reach:
            k = r + s
            while k <= rest:
                new.add(k)
                k += s
        reach = new
    return rest in reach


def expected_operator_names(m):
    """name -> descriptor, for the names that identify one operator only."""
    table = {}
    clash = set()

    def put(name, desc):
        if name in table:
            clash.add(name)
        table[name] = desc

    for n in m.names:
        put(f'Increase {n}', ['inc', n])
        put(f'Decrease {n}', ['dec', n])
    for a in m.names:
        for b_ in m.names:
            if a != b_:
                for d in ('NE', 'NW', 'SE', 'SW'):
                    put(f'Pair_{a}_{b_}_{d}', ['pair', a, b_, d])
    put('Increase_several', ['several', True])
    put('Decrease_several', ['several', False])
    for c in clash:
        del table[c]
    return table, clash


def judge_operator_result(out, m, desc, name, start, step, new, count, prefix):
    """One application: validity for every operator, the documented move for recognised ones."""
    if not m.valid(new):
        out.fail(f'{prefix}:closure:{desc[0] if desc else "unknown"}',
                 f'operator {name!r} with step {step} maps {start} to {new}, which is not a configuration '
                 f'of {m.order}')
        return False
    if desc is None:
        return True
    i0, i1 = m.index(start), m.index(new)
    size = {n: len(m.order[n]) for n in m.names}
    if desc[0] in ('inc', 'dec', 'pair'):
        move = {n: 0 for n in m.names}
        if desc[0] == 'inc':
            move[desc[1]] += step
        elif desc[0] == 'dec':
            move[desc[1]] -= step
        else:
            move[desc[1]] += step if desc[3][1] == 'E' else -step
            move[desc[2]] += step if desc[3][0] == 'N' else -step
        want = {n: (i0[n] + move[n]) % size[n] for n in m.names}
        if want != i1:
            others = [n for n in m.names if move[n] == 0 and i1[n] != i0[n]]
            what = 'touches_other_controller' if others else 'shift'
            out.fail(f'{prefix}:{desc[0]}:{what}',
                     f'operator {name!r} with step {step} maps {start} to {new}; the documented move gives '
                     f'{ {n: m.order[n][want[n]] for n in m.names} } (sizes {size})')
            return False
        return True
    # several
    increase = desc[1]
    if not isinstance(count, int) or count < 0 or count > step:
        out.fail(f'{prefix}:several:count', f'operator {name!r} with step {step} reports {count!r} modifications')
        return False
    deltas = [((i1[n] - i0[n]) if increase else (i0[n] - i1[n])) % size[n] for n in m.names]
    if not several_feasible(deltas, [size[n] for n in m.names], count):
        opposite = [(-d) % size[n] for d, n in zip(deltas, m.names)]
        wrong_way = several_feasible(opposite, [size[n] for n in m.names], count)
        out.fail(f'{prefix}:{name}:' + ('direction' if wrong_way else 'move'),
                 f'operator {name!r} with step {step} (reports {count} modifications) maps {start} to {new}: '
                 f'offsets {dict(zip(m.names, [(i1[n] - i0[n]) % size[n] for n in m.names]))} (sizes {size}) '
                 f'cannot come from {count} unit ' + ('increases' if increase else 'decreases')
                 + ('; they are what the same number of moves the other way gives' if wrong_way else ''))
        return False
    return True


def descriptor_for_step(m, step):
    """History entry -> (operator name, step, seed)."""
    kind = step[0]
    n = len(m.names)
    if kind in ('inc', 'dec'):
        c = m.names[step[1] % n]
        return ('Increase ' if kind == 'inc' else 'Decrease ') + c, step[2], 0
    if kind == 'pair':
        if n < 2:
            return 'Increase ' + m.names[0], step[4], 0
        a = step[1] % n
        b_ = (a + 1 + step[2] % (n - 1)) % n
        return f'Pair_{m.names[a]}_{m.names[b_]}_{step[3]}', step[4], 0
    return ('Increase_several' if step[1] else 'Decrease_several'), step[2], step[3]


def call_operator(res, operators, name, cfg, step, seed, perm=0):
    """Apply a real operator under a seeded global RNG; returns (dict, count)."""
    state = random.getstate()
    try:
        random.seed(seed)
        np.random.seed(seed % (2 ** 31))
        conf = make_configuration(cfg, perm, how=seed + step)
        new, count = _guard(res, f'operator', operators[name], current_config=conf, step=step)
    finally:
        random.setstate(state)
    return conf_dict(new), count


# ---------------------------------------------------------------------------------------------
# sub-check 2: operators (pure Python, in-process)


def judge_operators(spec) -> Outcome:
    out = Outcome()
    prep = prepare(spec, out, 'operators')
    if prep is None:
        return out
    m, expression, cats = prep
    res = {}
    n_calls = 0
    try:
        central = _guard(res, 'set_central_controller', expression.set_central_controller)
        operators = _guard(res, 'prepare_operators', central.prepare_operators)
        table, clash = expected_operator_names(m)
        if clash:
            out.classes.append('operator_names_clash')
        missing = sorted(set(table) - set(operators))
        if missing:
            out.fail('operators:missing', f'prepare_operators lacks {missing[:3]} for controllers {m.names}')
        the_set = _guard(res, 'set_of_configurations', expression.set_of_configurations) \
            if m.size() <= MAX_SET else None
        known_ids = None if the_set is None else {frozenset(conf_dict(c).items()) for c in the_set}

        def apply(name, cfg, step, seed):
            nonlocal n_calls
            n_calls += 1
            new, count = call_operator(res, operators, name, cfg, step, seed, perm=spec.get('perm', 0))
            desc = table.get(name)
            ok = judge_operator_result(out, m, desc, name, cfg, step, new, count, 'operator')
            if ok and known_ids is not None and frozenset(new.items()) not in known_ids:
                out.fail('operators:closure:not_in_set', f'{name!r} gives {new}, absent from set_of_configurations')
                ok = False
            if desc is not None:
                out.classes.append('op:' + (desc[0] if desc[0] != 'several' else name))
            return new if ok else None

        # (a) every operator once from a chosen start
        start = m.config_from_indices(spec['start'])
        for name in sorted(operators):
            apply(name, start, spec['sweep_step'], spec['seed'])
        # (b) increase then decrease (and back) on every controller
        for n in m.names:
            k = spec['sweep_step']
            up = apply(f'Increase {n}', start, k, 0) if f'Increase {n}' in operators else None
            if up is not None and f'Decrease {n}' in operators:
                back = apply(f'Decrease {n}', up, k, 0)
                if back is not None and back != start:
                    out.fail('operators:inverse:increase_then_decrease',
                             f'controller {n!r} (size {len(m.order[n])}) step {k}: {start} -> {up} -> {back}')
            down = apply(f'Decrease {n}', start, k, 0) if f'Decrease {n}' in operators else None
            if down is not None and f'Increase {n}' in operators:
                back = apply(f'Increase {n}', down, k, 0)
                if back is not None and back != start:
                    out.fail('operators:inverse:decrease_then_increase',
                             f'controller {n!r} (size {len(m.order[n])}) step {k}: {start} -> {down} -> {back}')
        # (c) a history
        cur = start
        for step in spec['history']:
            if step[0] == 'set':
                cur = m.config_from_indices(step[1])
                continue
            name, k, seed = descriptor_for_step(m, step)
            if name not in operators:
                continue
            new = apply(name, cur, k, seed)
            if new is None:
                break
            # the formula can be put into the configuration an operator returns
            _guard(res, 'configure_catalogs', expression.configure_catalogs, make_configuration(new, seed, k))
            wrong = [s for s in shown(cats) if s[2] != new[s[1]]]
            if wrong:
                out.fail('operators:configure:shown',
                         f'after {name!r}: catalog {wrong[0][0]!r} shows {wrong[0][2]!r} under {new}')
                break
            cur = new
    except _Stop:
        e = res['error']
        out.fail(f'operators:{e["stage"]}:raises:{e["type"]}',
                 f'{e["stage"]} raised {e["type"]}: {e["msg"]} for {render(spec)[:300]}')
    out.evaluations = max(1, n_calls)
    return out


# ---------------------------------------------------------------------------------------------
# sub-check 3: selecting a configuration (engine in a forked child)


def _observe_selection(spec):
    res = dict(steps=[])
    m = Model(spec)
    try:
        database = build.build_database(spec['table'])
        b = CatalogBuilder(spec)
        expression = _guard(res, 'build', b.build, spec['root'])
        cats = real_catalogs(expression)
        res['orders'] = {c.controlled_by.controller_name: list(c.controlled_by.specification_names) for c in cats}
        for n in m.names:
            if m.kind[n] != 'helper':
                continue  # the parent has compared these with the model, in order
            if n in res['orders'] and sorted(res['orders'][n]) == sorted(m.order[n]):
                m.order[n] = res['orders'][n]
            else:
                res['structure_mismatch'] = True
                return res
        operators = None
        betas = spec['betas'] or None
        cur = None
        for step in spec['history']:
            rec = dict(kind=step[0])
            res['steps'].append(rec)
            if step[0] == 'set':
                cur = m.config_from_indices(step[1])
                conf = make_configuration(cur, step[2], step[3])
            else:
                if cur is None:
                    cur = m.config_from_indices([0])
                if operators is None:
                    central = _guard(res, 'set_central_controller', expression.set_central_controller)
                    operators = _guard(res, 'prepare_operators', central.prepare_operators)
                name, k, seed = descriptor_for_step(m, step)
                rec.update(name=name, step=k, start=dict(cur))
                if name not in operators:
                    rec['missing'] = True
                    continue
                new, count = call_operator(res, operators, name, cur, k, seed)
                rec.update(new=new, count=count if isinstance(count, int) else repr(count))
                if not m.valid(new):
                    return res
                cur = new
                conf = make_configuration(cur, seed, k)
            rec['cfg'] = dict(cur)
            _guard(res, 'configure_catalogs', expression.configure_catalogs, conf)
            rec['current'] = conf_dict(_guard(res, 'current_configuration', expression.current_configuration))
            rec['shown'] = shown(cats)
            plain = m.substitute(spec['root'], cur)
            rec['value'] = np.asarray(_guard(
                res, 'get_value_c', expression.get_value_c, database=database, betas=betas,
                prepare_ids=True), dtype=float).tolist()
            hand = build.Builder(overloads=bool(spec.get('overloads'))).build(plain)
            rec['hand'] = np.asarray(hand.get_value_c(database=database, betas=betas, prepare_ids=True),
                                     dtype=float).tolist()
            try:
                rec['python'] = float(expression.get_value())
            except Exception as exc:  # noqa
                rec['python_exc'] = (type(exc).__name__, type(exc).__module__, str(exc)[:200])
            if not any(n[0] == 'Var' for n in refsem.walk(plain)):
                rec['no_database'] = float(_guard(res, 'get_value_c(no database)', expression.get_value_c,
                                                  betas=betas, prepare_ids=True))
    except _Stop:
        pass
    return res


def _tol(ev):
    return 16 * ev.e + 1e-12 * (1 + abs(ev.v))


def _reference(spec, plain, betas):
    rows = build.table_rows(spec['table'])
    vals = []
    for r in rows:
        v = refsem.evaluate(plain, refsem.Env(row=r, betas=betas), refsem.EVAlg())
        if v.e > 1e-7 * (1 + abs(v.v)):
            raise refsem.IllPosed('error bound too large')
        vals.append(v)
    return vals


def _same(a, b_):
    return len(a) == len(b_) and all(
        x == y or (math.isnan(x) and math.isnan(y)) for x, y in zip(a, b_))


def judge_selection(spec) -> Outcome:
    out = Outcome()
    prep = prepare(spec, out, 'selection')  # model, structural comparison (pure Python, in-process)
    if prep is None:
        return out
    m = prep[0]
    r = isolate.call(_observe_selection, spec)
    if not r['ok']:
        out.fail(f'selection:child:raises:{r["exc_type"]}',
                 f'{r["exc_type"]}: {(r["exc_msg"] or "")[:300]} for {render(spec)[:300]}')
        return out
    obs = r['value']
    if obs.get('structure_mismatch') or (
            'orders' in obs and any(obs['orders'].get(n) != m.order[n] for n in m.names)):
        out.fail('selection:structure', f'controllers in the child {obs.get("orders")} vs {m.order}')
        return out
    judged = 0
    free_of_vars = False
    for i, rec in enumerate(obs['steps']):
        if rec['kind'] != 'set':
            if rec.get('missing'):
                continue
            if 'new' not in rec:
                break  # the error entry below names the stage
            desc = expected_operator_names(m)[0].get(rec['name'])
            if not judge_operator_result(out, m, desc, rec['name'], rec['start'], rec['step'], rec['new'],
                                         rec['count'], 'operator'):
                break
        if 'cfg' not in rec or 'current' not in rec:
            break
        cfg = rec['cfg']
        out.evaluations += 1
        if rec['current'] != cfg:
            out.fail('selection:current_configuration',
                     f'after configure_catalogs({cfg}) the formula reports {rec["current"]}')
        if 'shown' not in rec:
            break
        wrong = [s for s in rec['shown'] if s[2] != cfg[s[1]]]
        if wrong:
            out.fail('selection:shown',
                     f'after configure_catalogs({cfg}): catalog {wrong[0][0]!r} governed by {wrong[0][1]!r} '
                     f'shows member {wrong[0][2]!r}')
        if 'value' not in rec or 'hand' not in rec:
            break
        plain = m.substitute(spec['root'], cfg)
        label = f'step {i} {cfg} of {render(spec)[:400]}'
        if not _same(rec['value'], rec['hand']):
            out.fail('selection:value:differs_from_hand_written',
                     f'engine value {rec["value"]} of the configured formula vs {rec["hand"]} of the formula '
                     f'written out by hand ({refsem.render(plain)[:300]}); {label}')
        try:
            ref = _reference(spec, plain, spec['betas'])
        except (refsem.IllPosed, OverflowError):
            out.classes.append('step_ill_posed')
            continue
        judged += 1
        if len(ref) != len(rec['value']) or any(
                not (math.isfinite(g) and abs(g - ev.v) <= _tol(ev)) for g, ev in zip(rec['value'], ref)):
            out.fail('selection:value:reference',
                     f'engine value {rec["value"]} vs reference {[ev.v for ev in ref]} of '
                     f'{refsem.render(plain)[:300]}; {label}')
        if 'no_database' in rec:
            free_of_vars = True
            if not abs(rec['no_database'] - ref[0].v) <= _tol(ref[0]):
                out.fail('selection:value:no_database',
                         f'get_value_c without database {rec["no_database"]!r} vs reference {ref[0].v!r}; {label}')
        if 'python' in rec:
            out.classes.append('python_accepts')
            try:
                pref = _reference(spec, plain, {})
            except (refsem.IllPosed, OverflowError):
                continue
            if not any(n[0] == 'Var' for n in refsem.walk(plain)) and not (
                    math.isfinite(rec['python']) and abs(rec['python'] - pref[0].v) <= _tol(pref[0])):
                out.fail('selection:python:value',
                         f'get_value() {rec["python"]!r} vs reference {pref[0].v!r} (initial parameter values) '
                         f'of {refsem.render(plain)[:300]}; {label}')
        elif 'python_exc' in rec:
            t, mod, msg = rec['python_exc']
            out.classes.append(f'python_refuses:{t}')
            if t not in ('BiogemeError', 'NotImplementedError') or not mod.startswith('biogeme'):
                out.fail(f'selection:python:refusal_type:{t}', f'get_value() raised {mod}.{t}: {msg}; {label}')
    if 'error' in obs:
        e = obs['error']
        where = 'formula_is_a_catalog:' if spec['root'][0] in ('Cat', 'Seg', 'Gas') else ''
        out.fail(f'selection:{where}{e["stage"]}:raises:{e["type"]}',
                 f'{e["stage"]} raised {e["type"]}: {e["msg"]} at step {len(obs["steps"]) - 1} of {render(spec)[:400]}')
    if free_of_vars:
        out.classes.append('variable_free')
    if judged == 0 and not out.failures:
        out.skipped = 'ill-posed: no step with a well-posed reference value'
    return out


# ---------------------------------------------------------------------------------------------
# sub-check 4: operations that go THROUGH the catalogs to the selected members
#
# operations of spec['ops'] (documented behaviour on any formula, hence on the hand-written one):
#   ['init', {name: value}]                    change_init_values: every parameter named gets the value,
#                                              free or fixed
#   ['fix', {name: value}, prefix, suffix]     fix_betas: value, status fixed, name with the affixes
#   ['rename', [names], prefix, suffix]        rename_elementary: name with the affixes

OP_NAMES = dict(init='change_init_values', fix='fix_betas', rename='rename_elementary')


def map_betas(plain, f):
    if plain[0] == 'Beta':
        return f(plain)
    return xmap(plain, lambda s_: map_betas(s_, f))


def _affixed(name, prefix, suffix):
    return f'{prefix or ""}{name}{suffix or ""}'


def model_apply(plain, op):
    """The catalog-free formula after the operation, written by hand."""
    kind = op[0]
    if kind == 'init':
        return map_betas(plain, lambda b: [b[0], b[1], op[1][b[1]], b[3], b[4], b[5]] if b[1] in op[1] else b)
    if kind == 'fix':
        return map_betas(plain, lambda b: ['Beta', _affixed(b[1], op[2], op[3]), op[1][b[1]], b[3], b[4], 1]
                         if b[1] in op[1] else b)
    if kind == 'rename':
        return map_betas(plain, lambda b: ['Beta', _affixed(b[1], op[2], op[3]), b[2], b[3], b[4], b[5]]
                         if b[1] in op[1] else b)
    raise ValueError(f'C16 spec: unknown operation {kind!r}')


def model_state(plain):
    """What the hand-written formula says about its elementary expressions."""
    params = {}
    for n in refsem.walk(plain):
        if n[0] == 'Beta':
            params[n[1]] = [float(n[2]), 0 if n[5] == 0 else 1]
    return dict(
        params=params,
        free=sorted(k for k, v in params.items() if v[1] == 0),
        fixed=sorted(k for k, v in params.items() if v[1] != 0),
        variables=sorted({n[1] for n in refsem.walk(plain) if n[0] == 'Var'}),
        beta_values={k: v[0] for k, v in params.items() if v[1] == 0},
    )


def evaluation_betas(spec, plain):
    """The dictionary handed over at evaluation time: free parameters of the formula only (the
    documented meaning of `betas`) and names foreign to the formula."""
    fixed = set(model_state(plain)['fixed'])
    return {k: v for k, v in spec['eval_betas'].items() if k not in fixed}


def library_apply(obj, op):
    if op[0] == 'init':
        obj.change_init_values(dict(op[1]))
    elif op[0] == 'fix':
        obj.fix_betas(dict(op[1]), prefix=op[2], suffix=op[3])
    else:
        obj.rename_elementary(list(op[1]), prefix=op[2], suffix=op[3])


def _snapshot(res, who, obj, database, engine, betas, probe):
    """Plain data describing one formula object (the configured one or the hand-written one)."""
    T = bexpr.TypeOfElementaryExpression
    g = lambda stage, fn, *a, **kw: _guard(res, f'{who}:{stage}', fn, *a, **kw)  # noqa: E731
    snap = dict(
        free=sorted(g('set_of_elementary_expression', obj.set_of_elementary_expression, T.FREE_BETA)),
        fixed=sorted(g('set_of_elementary_expression', obj.set_of_elementary_expression, T.FIXED_BETA)),
        variables=sorted(g('set_of_elementary_expression', obj.set_of_elementary_expression, T.VARIABLE)),
        beta_values={k: float(v) for k, v in g('get_beta_values', obj.get_beta_values).items()},
    )
    params = g('dict_of_elementary_expression', obj.dict_of_elementary_expression, T.BETA)
    snap['params'] = {k: [float(b.initValue), 0 if b.status == 0 else 1, b.name] for k, b in params.items()}
    found = {}
    for name in probe:
        e = g('get_elementary_expression', obj.get_elementary_expression, name)
        found[name] = None if e is None else [type(e).__name__, e.name]
    snap['found'] = found
    try:
        snap['python'] = float(obj.get_value())
    except Exception as exc:  # noqa
        snap['python_exc'] = [type(exc).__name__, type(exc).__module__, str(exc)[:200]]
    if engine:
        snap['value'] = np.asarray(g('get_value_c', obj.get_value_c, database=database, betas=None,
                                     prepare_ids=True), dtype=float).tolist()
        if betas is not None:
            snap['value_betas'] = np.asarray(g('get_value_c(betas)', obj.get_value_c, database=database,
                                               betas=dict(betas), prepare_ids=True), dtype=float).tolist()
    return snap


def _op_probe_names(spec):
    names = set(spec['eval_betas'])
    for op in spec['ops']:
        names |= set(op[1])
        if op[0] != 'init':
            names |= {_affixed(n, op[2], op[3]) for n in op[1]}
    return sorted(names)


def _observe_through(spec):
    res = dict(points=[])
    m = Model(spec)
    try:
        database = build.build_database(spec['table'])
        b = CatalogBuilder(spec)
        expression = _guard(res, 'build', b.build, spec['root'])
        cats = real_catalogs(expression)
        res['orders'] = {c.controlled_by.controller_name: list(c.controlled_by.specification_names) for c in cats}
        for n in m.names:
            if m.kind[n] != 'helper':
                continue  # the parent has compared these with the model, in order
            if n in res['orders'] and sorted(res['orders'][n]) == sorted(m.order[n]):
                m.order[n] = res['orders'][n]
            else:
                res['structure_mismatch'] = True
                return res
        cur = None
        for step in spec['sets']:
            cur = m.config_from_indices(step[1])
            _guard(res, 'configure_catalogs', expression.configure_catalogs,
                   make_configuration(cur, step[2], step[3]))
        res['cfg'] = dict(cur)
        res['current'] = conf_dict(_guard(res, 'current_configuration', expression.current_configuration))
        res['shown'] = shown(cats)
        plain = m.substitute(spec['root'], cur)
        hand = build.Builder(overloads=bool(spec.get('overloads'))).build(plain)
        probe = _op_probe_names(spec)
        point = dict(op=None)
        res['points'].append(point)
        point['real'] = _snapshot(res, 'configured', expression, database, False, None, probe)
        point['hand'] = _snapshot(res, 'hand_written', hand, database, False, None, probe)
        for i, op in enumerate(spec['ops']):
            point = dict(op=op[0])
            res['points'].append(point)
            name = OP_NAMES[op[0]]
            _guard(res, name, library_apply, expression, op)
            _guard(res, f'hand_written:{name}', library_apply, hand, op)
            plain = model_apply(plain, op)
            betas = evaluation_betas(spec, plain) if i == len(spec['ops']) - 1 else None
            point['real'] = _snapshot(res, name, expression, database, True, betas, probe)
            point['hand'] = _snapshot(res, f'hand_written:{name}', hand, database, True, betas, probe)
            # the formula the harness writes by hand for the state AFTER the operation, untouched by
            # any library operation
            fresh = build.Builder(overloads=bool(spec.get('overloads'))).build(plain)
            point['fresh'] = np.asarray(fresh.get_value_c(database=database, betas=None, prepare_ids=True),
                                        dtype=float).tolist()
    except _Stop:
        pass
    return res


def _reference_or_none(spec, plain, betas):
    try:
        return _reference(spec, plain, betas)
    except (refsem.IllPosed, OverflowError):
        return None


def _close(values, ref):
    return len(ref) == len(values) and all(
        math.isfinite(g) and abs(g - ev.v) <= _tol(ev) for g, ev in zip(values, ref))


def judge_through(spec) -> Outcome:
    out = Outcome()
    prep = prepare(spec, out, 'through')  # model, structural comparison (pure Python, in-process)
    if prep is None:
        return out
    m = prep[0]
    out.nontrivial = False
    r = isolate.call(_observe_through, spec)
    if not r['ok']:
        out.fail(f'through:child:raises:{r["exc_type"]}',
                 f'{r["exc_type"]}: {(r["exc_msg"] or "")[:300]} for {render(spec)[:300]}')
        return out
    obs = r['value']
    if obs.get('structure_mismatch') or (
            'orders' in obs and any(obs['orders'].get(n) != m.order[n] for n in m.names)):
        out.fail('through:structure', f'controllers in the child {obs.get("orders")} vs {m.order}')
        return out
    if 'cfg' in obs and 'shown' in obs:
        cfg = obs['cfg']
        if not m.valid(cfg) or cfg != m.config_from_indices(spec['sets'][-1][1]):
            raise RuntimeError(f'C16 harness: child configuration {cfg} is not the one of the spec')
        if obs['current'] != cfg:
            out.fail('through:current_configuration',
                     f'after configure_catalogs({cfg}) the formula reports {obs["current"]}')
        wrong = [s_ for s_ in obs['shown'] if s_[2] != cfg[s_[1]]]
        if wrong:
            out.fail('through:shown', f'after configure_catalogs({cfg}): catalog {wrong[0][0]!r} governed by '
                                      f'{wrong[0][1]!r} shows member {wrong[0][2]!r}')
        reach = m.reached(spec['root'], cfg)
        for kind, _ in sorted(reach['bare'], key=repr):
            out.classes.append(f'selected_member:bare_{kind}')
        bare_betas = {n for kind, n in reach['bare'] if kind == 'Beta'}
        plain = m.substitute(spec['root'], cfg)
        label = f'{cfg} of {render(spec)[:500]}'
        hits_through = False
        for i, point in enumerate(obs['points']):
            if 'real' not in point or 'hand' not in point:
                break  # the error entry below names the stage
            opname = 'configured'
            if i > 0:
                op = spec['ops'][i - 1]
                opname = OP_NAMES[op[0]]
                before = model_state(plain)
                plain = model_apply(plain, op)
                touched = {n for n in op[1] if n in before['params'] and (
                    op[0] != 'init' or before['params'][n][0] != float(op[1][n]))
                    and (op[0] != 'rename' or op[2] is not None or op[3] is not None)}
                # `reach` speaks of the names before any renaming: follow them
                if touched & bare_betas:
                    out.classes.append(f'{opname}:changes_bare_member')
                if touched & reach['through']:
                    hits_through = True
                    out.classes.append(f'{opname}:changes_selected_member')
                elif touched:
                    out.classes.append(f'{opname}:changes_outside_catalogs')
                else:
                    out.classes.append(f'{opname}:changes_nothing')
                if op[0] != 'init':
                    ren = lambda n, op=op: _affixed(n, op[2], op[3]) if n in op[1] else n  # noqa: E731
                    bare_betas = {ren(n) for n in bare_betas}
                    reach['through'] = {ren(n) for n in reach['through']}
            out.evaluations += 1
            want = model_state(plain)
            where = f'after {[list(o) for o in spec["ops"][:i]]} on {label}'
            for who, snap, prefix in (('the formula with catalogs', point['real'], f'through:{opname}'),
                                      ('the formula written out by hand', point['hand'],
                                       f'through:hand_written:{opname}')):
                for field, key in (('free', 'free_parameters'), ('fixed', 'fixed_parameters'),
                                   ('variables', 'variables'), ('beta_values', 'get_beta_values')):
                    if snap[field] != want[field]:
                        out.fail(f'{prefix}:{key}', f'{who}: {key} {snap[field]}, expected {want[field]}; {where}')
                got = {k: v[:2] for k, v in snap['params'].items()}
                if got != want['params'] or any(k != v[2] for k, v in snap['params'].items()):
                    out.fail(f'{prefix}:parameters',
                             f'{who}: parameters (value, fixed) {snap["params"]}, expected {want["params"]}; {where}')
                for name, e in snap['found'].items():
                    expected = ['Beta', name] if name in want['params'] else (
                        ['Variable', name] if name in want['variables'] else None)
                    if e != expected:
                        out.fail(f'{prefix}:get_elementary_expression',
                                 f'{who}: get_elementary_expression({name!r}) gives {e}, expected {expected}; {where}')
                        break
            real, hand = point['real'], point['hand']
            # Python-side evaluation: same answer, or the same refusal
            if ('python' in real) != ('python' in hand) or (
                    'python' in real and not _same([real['python']], [hand['python']])) or (
                    'python_exc' in real and real['python_exc'][0] != hand['python_exc'][0]):
                out.fail(f'through:{opname}:python:differs_from_hand_written',
                         f'get_value(): {real.get("python", real.get("python_exc"))} vs '
                         f'{hand.get("python", hand.get("python_exc"))} of the formula written out by hand; {where}')
            if 'python' in hand and 'python' in real and not want['variables']:
                pref = _reference_or_none(spec, plain, {})
                if pref is not None and not _close([real['python']], pref[:1]):
                    out.fail(f'through:{opname}:python:value',
                             f'get_value() {real["python"]!r} vs reference {pref[0].v!r} of '
                             f'{refsem.render(plain)[:300]}; {where}')
            if i == 0:
                continue
            if 'value' not in real or 'value' not in hand or 'fresh' not in point:
                break
            if not _same(real['value'], hand['value']):
                out.fail(f'through:{opname}:value:differs_from_hand_written',
                         f'engine value {real["value"]} of the configured formula vs {hand["value"]} of the '
                         f'formula written out by hand ({refsem.render(plain)[:300]}), both after the same '
                         f'operations; {where}')
            if not _same(hand['value'], point['fresh']):
                out.fail(f'through:hand_written:{opname}:value',
                         f'catalog-free formula after the operation evaluates to {hand["value"]}, the same '
                         f'formula written with the new values {refsem.render(plain)[:300]} to {point["fresh"]}; {where}')
            ref = _reference_or_none(spec, plain, {})
            if ref is None:
                out.classes.append('step_ill_posed')
            elif not _close(real['value'], ref):
                out.fail(f'through:{opname}:value:reference',
                         f'engine value {real["value"]} vs reference {[ev.v for ev in ref]} of '
                         f'{refsem.render(plain)[:300]}; {where}')
            if i == len(spec['ops']):
                if 'value_betas' not in real or 'value_betas' not in hand:
                    break
                betas = evaluation_betas(spec, plain)
                out.classes.append('evaluation_betas:' + (
                    'names_selected_member' if set(betas) & reach['through'] else
                    'names_formula' if set(betas) & set(want['params']) else 'foreign_only'))
                if not _same(real['value_betas'], hand['value_betas']):
                    out.fail('through:value_with_betas:differs_from_hand_written',
                             f'engine value with betas={betas}: {real["value_betas"]} vs {hand["value_betas"]} of '
                             f'the formula written out by hand; {where}')
                ref = _reference_or_none(spec, plain, betas)
                if ref is not None and not _close(real['value_betas'], ref):
                    out.fail('through:value_with_betas:reference',
                             f'engine value with betas={betas}: {real["value_betas"]} vs reference '
                             f'{[ev.v for ev in ref]} of {refsem.render(plain)[:300]}; {where}')
        out.nontrivial = bool(hits_through and m.size() >= 2)
    if 'error' in obs:
        e = obs['error']
        out.fail(f'through:{e["stage"]}:raises:{e["type"]}',
                 f'{e["stage"]} raised {e["type"]}: {e["msg"]} at point {len(obs["points"]) - 1} of {render(spec)[:400]}')
    return out


# ---------------------------------------------------------------------------------------------
# sub-check 5: several formulas over shared catalog objects, explored one after the other
#
# spec['roots'] = 2-3 formulas, each a fresh composite tree over catalog / helper objects of ONE structure (some
# objects common to several formulas, some not); spec['fhistory'] = steps, f = formula number
#   ['count', f]                      number_of_multiple_expressions
#   ['set', f]                        set_of_configurations
#   ['iterate', f]                    iteration
#   ['ids', f, perm]                  every identifier of the formula's OWN product: configure_catalogs accepts it
#   ['configure', f, idx, perm, how]  configure_catalogs + value against the formula's own hand-substituted version


def formula_spec(spec, f):
    sub = dict(spec)
    sub['root'] = spec['roots'][f % len(spec['roots'])]
    return sub


def _adopt_orders(m, expression):
    cats = real_catalogs(expression)
    orders = {c.controlled_by.controller_name: list(c.controlled_by.specification_names) for c in cats}
    for n in m.names:
        if m.kind[n] != 'helper':
            continue  # the parent has compared these with the model, in order
        if n in orders and sorted(orders[n]) == sorted(m.order[n]):
            m.order[n] = orders[n]
        else:
            return None
    return cats, orders


def _observe_formulas(spec):
    res = dict(steps=[], orders={})
    nf = len(spec['roots'])
    models = [Model(formula_spec(spec, f)) for f in range(nf)]
    exprs, cats = {}, {}
    try:
        database = build.build_database(spec['table'])
        b = CatalogBuilder(spec)  # ONE builder: the formulas share the catalog objects
        betas = spec['betas'] or None

        def formula(f):
            if f not in exprs:
                e = _guard(res, 'build', b.build, spec['roots'][f])
                got = _adopt_orders(models[f], e)
                if got is None:
                    res['structure_mismatch'] = f
                    raise _Stop()
                cats[f], res['orders'][f] = got
                exprs[f] = e
            return exprs[f]

        if not spec['lazy']:
            for f in range(nf):
                formula(f)
        for step in spec['fhistory']:
            kind, f = step[0], step[1] % nf
            rec = dict(kind=kind, f=f)
            res['steps'].append(rec)
            e, m = formula(f), models[f]
            if kind == 'count':
                rec['n'] = _guard(res, 'number_of_multiple_expressions', e.number_of_multiple_expressions)
            elif kind == 'set':
                the_set = _guard(res, 'set_of_configurations', e.set_of_configurations)
                rec['set'] = None if the_set is None else sorted(
                    ([conf_dict(c), c.get_string_id()] for c in the_set), key=lambda x: x[1])
            elif kind == 'iterate':
                rec['visited'] = visited = []
                iterator = _guard(res, 'iter', iter, e)
                while True:
                    try:
                        x = _guard(res, 'next', next, iterator)
                    except StopIteration:
                        break
                    if len(visited) > m.size() + 2:
                        rec['endless'] = True
                        break
                    current = conf_dict(_guard(res, 'current_configuration', x.current_configuration))
                    visited.append([current, shown(cats[f])])
            elif kind == 'ids':
                rec['ids'] = rows = []
                for i, cfg in enumerate(m.all_configs()):
                    sid = ';'.join(f'{c}:{s}' for c, s in sorted(cfg.items()))
                    rec['at'] = sid
                    conf = bconf.Configuration.from_string(sid) if (step[2] + i) % 2 == 0 else \
                        make_configuration(cfg, step[2] + i, (step[2] + i) // 2)
                    _guard(res, 'configure_catalogs(own identifier)', e.configure_catalogs, conf)
                    current = conf_dict(_guard(res, 'current_configuration', e.current_configuration))
                    rows.append([cfg, current, shown(cats[f])])
            elif kind == 'configure':
                cfg = m.config_from_indices(step[2])
                rec['cfg'] = dict(cfg)
                _guard(res, 'configure_catalogs', e.configure_catalogs, make_configuration(cfg, step[3], step[4]))
                rec['current'] = conf_dict(_guard(res, 'current_configuration', e.current_configuration))
                rec['shown'] = shown(cats[f])
                plain = m.substitute(spec['roots'][f], cfg)
                rec['value'] = np.asarray(_guard(res, 'get_value_c', e.get_value_c, database=database, betas=betas,
                                                 prepare_ids=True), dtype=float).tolist()
                hand = build.Builder(overloads=bool(spec.get('overloads'))).build(plain)
                rec['hand'] = np.asarray(hand.get_value_c(database=database, betas=betas, prepare_ids=True),
                                         dtype=float).tolist()
            else:
                raise ValueError(f'C16 spec: unknown step {kind!r}')
    except _Stop:
        pass
    return res


def judge_formulas(spec) -> Outcome:
    out = Outcome()
    nf = len(spec['roots'])
    models = []
    for f in range(nf):
        sub = Outcome()
        prep = prepare(formula_spec(spec, f), sub, 'formulas')
        out.failures += sub.failures
        if prep is None:
            if sub.skipped:
                out.skipped = f'formula {f}: {sub.skipped}'
            return out
        if prep[1] is None or isinstance(prep[1], bcat.Catalog):
            raise RuntimeError('C16 harness: a formula of the formulas sub-check must be a composite expression')
        models.append(prep[0])
    out.classes.append(f'formulas={nf}')
    relations = set()
    for a in range(nf):
        for b_ in range(a + 1, nf):
            x, y = set(models[a].names), set(models[b_].names)
            relations.add('equal' if x == y else 'disjoint' if not (x & y) else
                          'nested' if (x <= y or y <= x) else 'partial')
    out.classes += sorted('controller_sets:' + r for r in relations)
    out.classes.append('built:' + ('at_first_use' if spec['lazy'] else 'up_front'))
    out.nontrivial = bool(relations & {'nested', 'partial'})
    r = isolate.call(_observe_formulas, spec)
    if not r['ok']:
        out.fail(f'formulas:child:raises:{r["exc_type"]}',
                 f'{r["exc_type"]}: {(r["exc_msg"] or "")[:300]} for {render(spec)[:300]}')
        return out
    obs = r['value']
    if 'structure_mismatch' in obs or any(
            orders.get(n) != models[f].order[n] for f, orders in obs['orders'].items() for n in models[f].names):
        out.fail('formulas:structure', f'controllers in the child {obs["orders"]} vs {[m.order for m in models]}')
        return out
    explored = []  # formulas in the order in which they were first explored
    judged = 0
    out.evaluations = 0
    for i, rec in enumerate(obs['steps']):
        f, kind = rec['f'], rec['kind']
        m = models[f]
        if f not in explored:
            explored.append(f)
        rank = 'first_formula' if explored[0] == f else 'later_formula'
        out.classes.append(f'{kind}:{rank}')
        expected = {frozenset(c.items()) for c in m.all_configs()}
        label = (f'step {i} {spec["fhistory"][i]} on formula {f} (controllers {m.order}; formulas explored so far '
                 f'{explored}) of {render(spec)[:500]}')
        out.evaluations += 1
        if kind == 'count':
            if 'n' not in rec:
                break
            if rec['n'] != m.size():
                out.fail(f'formulas:count:{rank}',
                         f'{rec["n"]} configurations announced, the product of the sizes of the controllers of '
                         f'this formula is {m.size()}; {label}')
        elif kind == 'set':
            if 'set' not in rec:
                break
            if rec['set'] is None:
                out.fail(f'formulas:set:none:{rank}', f'no set of configurations for {m.size()} <= {MAX_SET}; {label}')
                continue
            got = {frozenset(d.items()) for d, _ in rec['set'] if d is not None}
            if len(rec['set']) != m.size() or got != expected:
                extra = [dict(x) for x in sorted(got - expected, key=sorted)[:2]]
                missing = [dict(x) for x in sorted(expected - got, key=sorted)[:2]]
                out.fail(f'formulas:set:content:{rank}',
                         f'{len(rec["set"])} configurations for a product of {m.size()}: unexpected {extra}, '
                         f'missing {missing}; {label}')
            elif any(parse_id(sid) != d for d, sid in rec['set']):
                out.fail(f'formulas:set:identifier:{rank}', f'an identifier does not spell its configuration; {label}')
        elif kind == 'iterate':
            if 'visited' not in rec or (obs.get('error') and i == len(obs['steps']) - 1):
                break
            visited = [frozenset(d.items()) if d is not None else None for d, _ in rec['visited']]
            if rec.get('endless'):
                out.fail(f'formulas:iteration:endless:{rank}', f'more than {m.size()} + 2 steps; {label}')
            elif len(visited) != len(set(visited)) or set(visited) != expected:
                miss = [dict(x) for x in sorted(expected - set(visited), key=sorted)[:2]]
                extra = [dict(x) for x in sorted((v for v in set(visited) - expected if v is not None), key=sorted)[:2]]
                out.fail(f'formulas:iteration:coverage:{rank}',
                         f'iteration made {len(visited)} steps over {len(set(visited))} distinct configurations, '
                         f'the formula has {m.size()}; missing {miss}, unexpected {extra}; {label}')
            else:
                for d, sh in rec['visited']:
                    wrong = [s_ for s_ in sh if s_[2] != d.get(s_[1])]
                    if wrong:
                        out.fail(f'formulas:iteration:shown:{rank}',
                                 f'while iterating at {d}: catalog {wrong[0][0]!r} (controller {wrong[0][1]!r}) '
                                 f'shows {wrong[0][2]!r}; {label}')
                        break
        elif kind == 'ids':
            if 'ids' not in rec:
                break
            for cfg, current, sh in rec['ids']:
                wrong = [s_ for s_ in sh if s_[2] != cfg[s_[1]]]
                if current != cfg or wrong:
                    out.fail(f'formulas:ids:selected:{rank}',
                             f'after configure_catalogs({cfg}) the formula reports {current}, catalogs show {sh}; {label}')
                    break
            if len(rec['ids']) != m.size():
                break  # the error entry below names the stage
        elif kind == 'configure':
            if 'current' not in rec:
                break
            cfg = rec['cfg']
            if not m.valid(cfg):
                raise RuntimeError(f'C16 harness: {cfg} is not a configuration of formula {f}')
            if rec['current'] != cfg:
                out.fail(f'formulas:current_configuration:{rank}',
                         f'after configure_catalogs({cfg}) the formula reports {rec["current"]}; {label}')
            if 'shown' not in rec:
                break
            wrong = [s_ for s_ in rec['shown'] if s_[2] != cfg[s_[1]]]
            if wrong:
                out.fail(f'formulas:shown:{rank}',
                         f'after configure_catalogs({cfg}): catalog {wrong[0][0]!r} governed by {wrong[0][1]!r} '
                         f'shows member {wrong[0][2]!r}; {label}')
            if 'value' not in rec or 'hand' not in rec:
                break
            plain = m.substitute(spec['roots'][f], cfg)
            if not _same(rec['value'], rec['hand']):
                out.fail(f'formulas:value:differs_from_hand_written:{rank}',
                         f'engine value {rec["value"]} of the configured formula vs {rec["hand"]} of the formula '
                         f'written out by hand ({refsem.render(plain)[:300]}); {label}')
            ref = _reference_or_none(spec, plain, spec['betas'])
            if ref is None:
                out.classes.append('step_ill_posed')
            else:
                judged += 1
                if not _close(rec['value'], ref):
                    out.fail(f'formulas:value:reference:{rank}',
                             f'engine value {rec["value"]} vs reference {[ev.v for ev in ref]} of '
                             f'{refsem.render(plain)[:300]}; {label}')
    if 'error' in obs:
        e = obs['error']
        last = obs['steps'][-1] if obs['steps'] else None
        rank = '' if last is None else (':first_formula' if explored and explored[0] == last['f'] else ':later_formula')
        out.fail(f'formulas:{e["stage"]}:raises:{e["type"]}{rank}',
                 f'{e["stage"]} raised {e["type"]}: {e["msg"]} at step {len(obs["steps"]) - 1} '
                 f'({last and last.get("at")}) of {render(spec)[:500]}')
    out.evaluations = max(1, out.evaluations)
    return out


# ---------------------------------------------------------------------------------------------
# rendering


def render_expr(spec_expr, spec):
    def conv(s):
        k = s[0]
        if k == 'Cat':
            return ['Var', f'<{spec["catalogs"][s[1]]["name"]}>']
        if k == 'Seg':
            hp = spec['helpers'][s[1]]
            return ['Var', f'<seg {hp["name"]}: {hp["betas"][s[2]][1]}>']
        if k == 'Gas':
            hp = spec['helpers'][s[1]]
            return ['Var', f'<gas {hp["name"]}: {hp["betas"][s[2]][1]}/{hp["alts"][s[3]]}>']
        return xmap(s, conv)

    return refsem.render(conv(spec_expr)).replace("Var('<", '<').replace(">')", '>')


def render(spec):
    parts = []
    for j, (name, names) in enumerate(spec['controllers']):
        parts.append(f'Controller#{j} {name!r}{names}')
    for k, c in enumerate(spec['catalogs']):
        ctl = 'own' if c['ctl'] is None else (f'Controller#{c["ctl"][1]}' if c['ctl'][0] == 'ctl'
                                              else f'of <{spec["catalogs"][c["ctl"][1]]["name"]}>')
        mem = ', '.join(f'{n}: {render_expr(e, spec)}' for n, e in c['members'])
        parts.append(f'<{c["name"]}>[{ctl}]{{{mem}}}')
    for hp in spec['helpers']:
        segs = [(v, dict(mp), r) for v, mp, r in hp['segs']]
        parts.append(f'{hp["kind"]} {hp["name"]!r} betas={[b[1] for b in hp["betas"]]} '
                     f'alts={hp.get("alts")} segs={segs} max={hp["max"]}')
    if 'roots' in spec:
        head = ' || '.join(f'formula {f}: {render_expr(r_, spec)}' for f, r_ in enumerate(spec['roots']))
        head += f'  built {"at first use" if spec["lazy"] else "up front"}; steps={spec["fhistory"]}'
    else:
        head = render_expr(spec['root'], spec)
    txt = f'{head}  where ' + '; '.join(parts)
    if 'history' in spec:
        txt += f'  history={spec["history"]}'
    if 'ops' in spec:
        txt += f'  sets={spec["sets"]} ops={spec["ops"]} eval_betas={spec["eval_betas"]}'
    return txt[:1500]


# ---------------------------------------------------------------------------------------------
# strategies

CTL_NAMES = ['A', 'B', 'C1', 'cat', 'cat_1', 'cat 2', 'Z', 'a', 'a_b', 'b', 'spec', 'mu', 'c-1', 'été',
             'x.y', 'N_10', 'N_2', 'ctl', 'time spec', '_u', 'b_c', 'a_b_c', 'c']
MEMBER_NAMES = ['lin', 'log', 'sq', 'one', 'two', 'm_1', 'M', 'no', 'yes', 'a b', 'a-b', 'x', 'α', '0',
                '1', 'generic', 'altspec', 'no_seg', 'boxcox', 'piecewise_1', 'lin 2', 'B', 'A']
BETA_NAMES = ['b1', 'b2', 'B_3', 'beta', 'ASC', 'asc_1', 'b_time', 'B_COST', 'mu', 'λ']
HELPER_NAMES = ['seg', 'gen', 'G1', 'spec_time', 'socio', 'h']
HELPER_BETAS = ['hA', 'hB', 'hC', 'hD', 'hTime', 'hCost']
ALT_NAMES = ['car', 'bus', 'train', 'pt', 'alt1', 'alt2', 'walk']
CATEGORY_NAMES = ['zero', 'one', 'two', 'lo', 'hi', 'mid', 'male', 'female', 'yes', 'no']
REAL_COLS = ['x1', 'x2', 't']
SEG_COLS = ['sx', 'sy', 'g']
CHOICE = 'ch'


def _dyadic(lo, hi, denom=4):
    return st.integers(int(lo * denom), int(hi * denom)).map(lambda k: k / denom)


class _Gen:
    def __init__(self, draw, tier, cap, variables=True):
        self.draw = draw
        self.tier = tier
        self.cap = cap
        self.variables = variables
        self.betas = {}
        self.alts = [1, 2, 3][: draw(st.integers(2, 3))]
        self.product = 1

    def p(self, prob):
        return self.draw(st.integers(0, 99)) < int(prob * 100)

    def choose(self, seq):
        return self.draw(st.sampled_from(list(seq)))

    # -- leaves and trees --------------------------------------------------------------------
    def beta(self):
        if self.betas and (len(self.betas) >= 5 or self.p(0.5)):
            return list(self.choose(list(self.betas.values())))
        name = self.choose([n for n in BETA_NAMES if n not in self.betas])
        spec = ['Beta', name, self.draw(_dyadic(-2, 2)), None, None, 1 if self.p(0.2) else 0]
        self.betas[name] = spec
        return list(spec)

    def leaf(self):
        k = self.draw(st.integers(0, 9))
        if k < 3:
            return ['Num', self.draw(_dyadic(-3, 3))]
        if k < 7 or not self.variables:
            return self.beta()
        return ['Var', self.choose(REAL_COLS)]

    def bare_leaf(self):
        k = self.draw(st.integers(0, 3))
        if k == 0:
            return ['Num', self.draw(_dyadic(-3, 3))]
        if k == 1 and self.variables:
            return ['Var', self.choose(REAL_COLS)]
        return self.beta()

    def tree(self, depth, refs=(), pref=0.0):
        if refs and self.p(pref):
            return list(self.choose(refs))
        if depth <= 0 or self.p(0.25):
            return self.leaf()
        sub = lambda: self.tree(depth - 1, refs, pref)  # noqa: E731
        k = self.choose(['Plus', 'Plus', 'Minus', 'Times', 'Times', 'Neg', 'MultSum', 'Max', 'Min', 'exp',
                         'PowC', 'Gt', 'Elem'])
        if k in ('Plus', 'Minus', 'Times', 'Max', 'Min', 'Gt'):
            return [k, sub(), sub()]
        if k == 'Neg':
            return ['Neg', sub()]
        if k == 'exp':
            return ['exp', self.tree(min(depth - 1, 1), refs, pref)]
        if k == 'PowC':
            return ['PowC', sub(), 2]
        if k == 'MultSum':
            return ['MultSum', [sub() for _ in range(self.draw(st.integers(1, 3)))]]
        if not self.variables:
            return ['Plus', sub(), sub()]
        return ['Elem', ['Var', CHOICE], [[a, sub()] for a in self.alts]]

    def around(self, ref, depth=1):
        """A small tree that certainly contains `ref`."""
        k = self.draw(st.integers(0, 7))
        if k == 0:
            return list(ref)
        if k == 1:
            return ['Times', self.leaf(), list(ref)]
        if k == 2:
            return ['Plus', self.tree(depth), list(ref)]
        if k == 3:
            return ['Minus', list(ref), self.tree(depth)]
        if k == 4:
            return ['Neg', list(ref)]
        if k == 5:
            return ['MultSum', [self.leaf(), list(ref), self.tree(depth)]]
        if k == 6:
            return ['Times', list(ref), ['Var', self.choose(REAL_COLS)] if self.variables else self.leaf()]
        return ['Max', list(ref), self.leaf()]

    # -- sizes -------------------------------------------------------------------------------
    def take_size(self):
        room = max(1, self.cap // self.product)
        pool = [1, 2, 2, 2, 3, 3, 3, 4, 4, 5] if self.cap <= MAX_SET else [2, 3, 4, 4, 5, 5, 6, 6]
        size = min(room, self.draw(st.sampled_from(pool)))
        self.product *= size
        return size


@st.composite
def structures(draw, tier='quick', cap=MAX_SET, variables=None, bare=0.2):
    big = tier == 'thorough'
    if variables is None:
        variables = draw(st.integers(0, 3)) > 0
    g = _Gen(draw, tier, cap, variables)
    p = g.p

    # helpers; category labels come from a pool that is small most of the time, so that the same label
    # (and hence the same parameter name <beta>_<label>) occurs under several segmentation variables
    label_pool = CATEGORY_NAMES[:draw(st.sampled_from([3, 4, 4, 5]))] if p(0.65) else CATEGORY_NAMES
    helpers = []
    helper_refs = []
    n_helpers = draw(st.sampled_from([0, 0, 1, 1, 1, 2])) if variables else 0
    hnames = draw(st.lists(st.sampled_from(HELPER_NAMES), min_size=n_helpers, max_size=n_helpers, unique=True))
    hbetas = list(draw(st.permutations(HELPER_BETAS)))
    for h in range(n_helpers):
        kind = draw(st.sampled_from(['seg', 'gas']))
        nb = draw(st.integers(1, 2))
        betas = [['Beta', hbetas.pop(), draw(_dyadic(-2, 2)), draw(st.sampled_from([None, -100.0])),
                  draw(st.sampled_from([None, 100.0])), 1 if p(0.15) else 0] for _ in range(nb)]
        n_segs = draw(st.sampled_from([0, 1, 1, 2, 2, 3])) if kind == 'seg' else draw(st.sampled_from([0, 0, 1, 2]))
        seg_vars = list(draw(st.permutations(SEG_COLS)))[:n_segs]
        segs = []
        for var in seg_vars:
            values = sorted(draw(st.lists(st.integers(0, 3), min_size=2, max_size=3, unique=True)))
            cats_ = draw(st.lists(st.sampled_from(label_pool), min_size=len(values), max_size=len(values),
                                  unique=True))
            ref = draw(st.sampled_from([None] + cats_))
            segs.append([var, [[v, c] for v, c in zip(values, cats_)], ref])
        maximum = draw(st.integers(0, n_segs + 1)) if n_segs else draw(st.integers(0, 2))
        size = len(seg_combinations(segs, maximum))
        if kind == 'gas':
            size *= 2
        if g.product * size > cap:  # keep inside the cap: no segmentation
            segs, maximum = [], 1
            size = 2 if kind == 'gas' else 1
        g.product *= size
        hp = dict(kind=kind, name=hnames[h], betas=betas, segs=segs, max=maximum,
                  var_by_name=p(0.3))
        if kind == 'gas':
            n_alts = draw(st.integers(2, 3))
            hp['alts'] = draw(st.lists(st.sampled_from(ALT_NAMES), min_size=n_alts, max_size=n_alts, unique=True))
            refs = [['Gas', h, i, a] for i in range(nb) for a in range(n_alts)]
            keep = draw(st.integers(1, len(refs)))
            refs = list(draw(st.permutations(refs)))[:max(keep, 2 if len(refs) > 1 else 1)]
        else:
            refs = [['Seg', h, i] for i in range(nb)]
        helpers.append(hp)
        helper_refs += refs

    # table: free rows, preceded (most of the time) by rows in which the segmentation variables of the
    # helper with most segmentations go through every combination of their mapped values (all variables
    # when that makes at most 12 rows, else the first two of a drawn order)
    cover = []
    widest = max(helpers, key=lambda hp_: len(hp_['segs']), default=None)
    if widest is not None and widest['segs'] and p(0.8):
        segs_ = list(draw(st.permutations(widest['segs'])))
        if math.prod(len(s_[1]) for s_ in segs_) > 12:
            segs_ = segs_[:2]
        cover = [dict(zip([s_[0] for s_ in segs_], combo))
                 for combo in itertools.product(*[[v for v, _ in s_[1]] for s_ in segs_])]
    n_rows = len(cover) + draw(st.integers(0 if cover else 1, 4 if big else 3))
    columns = [[c, 'float', draw(st.lists(_dyadic(-2, 2), min_size=n_rows, max_size=n_rows))] for c in REAL_COLS]
    for c in SEG_COLS:
        free = draw(st.lists(st.integers(0, 3), min_size=n_rows, max_size=n_rows))
        columns.append([c, draw(st.sampled_from(['int', 'float'])),
                        [cover[i][c] if i < len(cover) and c in cover[i] else free[i] for i in range(n_rows)]])
    columns.append([CHOICE, 'int', draw(st.lists(st.sampled_from(g.alts), min_size=n_rows, max_size=n_rows))])

    # explicit controllers and catalogs
    n_names = 12
    names = draw(st.lists(st.sampled_from(CTL_NAMES), min_size=n_names, max_size=n_names, unique=True))
    names = [n for n in names if n not in hnames and not any(n == f'{h}_gen_altspec' for h in hnames)]
    controllers = []
    for _ in range(draw(st.sampled_from([0, 1, 1, 2]))):
        size = g.take_size()
        controllers.append([names.pop(), draw(st.lists(st.sampled_from(MEMBER_NAMES), min_size=size,
                                                       max_size=size, unique=True))])
    wide = cap > MAX_SET  # aim at spaces too large for an enumerated set: more own controllers
    n_cats = draw(st.integers(3 if wide else 0 if helper_refs else 1, 6 if big or wide else 5))
    if controllers and n_cats < 2:
        n_cats = 2
    catalogs = []
    used = set()  # catalogs referenced by a later catalog
    pending_helper = list(helper_refs)
    for k in range(n_cats):
        own = [j for j, c in enumerate(catalogs) if c['ctl'] is None]
        mode = draw(st.integers(0, 9))
        if controllers and mode < (2 if wide else 4):
            j = draw(st.integers(0, len(controllers) - 1))
            ctl, mnames = ['ctl', j], list(controllers[j][1])
        elif own and mode < (3 if wide else 6):
            j = g.choose(own)
            ctl, mnames = ['of', j], [mm[0] for mm in catalogs[j]['members']]
        else:
            size = g.take_size()
            ctl = None
            mnames = draw(st.lists(st.sampled_from(MEMBER_NAMES), min_size=size, max_size=size, unique=True))
        members = []
        nest = k > 0 and p(0.55)
        flat = p(0.5 * bare)  # a catalog of bare leaves only, e.g. Catalog.from_dict of parameters
        for mn in mnames:
            if flat:
                members.append([mn, g.beta() if p(0.6) else g.bare_leaf()])
            elif nest and p(0.6):
                j = draw(st.integers(0, k - 1))
                used.add(j)
                members.append([mn, g.around(['Cat', j])])
            elif pending_helper and p(0.15):
                members.append([mn, g.around(pending_helper.pop())])
            elif p(0.08):
                members.append([mn, ['Lit', draw(_dyadic(-3, 3))]])
            elif p(bare):
                members.append([mn, g.bare_leaf()])  # a bare Beta / Variable / Numeric, not a composite
            else:
                members.append([mn, g.tree(2, refs=[['Cat', j] for j in range(k)], pref=0.05)])
        catalogs.append(dict(name=names.pop(), ctl=ctl, members=members, from_dict=p(0.25)))

    # root: every catalog nobody refers to, and the remaining helper catalogs
    must = [['Cat', k] for k in range(n_cats) if k not in used] + pending_helper
    must = list(draw(st.permutations(must)))
    terms = [g.around(r) for r in must]
    if p(0.3):
        terms.append(g.tree(2, refs=must, pref=0.2))
    shape = draw(st.integers(0, 9))
    if len(terms) == 1:
        root = terms[0]
    elif shape < 3:
        root = ['MultSum', terms]
    elif shape < 6 or not variables:
        root = terms[0]
        for t in terms[1:]:
            root = [draw(st.sampled_from(['Plus', 'Plus', 'Minus', 'Times'])), root, t]
    else:
        utilities = {a: [] for a in g.alts}
        for i, t in enumerate(terms):
            utilities[g.alts[i % len(g.alts)]].append(t)
        entries = []
        for a in g.alts:
            ts = utilities[a] or [g.tree(1)]
            u = ts[0]
            for t in ts[1:]:
                u = ['Plus', u, t]
            entries.append([a, u, None])
        root = ['LogLogit', ['Var', CHOICE], entries]

    # values handed over at evaluation time: FREE parameters only (the documented meaning of `betas`),
    # some of them belonging to members that are not selected
    pool = sorted(n for n, b in g.betas.items() if b[5] == 0)
    for hp in helpers:
        for b in hp['betas']:
            if b[5] != 0:
                continue
            family = [b[1]] + [f'{b[1]}_{a}' for a in hp.get('alts', [])]
            pool += family
            pool += [f'{n}_{c}' for n in family for _, mp, _ in hp['segs'] for _, c in mp]
    chosen = draw(st.lists(st.sampled_from(pool), max_size=4, unique=True)) if pool else []
    betas = {n: draw(_dyadic(-2, 2)) for n in chosen}

    return dict(table=dict(columns=columns), controllers=controllers, catalogs=catalogs, helpers=helpers,
                root=root, betas=betas, overloads=p(0.3), perm=draw(st.integers(0, 10 ** 6)))


def _index_vectors():
    return st.lists(st.integers(0, 11), min_size=1, max_size=6)


def _op_steps():
    step = st.one_of(st.integers(1, 6), st.integers(1, 6), st.integers(7, 13))
    return st.one_of(
        st.tuples(st.just('inc'), st.integers(0, 11), step).map(list),
        st.tuples(st.just('dec'), st.integers(0, 11), step).map(list),
        st.tuples(st.just('pair'), st.integers(0, 11), st.integers(0, 11),
                  st.sampled_from(['NE', 'NW', 'SE', 'SW']), step).map(list),
        st.tuples(st.just('several'), st.booleans(), step, st.integers(0, 2 ** 20)).map(list),
    )


def _set_steps():
    return st.tuples(st.just('set'), _index_vectors(), st.integers(0, 10 ** 6), st.integers(0, 2)).map(list)


@st.composite
def strat_identifiers(draw, tier):
    return draw(structures(tier, cap=MAX_SET))


@st.composite
def strat_operators(draw, tier):
    cap = draw(st.sampled_from([MAX_SET, MAX_SET, 1500]))
    spec = draw(structures(tier, cap=cap))
    spec['start'] = draw(_index_vectors())
    spec['sweep_step'] = draw(st.one_of(st.integers(1, 6), st.integers(1, 13)))
    spec['seed'] = draw(st.integers(0, 2 ** 20))
    spec['history'] = draw(st.lists(st.one_of(_op_steps(), _op_steps(), _op_steps(), _set_steps()),
                                    min_size=1, max_size=12 if tier == 'thorough' else 8))
    return spec


@st.composite
def strat_selection(draw, tier):
    spec = draw(structures(tier, cap=MAX_SET))
    first = draw(_set_steps())
    rest = draw(st.lists(st.one_of(_set_steps(), _set_steps(), _op_steps()), min_size=1,
                         max_size=7 if tier == 'thorough' else 4))
    spec['history'] = [first] + rest
    return spec


def all_beta_names(spec):
    """Names of every parameter the structure can show (harness knowledge of the helpers included)."""
    names = {n[1] for n in all_nodes(spec) if n[0] == 'Beta'}
    for hp in spec['helpers']:
        for b in hp['betas']:
            family = [b[1]] + [f'{b[1]}_{a}' for a in hp.get('alts', [])]
            names |= set(family)
            names |= {f'{n}_{c}' for n in family for _, mp, _ in hp['segs'] for _, c in mp}
    return sorted(names)


FOREIGN_NAMES = ['zz', 'b1_x', 'unknown', 'hA_']
PREFIXES = [None, None, 'fx_', 'P.', 'é ']
SUFFIXES = [None, None, '_fx', '.s']


@st.composite
def strat_through(draw, tier):
    spec = draw(structures(tier, cap=MAX_SET, bare=0.45))
    spec['sets'] = draw(st.lists(_set_steps(), min_size=1, max_size=2))
    originals = all_beta_names(spec)
    known = list(originals)  # grows with the names the operations create

    def names(pool, lo):
        chosen = draw(st.lists(st.sampled_from(pool), min_size=min(lo, len(pool)), max_size=min(8, len(pool)),
                               unique=True)) if pool else []
        if not chosen or draw(st.integers(0, 4)) == 0:
            chosen = chosen + [draw(st.sampled_from(FOREIGN_NAMES))]
        return chosen

    ops = []
    for _ in range(draw(st.integers(1, 3))):
        kind = draw(st.sampled_from(['init', 'init', 'init', 'fix', 'fix', 'rename']))
        if kind == 'init':
            ops.append(['init', {n: draw(_dyadic(-2, 2)) for n in names(known, 3)}])
            continue
        prefix, suffix = draw(st.sampled_from(PREFIXES)), draw(st.sampled_from(SUFFIXES))
        # with affixes only names that carry none yet: a dictionary never holds a name and its affixed form
        chosen = names(originals if (prefix or suffix) else known, 2)
        if kind == 'fix':
            ops.append(['fix', {n: draw(_dyadic(-2, 2)) for n in chosen}, prefix, suffix])
        else:
            ops.append(['rename', chosen, prefix, suffix])
        known += [x for x in (_affixed(n, prefix, suffix) for n in chosen) if x not in known]
    spec['ops'] = ops
    chosen = draw(st.lists(st.sampled_from(known), min_size=min(3, len(known)), max_size=min(8, len(known)),
                           unique=True)) if known else []
    if draw(st.integers(0, 3)) == 0:
        chosen.append(draw(st.sampled_from(FOREIGN_NAMES)))
    spec['eval_betas'] = {n: draw(_dyadic(-2, 2)) for n in chosen}
    return spec



def _formula_steps():
    f = st.integers(0, 5)
    return st.one_of(
        st.tuples(st.just('count'), f).map(list),
        st.tuples(st.just('set'), f).map(list),
        st.tuples(st.just('iterate'), f).map(list),
        st.tuples(st.just('ids'), f, st.integers(0, 10 ** 6)).map(list),
        st.tuples(st.just('configure'), f, _index_vectors(), st.integers(0, 10 ** 6), st.integers(0, 2)).map(list),
        st.tuples(st.just('configure'), f, _index_vectors(), st.integers(0, 10 ** 6), st.integers(0, 2)).map(list),
    )


@st.composite
def strat_formulas(draw, tier):
    spec = draw(structures(tier, cap=MAX_SET))
    refs, betas_, has_vars = [], {}, False
    for node in all_nodes(spec):
        if node[0] in ('Cat', 'Seg', 'Gas') and list(node) not in refs:
            refs.append(list(node))
        elif node[0] == 'Beta':
            betas_.setdefault(node[1], list(node))
        elif node[0] == 'Var':
            has_vars = True
    betas_ = [betas_[k] for k in sorted(betas_)]
    base_root = spec.pop('root')

    def leaf():
        k = draw(st.integers(0, 5))
        if betas_ and k < 3:
            return list(draw(st.sampled_from(betas_)))
        if has_vars and k == 3:
            return ['Var', draw(st.sampled_from(REAL_COLS))]
        return ['Num', draw(_dyadic(-3, 3))]

    def term(ref):
        k = draw(st.integers(0, 6))
        if k == 0:
            return ['Times', leaf(), list(ref)]
        if k == 1:
            return ['Plus', list(ref), leaf()]
        if k == 2:
            return ['Neg', list(ref)]
        if k == 3:
            return ['Minus', leaf(), list(ref)]
        if k == 4:
            return ['Max', list(ref), leaf()]
        return list(ref)

    def make(chosen):
        terms = [term(r_) for r_ in chosen]
        if len(terms) == 1:  # the formula is a fresh composite node, never the shared catalog object itself
            return terms[0] if terms[0][0] not in ('Cat', 'Seg', 'Gas') else ['Times', leaf(), terms[0]]
        if draw(st.integers(0, 3)) == 0:
            return ['MultSum', terms]
        root = terms[0]
        for t in terms[1:]:
            root = [draw(st.sampled_from(['Plus', 'Plus', 'Minus', 'Times'])), root, t]
        return root

    order = list(draw(st.permutations(refs)))
    if draw(st.integers(0, 5)) == 0 and base_root[0] not in ('Cat', 'Seg', 'Gas'):
        prev, roots = list(order), [base_root]  # the formula of the structure: reaches every object
    else:  # most of the time the first formula leaves objects to the later ones
        lo = 2 if len(order) >= 3 and draw(st.booleans()) else 1
        prev = order[:draw(st.integers(lo, max(lo, len(order) - draw(st.sampled_from([0, 1, 1, 2])))))]
        roots = [make(prev)]
    for _ in range(draw(st.sampled_from([1, 1, 2]))):
        inside = [r_ for r_ in order if r_ in prev]
        outside = [r_ for r_ in order if r_ not in prev]
        chosen = []
        if draw(st.integers(0, 9)) < 8:
            chosen.append(draw(st.sampled_from(inside)))
        if outside and draw(st.integers(0, 9)) < 7:
            chosen.append(draw(st.sampled_from(outside)))
        if draw(st.integers(0, 9)) < 4:
            chosen += [r_ for r_ in draw(st.lists(st.sampled_from(order), max_size=2)) if r_ not in chosen]
        if not chosen:
            chosen = [draw(st.sampled_from(order))]
        roots.append(make(list(draw(st.permutations(chosen)))))
        prev = chosen
    spec['roots'] = roots
    spec['lazy'] = draw(st.booleans())
    spec['fhistory'] = draw(st.lists(_formula_steps(), min_size=3, max_size=9 if tier == 'thorough' else 7))
    return spec


_NT = 'non-trivial: a controller shared by >= 2 catalogs AND a catalog nested in a member of another AND >= 4 configurations'

SUBCHECKS = [
    SubCheck('identifiers', strat_identifiers, judge_identifiers, render, dict(quick=2400, thorough=60000),
             'whole configuration space of a random structure: announced number and enumerated set == product '
             'of controller choices; identifier <-> configuration round trip, any listing order (dict, '
             'selection list, permuted string); identifiers pairwise different; iteration visits each '
             'configuration once and the catalogs show it; ' + _NT),
    SubCheck('operators', strat_operators, judge_operators, render, dict(quick=1800, thorough=45000),
             'every operator of prepare_operators applied once from a chosen configuration and step, '
             'increase/decrease pairs on each controller, and a history of up to 8 (12) applications; spaces up '
             'to 1500 configurations (no enumerated set above 100); ' + _NT),
    SubCheck('selection', strat_selection, judge_selection, render, dict(quick=1200, thorough=30000),
             'history of 2-5 (2-8) configurations set directly or reached through operators on ONE formula '
             'object: shown members, current_configuration, engine value (and get_value / database-free value) '
             'against the hand-substituted catalog-free formula; ' + _NT, max_skip_fraction=0.3),
    SubCheck('through', strat_through, judge_through, render, dict(quick=800, thorough=20000),
             'one configuration selected on a structure rich in catalogs whose members are a bare Beta / '
             'Variable / Numeric, then 1-3 operations applied THROUGH the catalogs (change_init_values, '
             'fix_betas, rename_elementary with generated dictionaries and affixes) to the formula with '
             'catalogs and to the hand-substituted formula: after each one the sets of free / fixed '
             'parameters and variables, get_beta_values, parameter values and status, '
             'get_elementary_expression, get_value and the engine value without betas (finally with a betas '
             'dictionary) agree with the hand-written formula subjected to the same operations, with the '
             'formula the harness writes for the new state, and with the reference value; non-trivial: '
             '>= 2 configurations AND an operation changes the value, status or name of a parameter inside '
             'a selected catalog member'),
    SubCheck('formulas', strat_formulas, judge_formulas, render, dict(quick=1000, thorough=25000),
             '2-3 formulas (fresh composite trees) over the catalog and helper objects of ONE structure, some '
             'objects common to several formulas and some not, built up front or at first use, then a history '
             'of 3-7 (3-9) steps on them in any order: announced number, enumerated set and iteration of each '
             'formula == product of ITS OWN controllers, every identifier of its own product is accepted by '
             'configure_catalogs and shown by its catalogs, a selected configuration evaluates like the '
             'formula\'s own hand-substituted version and the reference; non-trivial: two formulas share a '
             'controller without having the same controllers', max_skip_fraction=0.3),
]
RULE = ' | '.join(f'{s.name}: {s.rule}' for s in SUBCHECKS)
