"""C08 Reported statistics obey their defining formulas.

Synthetic raw outcomes (no estimation) are fed to ``RawResults`` / ``bioResults`` through a stub model
object exposing exactly the attributes ``RawResults.__init__`` reads, the way ``BIOGEME.estimate`` feeds
them.  Every reported figure is recomputed from the raw outcome:

* scalar statistics and the three variance-covariance matrices in exact rational arithmetic
  (``fractions.Fraction``; the pseudo-inverse through a full-rank factorisation, no SVD, no cut-off),
* the figures derived from a matrix (standard errors, t, p, correlations, pairwise tests) from the matrix
  the library itself reports, with scipy.special.erfc for the normal tail,
* compiled tables cell by cell from the label of the row and the model of the column, likelihood-ratio tests
  with scipy.special.chdtri.

Compiled tables (``compile_estimation_results``: "dict of results, containing for each model the name ... and
the results, or the name of the pickle file containing them"; ``compile_results_in_directory``: "results found
in the local directory ... in a file with pickle extension"): the models are given as ``bioResults`` objects,
as names (relative or absolute) of the files written by ``write_pickle``, or a mix, in any order, and entries
that do not lead to results (missing file, empty file, bytes that are no pickle stream, truncated results file,
pickle of another object, directory) stand at generated positions.  For such an entry the function logs
'Impossible to access result file' and goes on; its column (the columns are the keys of the dictionary)
must hold the empty string in every row, exactly as the cell of a parameter that a model does not have.  All
files live in a private temporary directory (the case runs in a forked child that changes into it) which the
parent removes.

Tolerances (all stated here):

* scalar statistics: |got - exact| <= 1e-12 * (1 + |exact|)
* classical matrix: max-norm error <= 256 K eps cond |V|max  (cond = largest / smallest non-zero
  eigenvalue of -H; generated cond <= ~1e8); robust: <= 256 K^2 eps cond |V|max^2 |B|max;
  bootstrap: <= 64 B eps (max|x| dev + dev^2) + 4 (B eps max|x|)^2, dev = largest deviation from a column mean
* standard error, t, correlation: relative 1e-12 w.r.t. the library's own matrix; p: absolute 1e-12;
  pairwise t: relative 1e-9 (pairs whose variance of the difference cancels below 1e-4 of its terms, or
  is not above 64x the matrix tolerance, are not judged); threshold of the chi-square test: relative 1e-9
* strings (summaries, HTML, formatted compiled cells) must equal the documented format of the verified value.

Conventions that the property does not define are not judged (counted as classes): a parameter whose exact
variance is zero (or not larger than 8x the matrix tolerance), a pair whose difference has zero variance, and
the correlations of a family in which some variance is zero (the library then reports a sentinel everywhere).
"""
from __future__ import annotations

import datetime
import math
import os
import pickle
import re
import shutil
import tempfile
import types
from fractions import Fraction as Fr

import numpy as np
from hypothesis import strategies as st
from scipy.special import chdtri, erfc

from .. import isolate
from ..runner import Outcome, SubCheck

PROPERTY = 'C08'
LEVEL = 'exploration'
ASSUMPTIONS = [
    'raw outcomes are synthetic: a stub model object exposes the attributes RawResults.__init__ reads; '
    'bioResults is built exactly as BIOGEME.estimate builds it (RawResults(model, xstar, f_g_h_b, bootstrap))',
    'domain: K in 1..6, strictly negative log likelihoods, N >= 1, symmetric Hessian with -H positive '
    'semi-definite (cond <= ~1e8 or exactly rank deficient with integer entries), BHHH positive semi-definite, '
    'bootstrap sample with >= 2 replications; parameter names without "-" and distinct from statistic labels',
    'exact rational arithmetic (fractions.Fraction) is the reference for the scalar statistics and the three '
    'matrices; scipy.special.erfc / chdtri are the reference normal tail and chi-square quantile',
    'figures derived from a matrix are compared with the matrix the library reports (itself compared with the '
    'exact one), so that conditioning does not enter their tolerance',
    'zero-variance conventions (sentinel values) are outside the property and not judged',
    'compiled tables: a results file is the file written by bioResults.write_pickle; an entry without result is '
    'a name for which bioResults(pickle_file=name) raises (missing, empty, not a pickle stream, truncated, '
    'pickle of a non-None object that is no RawResults, directory); a pickle file holding None is outside the '
    'generated domain (bioResults documents data=None as "no data provided" and the compilation then raises '
    'AttributeError); the figures of a model read from a file are those of the bioResults object that wrote it',
]
BUDGETS = dict(quick=dict(shards=8), thorough=dict(shards=16))

EPS = float(np.finfo(float).eps)
TOL_SCALAR = 1e-12
TOL_DERIVED = 1e-12
TOL_PAIR = 1e-9
TOL_P = 1e-12
ACTIVE_THRESHOLD = 1e-6

FAMILIES = ('classical', 'robust', 'bootstrap')


def _lib():
    import biogeme.results as results
    from biogeme.exceptions import BiogemeError
    from biogeme.function_output import BiogemeFunctionOutput
    from biogeme.tools.likelihood_ratio import likelihood_ratio_test

    return results, BiogemeFunctionOutput, BiogemeError, likelihood_ratio_test


# ---------------------------------------------------------------------------------------------
# exact linear algebra on small matrices


def f_mat(m):
    return [[Fr(x) for x in row] for row in m]


def f_t(m):
    return [list(r) for r in zip(*m)] if m else []


def f_mul(a, b):
    bt = f_t(b)
    return [[sum((x * y for x, y in zip(row, col)), Fr(0)) for col in bt] for row in a]


def f_reduce(m):
    """Reduced row echelon form and the pivot columns."""
    m = [list(r) for r in m]
    rows = len(m)
    cols = len(m[0]) if m else 0
    piv = []
    r = 0
    for c in range(cols):
        p = next((i for i in range(r, rows) if m[i][c] != 0), None)
        if p is None:
            continue
        m[r], m[p] = m[p], m[r]
        d = m[r][c]
        m[r] = [x / d for x in m[r]]
        for i in range(rows):
            if i != r and m[i][c] != 0:
                f = m[i][c]
                m[i] = [x - f * y for x, y in zip(m[i], m[r])]
        piv.append(c)
        r += 1
        if r == rows:
            break
    return m, piv


def f_inv(m):
    n = len(m)
    aug = [list(row) + [Fr(int(i == j)) for j in range(n)] for i, row in enumerate(m)]
    red, piv = f_reduce(aug)
    if piv[:n] != list(range(n)):
        raise ZeroDivisionError('singular matrix')
    return [row[n:] for row in red]


def f_pinv_sym(m):
    """Moore-Penrose inverse of a symmetric matrix and its rank, through the full-rank
    factorisation M = C R with C = independent columns of M:  M+ = R'(RR')^-1 (C'C)^-1 C'."""
    n = len(m)
    _, piv = f_reduce(m)
    r = len(piv)
    if r == 0:
        return [[Fr(0)] * n for _ in range(n)], 0
    if r == n:
        return f_inv(m), n
    c = [[row[j] for j in piv] for row in m]
    ct = f_t(c)
    ctc_inv = f_inv(f_mul(ct, c))
    left = f_mul(ctc_inv, ct)  # (C'C)^-1 C'
    rr = f_mul(left, m)  # R
    rrt_inv = f_inv(f_mul(rr, f_t(rr)))
    return f_mul(f_mul(f_t(rr), rrt_inv), left), r


def f_np(m):
    return np.array([[float(x) for x in row] for row in m], dtype=float).reshape(len(m), len(m))


# ---------------------------------------------------------------------------------------------
# the oracle: everything the report contains, from the raw outcome


class Oracle:
    """Exact reference figures of one raw outcome (model spec)."""

    def __init__(self, m):
        self.m = m
        self.names = list(m['names'])
        self.values = [float(v) for v in m['values']]
        k = self.k = len(self.names)
        self.n = m['sample_size']
        self.nobs = m['observations']
        ll, init, null = Fr(m['loglike']), Fr(m['init_loglike']), m['null_loglike']
        null = None if null is None else Fr(null)
        self.active = [self._active(v, b) for v, b in zip(self.values, m['bounds'])]
        st_ = {}
        st_['Number of estimated parameters'] = k
        if any(self.active):
            st_['Number of free parameters'] = k - sum(self.active)
        st_['Sample size'] = self.n
        if self.n != self.nobs:
            st_['Observations'] = self.nobs
        st_['Excluded observations'] = m['excluded']
        if null is not None:
            st_['Null log likelihood'] = float(null)
        st_['Init log likelihood'] = float(init)
        st_['Final log likelihood'] = float(ll)
        if null is not None:
            st_['Likelihood ratio test for the null model'] = float(-2 * (null - ll))
            st_['Rho-square for the null model'] = float(1 - ll / null)
            st_['Rho-square-bar for the null model'] = float(1 - (ll - k) / null)
        st_['Likelihood ratio test for the init. model'] = float(-2 * (init - ll))
        st_['Rho-square for the init. model'] = float(1 - ll / init)
        st_['Rho-square-bar for the init. model'] = float(1 - (ll - k) / init)
        st_['Akaike Information Criterion'] = float(2 * k - 2 * ll)
        st_['Bayesian Information Criterion'] = float(-2 * ll) + k * math.log(self.n)
        st_['Final gradient norm'] = math.sqrt(float(sum(Fr(g) ** 2 for g in m['gradient'])))
        if m['bootstrap'] is not None:
            st_['Bootstrapping time'] = datetime.timedelta(seconds=m['bootstrap_seconds'])
        st_['Nbr of threads'] = m['threads']
        self.stats = st_
        self._matrices()

    @staticmethod
    def _active(v, b):
        lb, ub = b
        return (lb is not None and abs(v - lb) <= ACTIVE_THRESHOLD) or (
            ub is not None and abs(v - ub) <= ACTIVE_THRESHOLD)

    def _matrices(self):
        m, k = self.m, self.k
        h = np.array(m['hessian'], dtype=float).reshape(k, k)
        self.h = h
        minus_h = f_mat((-h).tolist())
        v, rank = f_pinv_sym(minus_h)
        self.rank = rank
        ev = np.sort(np.linalg.eigvalsh(-h))[::-1]
        self.eigen = ev
        self.cond = float(ev[0] / ev[rank - 1]) if rank >= 1 and ev[rank - 1] > 0 else 1.0
        self.domain_ok = bool(np.array_equal(h, h.T)) and (rank == 0 or ev[-1] >= -1e-9 * max(ev[0], 1e-300))
        b = np.array(m['bhhh'], dtype=float).reshape(k, k)
        self.bhhh = b
        rob = f_mul(f_mul(v, f_mat(b.tolist())), v)
        self.exact = dict(classical=v, robust=rob)
        vmax = max((abs(x) for row in v for x in row), default=Fr(0))
        vmax = float(vmax)
        bmax = float(np.max(np.abs(b))) if k else 0.0
        self.tol = dict(
            classical=256 * k * EPS * self.cond * vmax + 1e-300,
            robust=256 * k * k * EPS * self.cond * vmax * vmax * bmax + 1e-300,
        )
        if m['bootstrap'] is not None:
            x = f_mat(m['bootstrap'])
            nb = len(x)
            means = [sum(col, Fr(0)) / nb for col in f_t(x)]
            dev = [[xi - mu for xi, mu in zip(row, means)] for row in x]
            cov = [[sum((r[i] * r[j] for r in dev), Fr(0)) / (nb - 1) for j in range(k)] for i in range(k)]
            self.exact['bootstrap'] = cov
            dmax = float(max(abs(d) for row in dev for d in row))
            xmax = float(max(abs(d) for row in x for d in row))
            # rounding of the products and sums, plus the effect of the rounded column means
            # (a common shift delta <= B eps max|x| of all deviations changes the sum by B delta delta')
            self.tol['bootstrap'] = (64 * nb * EPS * (xmax * dmax + dmax * dmax)
                                     + 4 * (nb * EPS * xmax) ** 2 + 1e-300)
        self.families = [f for f in FAMILIES if f in self.exact]
        self.ref = {f: f_np(self.exact[f]) for f in self.families}
        # parameters / pairs for which the property's formulas are defined and well conditioned
        self.judged_param = {}
        self.judged_pair = {}
        self.corr_judged = {}
        for f in self.families:
            e = self.exact[f]
            thr = 8 * self.tol[f]
            self.judged_param[f] = [float(e[i][i]) > thr for i in range(k)]
            self.corr_judged[f] = all(self.judged_param[f])
            pj = {}
            for i in range(k):
                for j in range(i):
                    r = e[i][i] + e[j][j] - 2 * e[i][j]
                    mag = abs(e[i][i]) + abs(e[j][j]) + 2 * abs(e[i][j])
                    # defined (positive variance of the difference), no cancellation beyond 1e4, and far
                    # above the error of the library's matrix
                    pj[(i, j)] = r > 0 and float(r) > 1e-4 * float(mag) and float(r) > 64 * self.tol[f]
            self.judged_pair[f] = pj


# ---------------------------------------------------------------------------------------------
# feeding the library the way BIOGEME.estimate does


def _stub_model(m):
    n, nobs = m['sample_size'], m['observations']
    database = types.SimpleNamespace(
        name='synthetic_data',
        get_sample_size=lambda: n,
        get_number_of_observations=lambda: nobs,
        typesOfDraws={},
        excludedData=m['excluded'],
    )
    bounds = {name: (b[0], b[1]) for name, b in zip(m['names'], m['bounds'])}
    id_manager = types.SimpleNamespace(free_betas=types.SimpleNamespace(names=list(m['names'])))
    return types.SimpleNamespace(
        modelName=m.get('model_name', 'synthetic'),
        user_notes=None,
        id_manager=id_manager,
        initLogLike=m['init_loglike'],
        nullLogLike=m['null_loglike'],
        get_bounds_on_beta=lambda name: bounds[name],
        database=database,
        monte_carlo=False,
        number_of_draws=0,
        drawsProcessingTime=datetime.timedelta(0),
        optimizationMessages={'Algorithm': 'synthetic raw outcome', 'Number of iterations': 7},
        convergence=True,
        number_of_threads=m['threads'],
        bootstrap_time=datetime.timedelta(seconds=m['bootstrap_seconds']),
    )


def build_results(m):
    results, FunctionOutput, _, _ = _lib()
    k = len(m['names'])
    fgh = FunctionOutput(
        function=m['loglike'],
        gradient=np.array(m['gradient'], dtype=float),
        hessian=np.array(m['hessian'], dtype=float).reshape(k, k),
        bhhh=np.array(m['bhhh'], dtype=float).reshape(k, k),
    )
    boot = None if m['bootstrap'] is None else np.array(m['bootstrap'], dtype=float).reshape(-1, k)
    raw = results.RawResults(_stub_model(m), np.array(m['values'], dtype=float), fgh, bootstrap=boot)
    return results.bioResults(the_raw_results=raw, identification_threshold=1e-5)


def try_build(out, m):
    """bioResults of a model spec, or None after recording the failure (root-cause key by input class)."""
    try:
        return build_results(m)
    except Exception as e:  # noqa: no valid raw outcome may make the report fail
        k = len(m['names'])
        if m['bootstrap'] is not None and k == 1:
            where = 'bootstrap_with_one_parameter'
        elif m['bootstrap'] is not None:
            where = 'bootstrap'
        else:
            where = 'no_bootstrap'
        out.fail(f'stats:raises:{type(e).__name__}:{where}',
                 f'bioResults(RawResults(...)) raised {type(e).__name__}: {str(e)[:200]} for K={k}, '
                 f'bootstrap={"none" if m["bootstrap"] is None else str(len(m["bootstrap"])) + " replications"}')
        return None


def describe(m):
    return (f"K={len(m['names'])} names={m['names']} values={m['values']} N={m['sample_size']} "
            f"obs={m['observations']} L={m['loglike']} L_init={m['init_loglike']} L_null={m['null_loglike']} "
            f"hessian[{m['hessian_kind']}]={m['hessian']} bhhh[{m['bhhh_kind']}]={m['bhhh']} "
            f"bootstrap={'none' if m['bootstrap'] is None else str(len(m['bootstrap'])) + ' replications'} "
            f"bounds={m['bounds']}")


def model_classes(m, ora):
    k = ora.k
    cl = [f'K={k}', 'hessian=' + ('singular' if ora.rank < k else 'negative_definite'),
          'bhhh=' + m['bhhh_kind'],
          'bootstrap' if m['bootstrap'] is not None else 'no_bootstrap',
          'null_loglike' if m['null_loglike'] is not None else 'no_null_loglike']
    if ora.rank < k:
        cl.append(f'hessian_rank_deficiency={k - ora.rank}')
    if any(ora.active):
        cl.append('active_bound')
    if ora.n != ora.nobs:
        cl.append('panel(sample_size!=observations)')
    if m['names'] != sorted(m['names']):
        cl.append('names_not_sorted')
    if ora.cond > 1e5:
        cl.append('cond>1e5')
    for f in ora.families:
        if not all(ora.judged_param[f]):
            cl.append(f'zero_variance:{f}')
    return cl


def close(got, want):
    """Scalar statistics: |got - want| <= 1e-12 (1 + |want|)."""
    try:
        got = float(got)
    except (TypeError, ValueError):
        return False
    return math.isfinite(got) and abs(got - want) <= TOL_SCALAR * (1 + abs(want))


def stat_key(label):
    return re.sub(r'[^a-z0-9]+', '_', label.lower()).strip('_')


# ---------------------------------------------------------------------------------------------
# sub-check 1: general statistics and the textual summaries


def check_general_statistics(out, res, ora, prefix='general'):
    """Every entry of get_general_statistics against its defining formula. Returns the verified dict."""
    try:
        got = res.get_general_statistics()
    except Exception as e:  # noqa
        out.fail(f'{prefix}:raises:{type(e).__name__}', f'get_general_statistics raised {e!r}')
        return None
    want = ora.stats
    for label in want:
        if label not in got:
            out.fail(f'{prefix}:missing:{stat_key(label)}', f'statistic {label!r} is not reported')
    for label in got:
        if label not in want:
            out.fail(f'{prefix}:unexpected:{stat_key(label)}', f'unexpected statistic {label!r} is reported')
    for label, w in want.items():
        if label not in got:
            continue
        g = got[label][0]
        if isinstance(w, datetime.timedelta):
            ok = g == w
        elif isinstance(w, int):
            ok = (not isinstance(g, bool)) and g == w
        else:
            ok = close(g, w)
        if not ok:
            out.fail(f'{prefix}:{stat_key(label)}',
                     f'{label!r} reported as {g!r}, defining formula gives {w!r} '
                     f'(K={ora.k}, N={ora.n}, observations={ora.nobs}, L={ora.m["loglike"]!r}, '
                     f'L_init={ora.m["init_loglike"]!r}, L_null={ora.m["null_loglike"]!r})')
    return got


_SUMMARY_LABELS = {
    # label in short_summary / __str__ : (label in get_general_statistics, format)
    'Nbr of parameters': ('Number of estimated parameters', ''),
    'Sample size': ('Sample size', ''),
    'Observations': ('Observations', ''),
    'Excluded data': ('Excluded observations', ''),
    'Null log likelihood': ('Null log likelihood', '.7g'),
    'Init log likelihood': ('Init log likelihood', '.7g'),
    'Final log likelihood': ('Final log likelihood', '.7g'),
    'Likelihood ratio test (null)': ('Likelihood ratio test for the null model', '.7g'),
    'Rho square (null)': ('Rho-square for the null model', '.3g'),
    'Rho bar square (null)': ('Rho-square-bar for the null model', '.3g'),
    'Likelihood ratio test (init)': ('Likelihood ratio test for the init. model', '.7g'),
    'Rho square (init)': ('Rho-square for the init. model', '.3g'),
    'Rho bar square (init)': ('Rho-square-bar for the init. model', '.3g'),
    'Akaike Information Criterion': ('Akaike Information Criterion', '.7g'),
    'Bayesian Information Criterion': ('Bayesian Information Criterion', '.7g'),
    'Final gradient norm': ('Final gradient norm', '.7g'),
}
_SHORT_EXPECTED = ['Nbr of parameters', 'Sample size', 'Observations', 'Excluded data', 'Null log likelihood',
                   'Final log likelihood', 'Likelihood ratio test (null)', 'Rho square (null)',
                   'Rho bar square (null)', 'Akaike Information Criterion', 'Bayesian Information Criterion']


def _acceptable_texts(ora, got_stats, stat_label, fmt):
    """The documented format applied to the statistic the library holds (checked against its defining
    formula under the key general:<statistic>, so that one wrong statistic gives one key) and to the
    exact value (the two may differ in the last bits)."""
    texts = {format(ora.stats[stat_label], fmt)}
    if got_stats is not None and stat_label in got_stats:
        try:
            texts.add(format(got_stats[stat_label][0], fmt))
        except (TypeError, ValueError):
            pass
    return texts


def check_summary_text(out, text, which, ora, got_stats, expected_labels):
    seen = {}
    for line in text.splitlines():
        m_ = re.match(r'^([^\t]+):\t+(.*)$', line)
        if not m_:
            continue
        label, value = m_.group(1), m_.group(2).strip()
        if label in _SUMMARY_LABELS:
            seen[label] = value
    for label in expected_labels:
        stat_label, fmt = _SUMMARY_LABELS[label]
        if stat_label not in ora.stats:
            if label in seen:
                out.fail(f'{which}:unexpected:{stat_key(label)}', f'{which} prints {label!r} which does not apply')
            continue
        if label not in seen:
            out.fail(f'{which}:missing:{stat_key(label)}', f'{which} does not print {label!r}')
            continue
        texts = _acceptable_texts(ora, got_stats, stat_label, fmt)
        if seen[label] not in texts:
            out.fail(f'{which}:{stat_key(label)}',
                     f'{which} prints {label!r} as {seen[label]!r}; the quantity is {sorted(texts)}')


def judge_general(spec) -> Outcome:
    out = Outcome()
    m = spec['model']
    ora = Oracle(m)
    if not ora.domain_ok:
        out.skipped = 'Hessian outside the domain'
        return out
    out.classes += model_classes(m, ora)
    out.nontrivial = m['null_loglike'] is not None and ora.k >= 2
    res = try_build(out, m)
    if res is None:
        return out
    got = check_general_statistics(out, res, ora)
    # textual summaries
    try:
        short = res.short_summary()
        full = str(res)
        printed = res.print_general_statistics()
    except Exception as e:  # noqa
        out.fail(f'summary:raises:{type(e).__name__}', f'textual summary raised {e!r}')
        return out
    check_summary_text(out, short, 'short_summary', ora, got, _SHORT_EXPECTED)
    check_summary_text(out, full, 'str', ora, got, list(_SUMMARY_LABELS))
    if got is not None:
        lines = dict(ln.split(':\t', 1) for ln in printed.splitlines() if ':\t' in ln)
        for label, w in ora.stats.items():
            if label not in got:
                continue
            texts = _acceptable_texts(ora, got, label, got[label][1])
            if lines.get(label) not in texts:
                out.fail(f'print_general_statistics:{stat_key(label)}',
                         f'print_general_statistics prints {label!r} as {lines.get(label)!r}; '
                         f'the quantity is {sorted(texts)}')
    return out


# ---------------------------------------------------------------------------------------------
# sub-check 2: the three covariance families and everything derived from them


def _p_ref(t):
    return float(erfc(abs(t) / math.sqrt(2.0)))


def check_matrices(out, res, ora):
    """Reported matrices against the exact ones. Returns {family: numpy matrix reported by the library}."""
    getters = dict(classical=('get_var_covar', 'varCovar'), robust=('get_robust_var_covar', 'robust_varCovar'),
                   bootstrap=('get_bootstrap_var_covar', 'bootstrap_varCovar'))
    reported = {}
    k = ora.k
    for f in ora.families:
        getter, attr = getters[f]
        try:
            frame = getattr(res, getter)()
            raw = np.asarray(getattr(res.data, attr), dtype=float)
        except Exception as e:  # noqa
            out.fail(f'varcovar:{f}:raises:{type(e).__name__}', f'{getter} raised {e!r}')
            continue
        if raw.shape != (k, k):
            out.fail(f'varcovar:{f}:shape', f'{attr} has shape {raw.shape} for K={k}')
            continue
        if list(frame.index) != ora.names or list(frame.columns) != ora.names:
            out.fail(f'varcovar:{f}:labels', f'{getter} labelled {list(frame.index)} x {list(frame.columns)}')
            continue
        tab = np.array([[float(frame.at[a, b]) for b in ora.names] for a in ora.names]).reshape(k, k)
        if not np.array_equal(tab, raw):
            out.fail(f'varcovar:{f}:frame', f'{getter} differs from the matrix used for the statistics')
        err = float(np.max(np.abs(raw - ora.ref[f]))) if np.all(np.isfinite(raw)) else float('inf')
        if not err <= ora.tol[f]:
            what = dict(classical='the (pseudo-)inverse of minus the Hessian',
                        robust='inverse x BHHH x inverse', bootstrap='the sample covariance of the replications')[f]
            out.fail(f'varcovar:{f}',
                     f'{f} variance-covariance matrix is not {what}: max error {err:.3e} > {ora.tol[f]:.3e} '
                     f'(rank of Hessian {ora.rank}/{k}, cond {ora.cond:.2e}); reported {raw.tolist()} '
                     f'exact {ora.ref[f].tolist()}')
        reported[f] = raw
    return reported


_BETA_ATTR = dict(
    classical=('stdErr', 'tTest', 'pValue'),
    robust=('robust_stdErr', 'robust_tTest', 'robust_pValue'),
    bootstrap=('bootstrap_stdErr', 'bootstrap_tTest', 'bootstrap_pValue'),
)


def derived_param(ora, reported, f, i):
    """(se, t, p) of parameter i from the matrix the library reports, or None if not judged."""
    if f not in reported or not ora.judged_param[f][i]:
        return None
    d = float(reported[f][i, i])
    if not d > 0:
        return None
    se = math.sqrt(d)
    t = ora.values[i] / se
    return se, t, _p_ref(t)


def derived_pair(ora, reported, f, i, j):
    """[cov, corr or None, t or None, p or None] of the pair (i, j), i > j."""
    mat = reported[f]
    cov = float(mat[i, j])
    corr = None
    if ora.corr_judged[f] and mat[i, i] > 0 and mat[j, j] > 0:
        corr = cov / (math.sqrt(mat[i, i]) * math.sqrt(mat[j, j]))
    t = p = None
    if ora.judged_pair[f][(i, j)]:
        r = float(mat[i, i]) + float(mat[j, j]) - 2.0 * cov
        if r > 0:
            t = (ora.values[i] - ora.values[j]) / math.sqrt(r)
            p = _p_ref(t)
    return [cov, corr, t, p]


def _rel_ok(got, want, rel):
    try:
        got = float(got)
    except (TypeError, ValueError):
        return False
    return math.isfinite(got) and abs(got - want) <= rel * abs(want) + 1e-300


def check_betas(out, res, ora, reported):
    """Beta objects: se = sqrt(diag), t = estimate / se, p = 2(1 - Phi(|t|)) within each family."""
    verified = []
    for i, b in enumerate(res.data.betas):
        row = dict(name=b.name, value=b.value)
        if b.name != ora.names[i] or not float(b.value) == ora.values[i]:
            out.fail('beta:value', f'parameter {i} reported as {b.name!r}={b.value!r}, '
                                   f'raw outcome has {ora.names[i]!r}={ora.values[i]!r}')
        for f in ora.families:
            a_se, a_t, a_p = _BETA_ATTR[f]
            got = (getattr(b, a_se), getattr(b, a_t), getattr(b, a_p))
            row[f] = got
            want = derived_param(ora, reported, f, i)
            if want is None:
                continue
            se, t, p = want
            var = float(reported[f][i, i])
            ctx = f'parameter {b.name!r} (estimate {b.value!r}, {f} variance {var!r})'
            if not _rel_ok(got[0], se, TOL_DERIVED):
                out.fail(f'beta:{f}_std_err', f'{ctx}: standard error {got[0]!r}, sqrt(variance) = {se!r}')
            if not _rel_ok(got[1], t, TOL_DERIVED):
                out.fail(f'beta:{f}_t_test', f'{ctx}: t-test {got[1]!r}, estimate / standard error = {t!r}')
            if not (isinstance(got[2], float) and abs(got[2] - p) <= TOL_P):
                out.fail(f'beta:{f}_p_value',
                         f'{ctx}: p-value {got[2]!r}, 2(1 - Phi(|t|)) = {p!r} for {f} t = {t!r}')
        verified.append(row)
    return verified


def _cell(frame, row, col):
    v = frame.at[row, col]
    return float(v)


def check_parameter_table(out, res, ora, reported, only_robust):
    tag = 'robust_only' if only_robust else 'all'
    try:
        frame = res.get_estimated_parameters(only_robust=only_robust)
    except Exception as e:  # noqa
        out.fail(f'param_table:{tag}:raises:{type(e).__name__}', f'get_estimated_parameters raised {e!r}')
        return None
    nb = None if ora.m['bootstrap'] is None else len(ora.m['bootstrap'])
    cols = ['Value']
    if any(ora.active):
        cols.append('Active bound')
    if not only_robust:
        cols += ['Std err', 't-test', 'p-value']
    cols += ['Rob. Std err', 'Rob. t-test', 'Rob. p-value']
    if nb is not None and not only_robust:
        cols += [f'Bootstrap[{nb}] Std err', 'Bootstrap t-test', 'Bootstrap p-value']
    if list(frame.columns) != cols:
        out.fail(f'param_table:{tag}:columns', f'columns {list(frame.columns)}, expected {cols}')
    if list(frame.index) != ora.names:
        out.fail(f'param_table:{tag}:rows', f'rows {list(frame.index)}, expected {ora.names}')
        return frame
    colmap = {
        'Std err': ('classical', 0), 't-test': ('classical', 1), 'p-value': ('classical', 2),
        'Rob. Std err': ('robust', 0), 'Rob. t-test': ('robust', 1), 'Rob. p-value': ('robust', 2),
        f'Bootstrap[{nb}] Std err': ('bootstrap', 0), 'Bootstrap t-test': ('bootstrap', 1),
        'Bootstrap p-value': ('bootstrap', 2),
    }
    what = ('std_err', 't_test', 'p_value')
    betas = res.data.betas
    for i, name in enumerate(ora.names):
        for col in frame.columns:
            try:
                got = _cell(frame, name, col)
            except (TypeError, ValueError):
                out.fail(f'param_table:{tag}:not_a_number', f'cell [{name!r}, {col!r}] is {frame.at[name, col]!r}')
                continue
            if col == 'Value':
                if got != ora.values[i]:
                    out.fail('param_table:value', f'[{name!r}, Value] = {got!r}, estimate is {ora.values[i]!r}')
            elif col == 'Active bound':
                if got != (1.0 if ora.active[i] else 0.0):
                    out.fail('param_table:active_bound',
                             f'[{name!r}, Active bound] = {got!r} for value {ora.values[i]!r} '
                             f'bounds {ora.m["bounds"][i]}')
            elif col in colmap:
                # the figure of that family as held by the Beta object (itself checked against the
                # defining formula by check_betas, key beta:<family>_<figure>): one key per root cause
                f, idx = colmap[col]
                want = float(getattr(betas[i], _BETA_ATTR[f][idx]))
                if not (got == want or _rel_ok(got, want, 1e-15)):
                    out.fail(f'param_table:{f}_{what[idx]}',
                             f'get_estimated_parameters(only_robust={only_robust}) [{name!r}, {col!r}] = {got!r}; '
                             f'the {f} {what[idx]} of that parameter is {want!r}')
    return frame


_PAIR_COLS = {
    'classical': ['Covariance', 'Correlation', 't-test', 'p-value'],
    'robust': ['Rob. cov.', 'Rob. corr.', 'Rob. t-test', 'Rob. p-value'],
    'bootstrap': ['Boot. cov.', 'Boot. corr.', 'Boot. t-test', 'Boot. p-value'],
}
_PAIR_WHAT = ('cov', 'corr', 't_test', 'p_value')


def check_pair_table(out, res, ora, reported, subset):
    tag = 'all' if subset is None else 'subset'
    try:
        frame = res.get_correlation_results(subset=subset)
    except Exception as e:  # noqa
        out.fail(f'pair_table:{tag}:raises:{type(e).__name__}', f'get_correlation_results raised {e!r}')
        return None
    cols = [c for f in ora.families for c in _PAIR_COLS[f]]
    if list(frame.columns) != cols:
        out.fail(f'pair_table:{tag}:columns', f'columns {list(frame.columns)}, expected {cols}')
    pairs = [(i, j) for i in range(ora.k) for j in range(i)
             if subset is None or (ora.names[i] in subset and ora.names[j] in subset)]
    labels = [f'{ora.names[i]}-{ora.names[j]}' for i, j in pairs]
    if sorted(frame.index) != sorted(labels):
        out.fail(f'pair_table:{tag}:rows', f'rows {list(frame.index)}, expected {labels} (subset {subset})')
        return frame
    for (i, j), label in zip(pairs, labels):
        for f in ora.families:
            if f not in reported:
                continue
            want = derived_pair(ora, reported, f, i, j)
            for idx, col in enumerate(_PAIR_COLS[f]):
                if col not in frame.columns or want[idx] is None:
                    continue
                try:
                    got = _cell(frame, label, col)
                except (TypeError, ValueError):
                    out.fail(f'pair_table:{tag}:not_a_number', f'cell [{label!r}, {col!r}] = {frame.at[label, col]!r}')
                    continue
                if idx == 0:
                    ok = got == want[0]
                elif idx == 3:
                    ok = abs(got - want[3]) <= TOL_P
                else:
                    ok = _rel_ok(got, want[idx], TOL_DERIVED if idx == 1 else TOL_PAIR) or \
                        (idx == 1 and abs(got - want[1]) <= 1e-12)
                if not ok:
                    mat = reported[f]
                    out.fail(f'pair:{f}_{_PAIR_WHAT[idx]}',
                             f'get_correlation_results [{label!r}, {col!r}] = {got!r}, defining formula gives '
                             f'{want[idx]!r} (estimates {ora.values[i]!r}, {ora.values[j]!r}; var_i '
                             f'{float(mat[i, i])!r}, var_j {float(mat[j, j])!r}, cov {float(mat[i, j])!r})')
    return frame


def _fmt3(x):
    return f'{float(x):.3g}'


def check_html(out, res, ora, got_stats, only_robust):
    try:
        html = res.get_html(only_robust=only_robust)
        ptab = res.get_estimated_parameters(only_robust=only_robust)
        ctab = res.get_correlation_results()
    except Exception as e:  # noqa
        out.fail(f'html:raises:{type(e).__name__}', f'get_html raised {e!r}')
        return
    # general statistics
    rows = dict(re.findall(r'<tr class=biostyle><td align=right ><strong>(.*?)</strong>: </td> <td>(.*?)</td></tr>',
                           html))
    if got_stats is not None:
        for label, w in ora.stats.items():
            if label not in got_stats:
                continue
            texts = _acceptable_texts(ora, got_stats, label, got_stats[label][1])
            if rows.get(label) not in texts:
                out.fail(f'html:general:{stat_key(label)}',
                         f'HTML report shows {label!r} as {rows.get(label)!r}; the quantity is {sorted(texts)}')
    # the two tables: every cell is the .3g form of the corresponding (verified) table cell
    m1 = re.search(r'<h1>Estimated parameters</h1>\n<table border="1">\n(.*?)</table>', html, re.S)
    m2 = re.search(r'<h2>Correlation of coefficients</h2>\n<table border="1">\n(.*?)</table>', html, re.S)
    if not m1 or not m2:
        out.fail('html:structure', 'HTML report lacks the parameter or the correlation table')
        return
    for tag, block, frame, nlabel in (('param', m1.group(1), ptab, 1), ('pair', m2.group(1), ctab, 2)):
        lines = [ln for ln in block.splitlines() if ln.startswith('<tr class=biostyle>')]
        header = re.findall(r'<th>(.*?)</th>', lines[0]) if lines else []
        if header[nlabel:] != list(frame.columns):
            out.fail(f'html:{tag}:columns', f'HTML {tag} table has columns {header}, table has {list(frame.columns)}')
            continue
        body = [re.findall(r'<td>(.*?)</td>', ln) for ln in lines[1:]]
        if len(body) != len(frame.index):
            out.fail(f'html:{tag}:rows', f'HTML {tag} table has {len(body)} rows, expected {len(frame.index)}')
            continue
        for cells, label in zip(body, frame.index):
            shown = '-'.join(cells[:nlabel])
            want = [_fmt3(frame.at[label, c]) for c in frame.columns]
            if shown != label or cells[nlabel:] != want:
                out.fail(f'html:{tag}:cells', f'HTML {tag} row {cells} differs from table row {label!r}: {want}')
                break


def check_str_betas(out, res, ora):
    """__str__: one line per parameter with [se t p] per family, then the first 8 pairwise figures."""
    text = str(res)
    for b in res.data.betas:
        want = f'{b.name:15}: {b.value:.3g}'
        for f in ora.families:
            se, t, p = (getattr(b, a) for a in _BETA_ATTR[f])
            want += f'[{se:.3g} {t:.3g} {p:.3g}]'
        if want not in text.splitlines():
            out.fail('str:beta_line', f'str(results) lacks the line {want!r}')
            break


def judge_families(spec) -> Outcome:
    out = Outcome()
    m = spec['model']
    ora = Oracle(m)
    if not ora.domain_ok:
        out.skipped = 'Hessian outside the domain'
        return out
    out.classes += model_classes(m, ora)
    out.nontrivial = (ora.k >= 2 and m['bootstrap'] is not None) or ora.rank < ora.k
    res = try_build(out, m)
    if res is None:
        return out
    reported = check_matrices(out, res, ora)
    check_betas(out, res, ora, reported)
    check_parameter_table(out, res, ora, reported, only_robust=False)
    check_parameter_table(out, res, ora, reported, only_robust=True)
    check_pair_table(out, res, ora, reported, None)
    if spec.get('subset') is not None:
        check_pair_table(out, res, ora, reported, spec['subset'])
    # the raw second-order table must be what the pairwise table shows (same order of figures)
    try:
        sot = res.data.secondOrderTable
        want_keys = [(ora.names[i], ora.names[j]) for i in range(ora.k) for j in range(i)]
        if sorted(sot.keys()) != sorted(want_keys):
            out.fail('second_order_table:keys', f'secondOrderTable keys {list(sot)}, expected {want_keys}')
        else:
            for (i, j) in [(i, j) for i in range(ora.k) for j in range(i)]:
                v = sot[(ora.names[i], ora.names[j])]
                if len(v) != 4 * len(ora.families):
                    out.fail('second_order_table:length', f'{len(v)} figures for {len(ora.families)} families')
                    break
    except Exception as e:  # noqa
        out.fail(f'second_order_table:raises:{type(e).__name__}', repr(e))
    if spec.get('html'):
        got_stats = check_general_statistics(out, res, ora, prefix='general')
        check_html(out, res, ora, got_stats, only_robust=bool(spec.get('html_only_robust')))
        check_str_betas(out, res, ora)
    return out


# ---------------------------------------------------------------------------------------------
# sub-check 3: tables compiled across models


DEFAULT_STATISTICS = ['Number of estimated parameters', 'Sample size', 'Final log likelihood',
                      'Akaike Information Criterion', 'Bayesian Information Criterion']
ALWAYS_STATISTICS = DEFAULT_STATISTICS + [
    'Excluded observations', 'Init log likelihood', 'Likelihood ratio test for the init. model',
    'Rho-square for the init. model', 'Rho-square-bar for the init. model', 'Final gradient norm',
    'Nbr of threads']
NULL_STATISTICS = ['Null log likelihood', 'Likelihood ratio test for the null model',
                   'Rho-square for the null model', 'Rho-square-bar for the null model']


# Forms of one entry of the dictionary given to compile_estimation_results ("for each model the name ... and
# the results, or the name of the pickle file containing them"):
RESULT_KINDS = ('object', 'pickle')  # a bioResults object / the name of the file written by write_pickle
# ... and names that do not lead to estimation results. The function logs 'Impossible to access result file'
# and goes on to the next model; the column of such a model exists (columns are the keys of the dictionary)
# and holds nothing (the table is returned through fillna('')):
NO_RESULT_KINDS = ('missing', 'garbage', 'empty', 'truncated', 'foreign', 'dataframe', 'directory')


def compile_entries(spec):
    """The entries of the dictionary, in order. Specs written before entries existed give every model as
    a bioResults object."""
    if spec.get('entries') is not None:
        return [dict(e) for e in spec['entries']]
    return [dict(key=k, kind='object', model=i) for i, k in enumerate(spec['keys'][: len(spec['models'])])]


def _write_no_result_file(entry, name, built):
    """A file (or directory) named `name` that does not hold estimation results."""
    import pandas as pd

    kind = entry['kind']
    if kind == 'missing':
        return
    if kind == 'directory':
        os.mkdir(name)
        return
    if kind == 'garbage':
        data = entry['content'].encode('utf-8')
    elif kind == 'empty':
        data = b''
    elif kind == 'truncated':
        # a strict prefix of a genuine results file: the final STOP opcode is never reached
        full = pickle.dumps(built[entry['model']].data)
        data = full[: (len(full) - 1) * entry['content'] // 1000]
    elif kind == 'foreign':
        data = pickle.dumps(entry['content'])
    elif kind == 'dataframe':
        data = pickle.dumps(pd.DataFrame(entry['content']))
    else:
        raise ValueError(f'unknown kind of entry {kind!r}')
    with open(name, 'wb') as f:
        f.write(data)


def _compile_case(spec, workdir) -> Outcome:
    """Runs in a forked child, inside the private directory `workdir` (created and removed by the parent)."""
    out = Outcome()
    os.chdir(workdir)
    results, _, BiogemeError, _ = _lib()
    models = spec['models']
    entries = compile_entries(spec)
    flags = spec['flags']
    via_directory = bool(spec.get('via_directory'))
    oracles = [Oracle(m) for m in models]
    with_result = [e for e in entries if e['kind'] in RESULT_KINDS]
    without = [e for e in entries if e['kind'] not in RESULT_KINDS]
    out.nontrivial = len(entries) >= 2 and len(with_result) >= 1
    forms = {e['kind'] for e in with_result}
    out.classes += [f'models={len(models)}', f'entries={len(entries)}',
                    'formatted' if flags['formatted'] else 'unformatted',
                    f"std={int(flags['stderr'])},ttest={int(flags['ttest'])}",
                    'short_names' if flags['short_names'] and not via_directory else 'long_names',
                    'statistics=default' if spec['statistics'] is None else 'statistics=chosen',
                    'given_as=' + ('nothing_readable' if not forms else 'mixed' if len(forms) > 1 else min(forms)),
                    f'entries_without_result={len(without)}']
    out.classes += sorted({'without_result:' + e['kind'] for e in without})
    if any(e.get('abs') for e in entries if e['kind'] != 'object'):
        out.classes.append('absolute_file_name')
    if via_directory:
        out.classes.append('compile_results_in_directory')
    seen_result = False
    for pos, e in enumerate(entries):
        if e['kind'] in RESULT_KINDS:
            seen_result = True
        else:
            out.classes.append('without_result_after_result' if seen_result else 'without_result_before_any_result')
            if any(x['kind'] in RESULT_KINDS for x in entries[pos + 1:]):
                out.classes.append('without_result_before_result')
    used = [e['model'] for e in with_result]
    if len(set(used)) < len(used):
        out.classes.append('one_model_under_several_names')
    if not flags['estimates']:
        out.classes.append('no_estimates')
    built = []
    for m in models:
        r = try_build(out, m)
        if r is None:
            return out
        built.append(r)
    used_models = [models[i] for i in sorted(set(used))]
    all_names = [n for m in used_models for n in m['names']]
    if len(set(all_names)) < len(all_names):
        out.classes.append('shared_parameter_names')
    if len(set(tuple(m['names']) for m in used_models)) > 1:
        out.classes.append('different_parameter_sets')
    # the files: first those without results, then the results files under the name write_pickle chooses
    # (it never overwrites an existing file)
    given = []  # what the dictionary holds for each entry
    for e in entries:
        if e['kind'] in RESULT_KINDS:
            given.append(None)
            continue
        _write_no_result_file(e, e['file'], built)
        given.append(os.path.join(workdir, e['file']) if e.get('abs') else e['file'])
    for pos, e in enumerate(entries):
        if e['kind'] == 'object':
            given[pos] = built[e['model']]
        elif e['kind'] == 'pickle':
            try:
                name = built[e['model']].write_pickle()
            except Exception as ex:  # noqa
                out.fail(f'compile:write_pickle:raises:{type(ex).__name__}', f'write_pickle raised {ex!r}')
                return out
            given[pos] = os.path.join(workdir, name) if e.get('abs') else name
    # the statistics of each model, as checked against their defining formulas (general:*)
    model_stats = []
    for r, o in zip(built, oracles):
        g = check_general_statistics(out, r, o)
        if g is None:
            return out
        model_stats.append(g)
    statistics = DEFAULT_STATISTICS if spec['statistics'] is None else list(spec['statistics'])
    # only statistics that every model with a result reports are in the domain of the call
    statistics = [s for s in statistics
                  if all(s in oracles[i].stats and s in model_stats[i] for i in set(used))]
    kwargs = dict(include_parameter_estimates=flags['estimates'], include_robust_stderr=flags['stderr'],
                  include_robust_ttest=flags['ttest'], formatted=flags['formatted'])
    if not via_directory:
        kwargs['use_short_names'] = flags['short_names']
    if spec['statistics'] is not None:
        kwargs['statistics'] = tuple(statistics)
    fl = 'formatted' if flags['formatted'] else 'unformatted'
    if via_directory:
        # every entry is a file of the directory; the name of the file is the name of the model
        keys = [g for g in given]
        call = 'compile_results_in_directory'
    else:
        keys = [e['key'] for e in entries]
        call = 'compile_estimation_results'
    try:
        if via_directory:
            answer = results.compile_results_in_directory(**kwargs)
        else:
            answer = results.compile_estimation_results(dict(zip(keys, given)), **kwargs)
        frame, config = answer
    except Exception as e:  # noqa
        out.fail(f'compile:{fl}:raises:{type(e).__name__}',
                 f'{call}({kwargs}) raised {type(e).__name__}: {str(e)[:200]} '
                 f'(entries {[x["kind"] for x in entries]})')
        return out
    if via_directory:
        cols = list(keys)
        if sorted(frame.columns) != sorted(cols):
            out.fail('compile:columns', f'columns {list(frame.columns)}, the directory holds {sorted(cols)}')
            return out
    else:
        cols = [f'Model_{i:06d}' for i in range(len(keys))] if flags['short_names'] else list(keys)
        if list(frame.columns) != cols:
            out.fail('compile:columns', f'columns {list(frame.columns)}, expected {cols}')
            return out
    if dict(config) != dict(zip(cols, keys)):
        out.fail('compile:configurations', f'configurations {config}, expected {dict(zip(cols, keys))}')
    # expected content, column by column, from the raw outcome of the model of THAT column:
    # label -> {column: (kind, value)}; a column of an entry without result expects nothing
    expected = {}
    for s in statistics:
        expected[s] = {}
    for c, e in zip(cols, entries):
        if e['kind'] not in RESULT_KINDS:
            continue
        r, o, g = built[e['model']], oracles[e['model']], model_stats[e['model']]
        for s in statistics:
            expected[s][c] = ('stat', g[s][0])
        if not flags['estimates']:
            continue
        for i, b in enumerate(r.data.betas):
            se, t = b.robust_stdErr, b.robust_tTest
            if flags['formatted']:
                title = b.name + (' (std)' if flags['stderr'] else '') + (' (t-test)' if flags['ttest'] else '')
                tokens = [f'{o.values[i]:.3g}']
                if flags['stderr']:
                    tokens.append(f'({se:.3g})')
                if flags['ttest']:
                    tokens.append(f'({t:.3g})')
                expected.setdefault(title, {})[c] = ('tokens', tokens)
            else:
                expected.setdefault(b.name, {})[c] = ('value_row', o.values[i])
                if flags['stderr']:
                    expected.setdefault(f'{b.name} (std)', {})[c] = ('std_row', se)
                if flags['ttest']:
                    expected.setdefault(f'{b.name} (ttest)', {})[c] = ('ttest_row', t)
    if not with_result:
        expected = {}  # no model contributes a row
    if sorted(frame.index) != sorted(expected):
        out.fail(f'compile:{fl}:rows', f'rows {list(frame.index)}, expected {list(expected)} '
                                       f'(entries {[x["kind"] for x in entries]})')
        return out
    for c, e in zip(cols, entries):
        has_result = e['kind'] in RESULT_KINDS
        for label, per_col in expected.items():
            got = frame.at[label, c]
            if c not in per_col:
                if not (isinstance(got, str) and got == ''):
                    if has_result:
                        out.fail(f'compile:{fl}:absent_parameter',
                                 f'[{label!r}, {c!r}] = {got!r} although the model has no such parameter')
                    else:
                        out.fail(f'compile:{fl}:entry_without_result',
                                 f'[{label!r}, {c!r}] = {got!r} although no estimation results can be read for '
                                 f'that model (entry {entries.index(e)} of {[x["kind"] for x in entries]} is '
                                 f'{e["kind"]})')
                continue
            kind, want = per_col[c]
            if kind == 'stat':
                try:
                    ok = bool(got == want) or _rel_ok(got, float(want), 1e-15)
                except (TypeError, ValueError):
                    ok = False
                if not ok:
                    out.fail(f'compile:statistic:{stat_key(label)}',
                             f'[{label!r}, {c!r}] = {got!r}, the model has {want!r}')
            elif kind == 'tokens':
                if not isinstance(got, str) or got.split() != want:
                    out.fail(f'compile:formatted:cell:std={int(flags["stderr"])},ttest={int(flags["ttest"])}',
                             f'[{label!r}, {c!r}] = {got!r}, the label names {" ".join(want)!r}')
            else:
                ok = False
                try:
                    ok = (float(got) == float(want)) or _rel_ok(got, float(want), 1e-12)
                except (TypeError, ValueError):
                    pass
                if not ok:
                    names = dict(value_row='estimate', std_row='robust standard error', ttest_row='robust t-test')
                    out.fail(f'compile:unformatted:{kind}',
                             f'[{label!r}, {c!r}] = {got!r}, the {names[kind]} of that parameter in that model '
                             f'is {want!r}')
    # the robust figures used above are themselves the defining ones
    for r, o in zip(built, oracles):
        reported = check_matrices(out, r, o)
        check_betas(out, r, o, reported)
    # the likelihood-ratio test as a method of the results object
    if len(built) >= 2:
        a, b = oracles[0], oracles[1]
        la, lb = models[0]['loglike'], models[1]['loglike']
        verdict = lr_reference((la, a.k), (lb, b.k), 0.05)
        try:
            got = built[0].likelihood_ratio_test(built[1], 0.05)
            exc = None
        except BiogemeError as e:
            got, exc = None, e
        except Exception as e:  # noqa
            out.fail(f'lrtest:raises:{type(e).__name__}', f'bioResults.likelihood_ratio_test raised {e!r}')
            verdict = None
        if verdict is not None:
            compare_lr(out, 'lrtest', verdict, got, exc,
                       f'bioResults.likelihood_ratio_test: self ({la!r}, {a.k}) vs other ({lb!r}, {b.k})')
    return out


_WARM_MODEL = dict(
    names=['ASC_CAR', 'B_TIME'], values=[0.5, -1.25], bounds=[[None, None], [-10.0, None]], sample_size=100,
    observations=100, excluded=0, loglike=-60.0, init_loglike=-69.0, null_loglike=-70.0,
    hessian_kind='negative_definite', hessian=[[-4.0, 1.0], [1.0, -3.0]], bhhh_kind='gram',
    bhhh=[[3.0, 0.5], [0.5, 2.0]], bootstrap=None, bootstrap_seconds=0, gradient=[1e-4, -2e-4], threads=1)
_warm = []


def _warm_up():
    """Once per process: the library is imported and run on a fixed model in the parent (pure Python, no file,
    no change of directory), so that the forked children pay neither the import nor the first-call set-up."""
    if _warm:
        return
    _warm.append(True)
    results = _lib()[0]
    try:
        res = build_results(_WARM_MODEL)
        pickle.dumps(res.data)
        for formatted in (True, False):
            results.compile_estimation_results({'a': res, 'b': res}, include_robust_stderr=True, formatted=formatted)
    except Exception:  # noqa: not a verdict; the generated cases judge the library
        pass


def judge_compile(spec) -> Outcome:
    if not all(Oracle(m).domain_ok for m in spec['models']):
        out = Outcome()
        out.skipped = 'Hessian outside the domain'
        return out
    _warm_up()
    workdir = tempfile.mkdtemp(prefix='verif_c08_')
    try:
        res = isolate.call(_compile_case, spec, workdir)
    finally:
        shutil.rmtree(workdir, ignore_errors=True)
    if not res['ok']:
        out = Outcome()
        out.fail(f'compile:child:{res["exc_type"]}',
                 f'the case did not complete: {res["exc_module"]}.{res["exc_type"]}: {str(res["exc_msg"])[:300]}')
        return out
    return res['value']


# ---------------------------------------------------------------------------------------------
# sub-check 4: the likelihood-ratio test


def lr_reference(m1, m2, alpha):
    """('undefined',) | ('refuse',) | ('test', statistic, threshold, reject or None)."""
    (l1, k1), (l2, k2) = m1, m2
    if k1 == k2:
        return ('undefined',)
    (lu, ku), (lr, kr) = ((l1, k1), (l2, k2)) if k1 > k2 else ((l2, k2), (l1, k1))
    if lu < lr:
        return ('refuse',)
    stat = float(-2 * (Fr(lr) - Fr(lu)))
    thr = float(chdtri(ku - kr, alpha))
    reject = None if abs(stat - thr) <= 1e-9 * thr else stat > thr
    return ('test', stat, thr, reject)


def compare_lr(out, prefix, verdict, got, exc, ctx):
    if verdict[0] == 'undefined':
        return
    if verdict[0] == 'refuse':
        if exc is None:
            out.fail(f'{prefix}:not_refused',
                     f'{ctx}: the model with more parameters has the lower log likelihood, but the test '
                     f'returned {tuple(got)!r} instead of raising BiogemeError')
        return
    _, stat, thr, reject = verdict
    if exc is not None:
        equal = stat == 0.0
        out.fail(f'{prefix}:refused' + (':equal_loglike' if equal else ''),
                 f'{ctx}: valid test (unrestricted log likelihood is not lower) refused with BiogemeError: '
                 f'{str(exc)[:160]}')
        return
    if not (abs(float(got.statistic) - stat) <= 1e-12 * (1 + abs(stat))):
        out.fail(f'{prefix}:statistic', f'{ctx}: statistic {got.statistic!r}, -2(L_R - L_U) = {stat!r}')
    if not _rel_ok(got.threshold, thr, 1e-9):
        out.fail(f'{prefix}:threshold', f'{ctx}: threshold {got.threshold!r}, chi-square quantile is {thr!r}')
    if reject is not None:
        said_reject = 'cannot' not in got.message
        if said_reject != reject:
            out.fail(f'{prefix}:message', f'{ctx}: message {got.message!r} with statistic {stat!r} and '
                                          f'threshold {thr!r}')


def judge_lrtest(spec) -> Outcome:
    out = Outcome()
    _, _, BiogemeError, lrt = _lib()
    m1 = (spec['l1'], spec['k1'])
    m2 = (spec['l2'], spec['k2'])
    alpha = spec['alpha']
    verdict = lr_reference(m1, m2, alpha)
    out.classes.append(verdict[0] + (':equal_loglike' if spec['l1'] == spec['l2'] else ''))
    if verdict[0] == 'test' and verdict[3] is not None:
        out.classes.append('reject' if verdict[3] else 'not_reject')
    out.nontrivial = verdict[0] == 'test' and verdict[1] > 0
    out.evaluations = 2
    for first, second, order in ((m1, m2, 'given'), (m2, m1, 'swapped')):
        got = exc = None
        try:
            got = lrt(first, second, alpha)
        except BiogemeError as e:
            exc = e
        except Exception as e:  # noqa
            out.fail(f'lrtest:raises:{type(e).__name__}', f'likelihood_ratio_test({first}, {second}, {alpha}) '
                                                          f'raised {e!r}')
            continue
        compare_lr(out, 'lrtest', verdict, got, exc,
                   f'likelihood_ratio_test({first}, {second}, significance_level={alpha})')
    if verdict[0] == 'undefined':
        out.skipped = 'equal numbers of parameters: no restricted model'
    return out


# ---------------------------------------------------------------------------------------------
# generators

NAME_POOL = ['ASC_CAR', 'ASC_TRAIN', 'B_COST', 'B_TIME', 'B_TIME_2', 'b1', 'b2', 'b10', 'B', 'b',
             'beta_with_a_rather_long_name_0123456789', 'MU', 'Zeta', 'alpha', 'lambda_', 'x.1',
             'β_time', '_p']



def _matrix(draw, rows, cols, lo, hi, integer=False):
    """rows x cols entries in [lo, hi]: mostly from a seeded numpy stream (well spread values), otherwise
    drawn element by element (shrinkable, biased towards 0 / +-1 / bounds)."""
    if rows * cols == 0:
        return np.zeros((rows, cols))
    if draw(st.sampled_from(range(20))) < 17:
        rng = np.random.RandomState(draw(st.integers(0, 2 ** 32 - 1)))
        if integer:
            return rng.randint(lo, hi + 1, size=(rows, cols)).astype(float)
        return rng.uniform(lo, hi, size=(rows, cols))
    el = st.integers(lo, hi) if integer else st.floats(lo, hi)
    rows_ = draw(st.lists(st.lists(el, min_size=cols, max_size=cols), min_size=rows, max_size=rows))
    return np.array(rows_, dtype=float).reshape(rows, cols)


@st.composite
def model_specs(draw, kmax=6, with_bootstrap=True, names_pool=None):
    pool = names_pool or NAME_POOL
    k = draw(st.integers(1, min(kmax, len(pool))))
    names = draw(st.lists(st.sampled_from(pool), min_size=k, max_size=k, unique=True))
    if draw(st.booleans()):
        names = sorted(names)  # what BIOGEME itself supplies
    values = draw(st.lists(st.one_of(st.floats(-3, 3), st.floats(-60, 60),
                                     st.sampled_from([0.0, 1.0, -1.0, 0.5])), min_size=k, max_size=k))
    values = [float(v) + 0.0 for v in values]
    bounds = []
    kinds = ['free', 'free', 'wide', 'wide', 'just_inactive']
    if draw(st.sampled_from(range(10))) < 4:
        kinds += ['at_lb', 'at_ub', 'near_ub']
    for v in values:
        kind = draw(st.sampled_from(kinds))
        if kind == 'free':
            bounds.append([None, None])
        elif kind == 'wide':
            bounds.append([v - 10.0 - abs(v), None if draw(st.booleans()) else v + 7.5 + abs(v)])
        elif kind == 'at_lb':
            bounds.append([v, v + 100.0])
        elif kind == 'at_ub':
            bounds.append([None, v])
        elif kind == 'near_ub':
            bounds.append([v - 50.0, v + 2.5e-7])
        else:
            bounds.append([v - 1e-3, v + 1e-3])
    n = draw(st.one_of(st.integers(1, 60), st.integers(61, 200000)))
    per = draw(st.sampled_from([1, 1, 1, 2, 9]))
    loglike = -draw(st.one_of(st.floats(0.01, 50.0), st.floats(50.0, 50000.0)))
    kind = draw(st.sampled_from(['worse', 'worse', 'equal', 'any']))
    if kind == 'worse':
        init = loglike - draw(st.floats(0.0, 2000.0))
    elif kind == 'equal':
        init = loglike
    else:
        init = -draw(st.floats(0.01, 60000.0))
    null = None
    if draw(st.booleans()):
        null = init - draw(st.floats(0.0, 500.0)) if draw(st.booleans()) else -draw(st.floats(0.01, 60000.0))
    # Hessian
    hkind = draw(st.sampled_from(['negative_definite', 'negative_definite', 'negative_definite',
                                  'singular', 'singular']))
    if k == 1 and hkind == 'singular' and draw(st.sampled_from(range(4))) != 3:
        hkind = 'negative_definite'  # the only singular 1 x 1 Hessian is 0: keep it rare
    if hkind == 'negative_definite':
        rows = draw(st.integers(0, k + 2))
        a = _matrix(draw, rows, k, -3, 3)
        eps = draw(st.sampled_from([1.0, 0.3, 10.0, 1e-2, 1e-4]))
        scale = draw(st.sampled_from([1.0, 1.0, 0.1, 25.0, 1e-3, 1e3]))
        hess = -(scale * (a.T @ a + eps * np.eye(k)))
        hess = (hess + hess.T) / 2.0
    else:
        rows = draw(st.integers(1, k - 1)) if k > 1 and draw(st.sampled_from(range(25))) != 24 else 0
        a = _matrix(draw, rows, k, -3, 3, integer=True)
        scale = draw(st.sampled_from([1.0, 1.0, 2.0, 5.0, 100.0]))
        hess = -(scale * (a.T @ a))
    hess = (hess + 0.0)
    # BHHH
    bkind = draw(st.sampled_from(['gram', 'gram', 'gram', 'minus_hessian']))
    if bkind == 'gram':
        rows = draw(st.integers(1, k + 3)) if draw(st.sampled_from(range(30))) != 29 else 0
        g = _matrix(draw, rows, k, -3, 3)
        bscale = draw(st.sampled_from([1.0, 1.0, 1e-2, 40.0]))
        bhhh = bscale * (g.T @ g)
        bhhh = (bhhh + bhhh.T) / 2.0
    else:
        bhhh = -hess
    bhhh = bhhh + 0.0
    boot = None
    if with_bootstrap and draw(st.sampled_from(range(10))) < 6:
        nb = draw(st.integers(2, 10))
        sigma = draw(st.sampled_from([0.3, 0.3, 2.0, 0.01]))
        noise = _matrix(draw, nb, k, -1, 1)
        boot = np.array(values)[None, :] + sigma * noise
        special = draw(st.sampled_from(range(30)))
        if special == 28:
            boot[:, draw(st.integers(0, k - 1))] = values[0]  # a replication that never moves
        elif special == 29 and k >= 2:
            boot[:, 1] = boot[:, 0]
        boot = (boot + 0.0).tolist()
    gradient = draw(st.lists(st.floats(-1e-3, 1e-3), min_size=k, max_size=k))
    return dict(
        names=names, values=values, bounds=bounds, sample_size=n, observations=n * per,
        excluded=draw(st.integers(0, 3)), loglike=float(loglike), init_loglike=float(init),
        null_loglike=None if null is None else float(null),
        hessian_kind=hkind, hessian=hess.tolist(), bhhh_kind=bkind, bhhh=bhhh.tolist(),
        bootstrap=boot, bootstrap_seconds=draw(st.integers(0, 5000)), gradient=[float(x) for x in gradient],
        threads=draw(st.integers(1, 16)),
    )


@st.composite
def strat_general(draw, tier):
    return dict(model=draw(model_specs(kmax=6)))


@st.composite
def strat_families(draw, tier):
    model = draw(model_specs(kmax=6))
    subset = None
    if draw(st.booleans()):
        subset = draw(st.lists(st.sampled_from(model['names'] + ['UNKNOWN_PARAMETER']), max_size=5, unique=True))
    html = draw(st.sampled_from(range(3))) == 2
    return dict(model=model, subset=subset, html=html, html_only_robust=draw(st.booleans()))


_COMPILE_POOL = ['ASC_CAR', 'ASC_TRAIN', 'B_COST', 'B_TIME', 'b1', 'b10']
_KEY_POOL = ['logit', 'nested', 'cnl', 'model with spaces', 'Model_000001', 'Model_000000', 'z', 'A',
             'asc:alt1;b_time:generic']


_MODEL_NAME_POOL = ['synthetic', 'logit', 'logit', 'nested model', 'm.01', 'b_time_generic']
_FILE_STEM_POOL = ['logit', 'broken', 'other', 'my data', 'synthetic', 'results.v2', 'zz']
_FOREIGN = st.one_of(
    st.integers(-5, 5), st.floats(-2, 2), st.sampled_from(['', 'logit.pickle', 'some text']), st.booleans(),
    st.lists(st.integers(0, 9), max_size=3),
    st.dictionaries(st.sampled_from(['a', 'betas', 'nparam', 'logLike']), st.integers(-3, 3), max_size=3))


@st.composite
def _entry_without_result(draw, stem, n_models, via_directory):
    """An entry of the dictionary that names something which is not a readable results file."""
    kinds = [k for k in NO_RESULT_KINDS if not (via_directory and k == 'missing')]
    kind = draw(st.sampled_from(kinds))
    entry = dict(kind=kind, model=None, abs=False if via_directory else draw(st.sampled_from([False, False, True])))
    if kind == 'missing':
        # names that no generated file can have
        entry['file'] = draw(st.sampled_from(['absent.pickle', 'no_such_directory/logit.pickle', 'absent',
                                              'absent.html']))
        if entry['file'] == 'absent' and draw(st.booleans()):
            entry['file'] = ''
            entry['abs'] = False
    else:
        # (write_pickle does not step aside for a directory: keep such names apart from the model names)
        entry['file'] = stem + ('.d.pickle' if kind == 'directory' else '.pickle')
    if kind == 'garbage':
        # bytes that are not a pickle stream (no text here can be read as one: the alphabet has no opcode)
        entry['content'] = draw(st.one_of(st.sampled_from(['this is not a pickle file', '<html></html>', '0', '.']),
                                          st.text(alphabet='xyz<> \n', min_size=1, max_size=12)))
    elif kind == 'truncated':
        entry['model'] = draw(st.integers(0, n_models - 1))
        entry['content'] = draw(st.integers(0, 1000))  # thousandths of the genuine file that are kept
    elif kind == 'foreign':
        entry['content'] = draw(_FOREIGN)
    elif kind == 'dataframe':
        entry['content'] = {'Value': draw(st.lists(st.floats(-2, 2), min_size=1, max_size=3))}
    return entry


@st.composite
def strat_compile(draw, tier):
    n = draw(st.integers(1, 3))
    models = [draw(model_specs(kmax=4, with_bootstrap=False, names_pool=_COMPILE_POOL)) for _ in range(n)]
    for m in models:
        m['model_name'] = draw(st.sampled_from(_MODEL_NAME_POOL))
    via_directory = draw(st.sampled_from(range(6))) == 5
    # how the models are given: all as objects, all as files, or each one in its own way
    how = 'pickle' if via_directory else draw(st.sampled_from(['object', 'pickle', 'mixed', 'mixed', 'mixed']))
    entries = []
    for i in range(n):
        kind = how if how != 'mixed' else draw(st.sampled_from(RESULT_KINDS))
        entries.append(dict(kind=kind, model=i))
    if draw(st.sampled_from(range(6))) == 5:
        # one more name for one of the models, in any form
        entries.append(dict(kind='pickle' if via_directory else draw(st.sampled_from(RESULT_KINDS)),
                            model=draw(st.integers(0, n - 1))))
    entries = draw(st.permutations(entries))
    for e in entries:
        e['abs'] = False if (via_directory or e['kind'] == 'object') else draw(st.sampled_from([False, False, True]))
    # entries without result, each at a generated position
    n_without = draw(st.sampled_from([0, 0, 0, 1, 1, 1, 2, 3]))
    stems = draw(st.lists(st.sampled_from(_FILE_STEM_POOL), min_size=n_without, max_size=n_without, unique=True))
    for stem in stems:
        entry = draw(_entry_without_result(stem, n, via_directory))
        entries.insert(draw(st.integers(0, len(entries))), entry)
    if n_without and draw(st.sampled_from(range(12))) == 11:
        entries = [e for e in entries if e['kind'] not in RESULT_KINDS]  # nothing can be read at all
    keys = draw(st.lists(st.sampled_from(_KEY_POOL), min_size=len(entries), max_size=len(entries), unique=True))
    for e, k in zip(entries, keys):
        e['key'] = k
    flags = dict(
        estimates=draw(st.sampled_from(range(8))) != 7,
        stderr=draw(st.booleans()),
        ttest=draw(st.booleans()),
        formatted=draw(st.booleans()),
        short_names=draw(st.booleans()),
    )
    statistics = None
    if draw(st.booleans()):
        statistics = draw(st.lists(st.sampled_from(ALWAYS_STATISTICS + NULL_STATISTICS), max_size=8, unique=True))
    return dict(models=models, keys=keys, entries=entries, via_directory=via_directory, flags=flags,
                statistics=statistics)


@st.composite
def strat_lrtest(draw, tier):
    l1 = -draw(st.one_of(st.floats(0.01, 100.0), st.floats(100.0, 1e5),
                         st.integers(1, 5000).map(float)))
    k1 = draw(st.integers(1, 12))
    k2 = max(1, k1 + draw(st.sampled_from([1, 2, -1, -2, 3, -3, 5, -5, 1, -1, 8, 0])))
    how = draw(st.sampled_from(['equal', 'near', 'near', 'far', 'far', 'threshold']))
    if how == 'equal':
        l2 = l1
    elif how == 'near':
        l2 = l1 + draw(st.floats(-12.0, 12.0))
    elif how == 'far':
        l2 = -draw(st.floats(0.01, 1e5))
    else:
        # around the critical value of the test that applies
        d = abs(k1 - k2) or 1
        half = float(chdtri(d, 0.05)) / 2.0
        l2 = l1 + (half if k2 > k1 else -half) * draw(st.sampled_from([0.999, 1.001, 0.9, 1.1]))
    l2 = min(float(l2), -1e-6)
    alpha = draw(st.sampled_from([0.05, 0.05, 0.01, 0.1, 0.5, 0.001, 0.9]))
    if draw(st.sampled_from(range(6))) == 5:
        alpha = draw(st.floats(1e-6, 0.999))
    return dict(l1=float(l1), k1=k1, l2=l2, k2=k2, alpha=float(alpha))


def _render_model(spec):
    return describe(spec['model'])[:600]


def _render_compile(spec):
    parts = []
    for e in compile_entries(spec):
        if e['kind'] in RESULT_KINDS:
            m = spec['models'][e['model']]
            what = (f"{'bioResults' if e['kind'] == 'object' else 'pickle file'} "
                    f"{dict(zip(m['names'], m['values']))} L={m['loglike']:.6g} N={m['sample_size']}")
        else:
            what = f"{e['kind']} file {e['file']!r}"
        parts.append(f"{e['key']}: {what}")
    call = 'compile_results_in_directory' if spec.get('via_directory') else 'compile_estimation_results'
    return f"{call}({{{'; '.join(parts)}}}, statistics={spec['statistics']}, flags={spec['flags']})"[:700]


SUBCHECKS = [
    SubCheck('general', strat_general, judge_general, _render_model,
             dict(quick=1600, thorough=40000),
             'get_general_statistics, short_summary, str, print_general_statistics vs exact formulas; '
             'non-trivial if the null log likelihood is present and K >= 2'),
    SubCheck('families', strat_families, judge_families, _render_model,
             dict(quick=2400, thorough=80000),
             'three variance-covariance matrices vs exact (pseudo-)inverse / sandwich / sample covariance, and '
             'every cell of the Beta objects, get_estimated_parameters (both modes), get_correlation_results '
             '(all / subset), HTML tables; non-trivial if (K >= 2 and bootstrap present) or singular Hessian'),
    SubCheck('compile', strat_compile, judge_compile, _render_compile,
             dict(quick=1000, thorough=30000),
             'compile_estimation_results / compile_results_in_directory over 1-7 entries (1-3 models given as '
             'bioResults objects, names of pickle files, or a mix, in any order, a model possibly under two names; '
             'entries naming a missing / empty / garbage / truncated / non-biogeme pickle file or a directory at '
             'generated positions) x {statistics, estimates, std, t-test, formatted, short names}: every cell of '
             'every column holds the quantity its row label names for the model of THAT column, and nothing for '
             'an entry without readable results; bioResults.likelihood_ratio_test; '
             'non-trivial if >= 2 entries of which >= 1 has results'),
    SubCheck('lrtest', strat_lrtest, judge_lrtest,
             lambda s: f"likelihood_ratio_test(({s['l1']}, {s['k1']}), ({s['l2']}, {s['k2']}), {s['alpha']}) "
                       f"and swapped",
             dict(quick=3000, thorough=60000),
             'statistic, chi-square threshold (scipy.special.chdtri), decision and documented refusal, both '
             'argument orders; non-trivial if a valid test with a positive statistic',
             max_skip_fraction=0.3),
]
RULE = ' | '.join(f'{s.name}: {s.rule}' for s in SUBCHECKS)
