"""C03 Parameters are identified by name everywhere, never by position of appearance."""
from __future__ import annotations

import copy
import math

import numpy as np
from hypothesis import strategies as st

from .. import build, gen, isolate, refsem
from .. import estimation_common as ec
from ..runner import Outcome, SubCheck
from .c01 import reference_values, features, tol

PROPERTY = 'C03'
LEVEL = 'exploration'
ASSUMPTIONS = [
    'metamorphic oracle: a model and its renamed + reordered twin (bijective renaming of the parameters, commutative '
    'operands swapped, dictionary / list entries permuted) are built as two independent object graphs and compared',
    'log likelihoods compared at 1e-9 relative to the sum of absolute per-row terms (reordering sums changes rounding); '
    'estimates at 2e-4 absolute/relative, standard errors and t-statistics at 2e-3 relative (optimiser tolerance 1e-7)',
    'whether a name->value dictionary entry naming a FIXED parameter overrides it is not asserted (undocumented)',
]
BUDGETS = dict(quick=dict(shards=8), thorough=dict(shards=16))

NEW_NAMES = ['p00', 'P01', 'p02', 'Q_3', 'q_4', 'r5', 'R6', 's_07', 'S_08', 't9', 'theta', 'Theta2', 'k_1', 'K_2',
             'omega1', 'OMEGA2', 'y_b', 'Y_a']


def rename_and_reorder(spec, mapping, rs):
    """Twin of an expression spec: parameters renamed, commutative structure reordered."""
    if not isinstance(spec, list) or not spec:
        return spec
    k = spec[0]
    rr = lambda s: rename_and_reorder(s, mapping, rs)  # noqa: E731
    if k == 'Beta':
        return ['Beta', mapping.get(spec[1], spec[1])] + list(spec[2:])
    if k in ('Num', 'Lit', 'Var', 'Draws', 'RV', 'Ref'):
        return list(spec)
    # (min / max keep their operand order: at a tie the derivative is that of the operand listed first)
    if k in ('Plus', 'Times', 'And', 'Or', 'Eq', 'Ne'):
        a, b = rr(spec[1]), rr(spec[2])
        return [k, b, a] if rs.rand() < 0.5 else [k, a, b]
    if k in ('Minus', 'Divide', 'Power', 'Le', 'Ge', 'Lt', 'Gt', 'Min', 'Max'):
        return [k, rr(spec[1]), rr(spec[2])]
    if k in refsem.UNARY:
        return [k, rr(spec[1])]
    if k == 'PowC':
        return ['PowC', rr(spec[1]), spec[2]]
    if k == 'BelongsTo':
        m = list(spec[2])
        rs.shuffle(m)
        return ['BelongsTo', rr(spec[1]), m]
    if k == 'Elem':
        e = [[kk, rr(v)] for kk, v in spec[2]]
        rs.shuffle(e)
        return ['Elem', rr(spec[1]), e]
    if k == 'MultSum':
        e = [rr(v) for v in spec[1]]
        rs.shuffle(e)
        return ['MultSum', e]
    if k == 'MultSumDict':
        e = [[kk, rr(v)] for kk, v in spec[1]]
        rs.shuffle(e)
        return ['MultSumDict', e]
    if k == 'CondSum':
        e = [[rr(c), rr(t)] for c, t in spec[1]]
        rs.shuffle(e)
        return ['CondSum', e]
    if k == 'LinUtil':
        e = [[rr(b), rr(x)] for b, x in spec[1]]
        rs.shuffle(e)
        return ['LinUtil', e]
    if k == 'LogLogit':
        e = [[a, rr(u), rr(av) if av is not None else None] for a, u, av in spec[2]]
        rs.shuffle(e)
        out = ['LogLogit', rr(spec[1]), e]
        if len(spec) > 3:
            out += list(spec[3:])
        return out
    raise ValueError(k)


def all_betas(root, shared=()):
    seen = {}
    for n in refsem.walk(root, shared):
        if n[0] == 'Beta':
            seen.setdefault(n[1], n)
        if n[0] == 'LinUtil':
            for b, _ in n[1]:
                seen.setdefault(b[1], b)
    return seen


@st.composite
def strat_likelihood(draw, tier):
    case = draw(gen.expression_cases(tier, differentiable=True, min_free=2, sharing=False, max_rows=6))
    betas = all_betas(case['roots'][0])
    names = sorted(betas)
    kind = draw(st.sampled_from(['reverse', 'random', 'swapcase', 'random']))
    cols = {c[0] for c in case['table']['columns']}
    if kind == 'swapcase' and len({n.swapcase() for n in names}) == len(names) and not ({n.swapcase() for n in names} & cols) \
            and not ({n.swapcase() for n in names} & set(names)):
        mapping = {n: n.swapcase() for n in names}
    else:
        pool = [n for n in NEW_NAMES if n not in cols]
        new = draw(st.lists(st.sampled_from(pool), min_size=len(names), max_size=len(names), unique=True))
        if kind == 'reverse':
            new = sorted(new, reverse=True)
        mapping = dict(zip(names, new))
    case['mapping'] = mapping
    case['shuffle_seed'] = draw(st.integers(0, 10**6))
    # a partial dictionary of values for get_value_c(betas=...)
    free = [n for n in names if betas[n][5] == 0]
    case['partial'] = {n: draw(gen.pos_values(0.25, 3.0) if betas[n][2] > 0 else gen.real_values(-2, 2))
                       for n in free if draw(st.booleans())}
    return case


def _observe_likelihood(case):
    import biogeme.biogeme as bio
    from biogeme.parameters import Parameters

    res = {}
    for tag, root, point, partial in (('A', case['roots'][0], case['pointA'], case['partial']),
                                      ('B', case['rootB'], case['pointB'], case['partialB'])):
        e = build.Builder([], overloads=case['overloads']).build(root)
        params = Parameters()
        params.set_value(name='number_of_threads', value=1)
        the = bio.BIOGEME(build.build_database(case['table']), e, parameters=params)
        the.save_iterations = False
        the.generate_html = False
        the.generate_pickle = False
        names = list(the.free_beta_names)
        x = [point[n] for n in names]
        d = the.calculate_likelihood_and_derivatives(x, scaled=False, hessian=False, bhhh=False)
        one = dict(names=names, like=float(the.calculate_likelihood(x, scaled=False)),
                   grad=dict(zip(names, np.asarray(d.gradient, dtype=float).tolist())),
                   bounds={n: list(the.get_bounds_on_beta(n)) for n in names},
                   sim=np.asarray(the.simulate({n: point[n] for n in case['dict_order'][tag]})['log_like'], dtype=float).tolist(),
                   beta_values=dict(the.get_beta_values()))
        e2 = build.Builder([], overloads=case['overloads']).build(root)
        db2 = build.build_database(case['table'])
        one['partial'] = np.asarray(e2.get_value_c(database=db2, betas=partial or None, prepare_ids=True), dtype=float).tolist()
        # the same object evaluated again without dictionary: the overrides must not have leaked
        one['after_partial'] = np.asarray(e2.get_value_c(database=db2, betas=None, prepare_ids=True), dtype=float).tolist()
        one['after_partial_empty'] = np.asarray(e2.get_value_c(database=db2, betas={}, prepare_ids=True), dtype=float).tolist()
        one['beta_values_after'] = dict(e2.get_beta_values())
        # new initial values (free and fixed parameters) after evaluations with a dictionary
        if case.get('reinit' + tag):
            e2.change_init_values(dict(case['reinit' + tag]))
            one['after_reinit'] = np.asarray(e2.get_value_c(database=db2, betas=None, prepare_ids=True), dtype=float).tolist()
            # the same values given with fix_betas to a fresh formula (already fixed parameters included)
            e5 = build.Builder([], overloads=case['overloads']).build(root)
            e5.fix_betas(dict(case['reinit' + tag]))
            one['after_fix'] = np.asarray(e5.get_value_c(database=build.build_database(case['table']), betas=None, prepare_ids=True),
                                          dtype=float).tolist()
        # a BIOGEME object given new starting values for SOME of its free parameters, then random ones
        e3 = build.Builder([], overloads=case['overloads']).build(root)
        the3 = bio.BIOGEME(build.build_database(case['table']), e3, parameters=params)
        the3.save_iterations = the3.generate_html = the3.generate_pickle = False
        pf = {n_: v_ for n_, v_ in (partial or {}).items() if n_ in names}
        if pf:
            the3.change_init_values(dict(pf))
            one['partial_free'] = pf
            one['free_values_after_change'] = [float(v_) for v_ in the3.id_manager.free_betas_values]
            try:
                one['init_like_after_change'] = float(the3.calculate_init_likelihood())
            except Exception as exc_:  # outside the domain at these values: not judged
                one['init_like_after_change'] = None
        np.random.seed(case['shuffle_seed'] % 1000)
        the3.set_random_init_values(default_bound=100.0)
        one['random_init'] = dict(names=list(the3.free_beta_names), vector=[float(v_) for v_ in the3.id_manager.free_betas_values],
                                  by_name={k_: float(v_) for k_, v_ in e3.get_beta_values().items()})
        res[tag] = one
    return res


def judge_likelihood(case) -> Outcome:
    out = Outcome()
    root = case['roots'][0]
    betas = all_betas(root)
    mapping = case['mapping']
    free = sorted(n for n, b in betas.items() if b[5] == 0)
    if len(free) < 1:
        out.skipped = 'no free parameter'
        return out
    rs = np.random.RandomState(case['shuffle_seed'])
    rootB = rename_and_reorder(root, mapping, rs)
    pointA = {n: case['betas'].get(n, b[2]) if b[5] == 0 else b[2] for n, b in betas.items()}
    pointB = {mapping[n]: v for n, v in pointA.items()}
    try:
        refs = reference_values(case, root, betas=pointA)
        with_partial = dict({n: b[2] for n, b in betas.items()}, **case['partial'])
        refs_partial = reference_values(case, root, betas=with_partial)
        refs_initial = reference_values(case, root, betas={n: b[2] for n, b in betas.items()})
    except (refsem.IllPosed, OverflowError) as e:
        out.skipped = 'ill-posed: ' + str(e)[:40]
        return out
    # new initial values for some parameters, fixed ones included (a pure function of the spec)
    rs2 = np.random.RandomState(case['shuffle_seed'] + 1)
    reinit = {n: float(b[2] + rs2.choice([0.25, -0.5, 1.0, 0.125])) for n, b in sorted(betas.items())
              if b[5] != 0 or rs2.uniform() < 0.5}
    refs_reinit = None
    if reinit:
        try:
            refs_reinit = reference_values(case, root, betas=dict({n: b[2] for n, b in betas.items()}, **reinit))
        except (refsem.IllPosed, OverflowError):
            reinit = {}
    appearance = [n for n in all_betas(root) if betas[n][5] == 0]
    appearanceB = [n for n in all_betas(rootB) if all_betas(rootB)[n][5] == 0]
    has_bound_or_fixed = any(b[3] is not None or b[4] is not None or b[5] != 0 for b in betas.values())
    out.nontrivial = (appearance != sorted(appearance) or appearanceB != sorted(appearanceB)) and has_bound_or_fixed
    out.classes += [f'free={min(len(free), 5)}', 'has_bound_or_fixed' if has_bound_or_fixed else 'no_bound',
                    'sorted_order_changes' if [mapping[n] for n in free] != sorted(mapping[n] for n in free) else 'sorted_order_kept']
    # the dictionaries handed to simulate list the parameters in another order than the sorted one
    ordA = list(free)
    rs.shuffle(ordA)
    case = dict(case, dict_order={'A': ordA[::-1] if ordA == sorted(ordA) else ordA,
                                  'B': [mapping[n] for n in (ordA[::-1] if ordA == sorted(ordA) else ordA)]})
    case2 = dict(case, rootB=rootB, pointA=pointA, pointB=pointB,
                 partialB={mapping[n]: v for n, v in case['partial'].items()},
                 reinitA=reinit, reinitB={mapping[n]: v for n, v in reinit.items()})
    res = isolate.call(_observe_likelihood, case2)
    if not res['ok']:
        out.fail(f'likelihood:raises:{res["exc_type"]}', f'{res["exc_type"]}: {res["exc_msg"][:300]} for '
                                                         f'{refsem.render(root)[:200]} / renamed {mapping}')
        return out
    A, B = res['value']['A'], res['value']['B']
    where = f' [{refsem.render(root)[:200]}  |  twin: {refsem.render(rootB)[:200]}  |  renaming {mapping}]'
    if A['names'] != free:
        out.fail('names:sorted', f'free_beta_names {A["names"]} vs sorted names {free}' + where)
        return out
    if B['names'] != sorted(mapping[n] for n in free):
        out.fail('names:sorted', f'free_beta_names {B["names"]} vs sorted names {sorted(mapping[n] for n in free)}' + where)
        return out
    total = sum(ev.v for ev in refs)
    scale = 1 + sum(abs(ev.v) for ev in refs)
    if not abs(A['like'] - total) <= 1e-9 * scale + sum(tol(ev) for ev in refs):
        out.fail('likelihood:value', f'calculate_likelihood {A["like"]!r} vs reference {total!r}' + where)
    if not abs(A['like'] - B['like']) <= 1e-9 * scale:
        out.fail('likelihood:renaming', f'log likelihood {A["like"]!r} becomes {B["like"]!r} after renaming/reordering' + where)
    for n in free:
        spec_bounds = [betas[n][3], betas[n][4]]
        if A['bounds'][n] != spec_bounds:
            out.fail('bounds:original', f'bounds of {n!r}: {A["bounds"][n]} vs declared {spec_bounds}' + where)
            break
        if B['bounds'][mapping[n]] != spec_bounds:
            out.fail('bounds:renaming', f'bounds of {mapping[n]!r} (was {n!r}): {B["bounds"][mapping[n]]} vs declared {spec_bounds}' + where)
            break
        ga, gb = A['grad'][n], B['grad'][mapping[n]]
        if not abs(ga - gb) <= 1e-7 * (1 + abs(ga) + abs(gb)) * max(1.0, scale):
            prefix = ''.join(f'[{f}]' for f in sorted(features(dict(case, shared=[]), root)))
            out.fail(prefix + 'gradient:renaming', f'd/d{n} = {ga!r} but d/d{mapping[n]} = {gb!r} in the twin' + where)
            break
        if A['beta_values'].get(n) != betas[n][2] or B['beta_values'].get(mapping[n]) != betas[n][2]:
            out.fail('get_beta_values', f'initial value of {n!r}: {A["beta_values"].get(n)!r} / {B["beta_values"].get(mapping[n])!r} vs {betas[n][2]!r}' + where)
            break
    for i, (a, b, ev) in enumerate(zip(A['sim'], B['sim'], refs)):
        if not (abs(a - ev.v) <= tol(ev) + 1e-9 * (1 + abs(ev.v)) and abs(a - b) <= 1e-9 * (1 + abs(ev.v))):
            out.fail('simulate:renaming', f'row {i}: simulate gives {a!r} / twin {b!r} / reference {ev.v!r}' + where)
            break
    for i, (a, b, ev) in enumerate(zip(A['partial'], B['partial'], refs_partial)):
        if not (abs(a - ev.v) <= tol(ev) + 1e-9 * (1 + abs(ev.v)) and abs(b - ev.v) <= tol(ev) + 1e-9 * (1 + abs(ev.v))):
            out.fail('partial_dictionary', f'row {i}: get_value_c(betas={case["partial"]}) gives {a!r} / twin {b!r}; with the named '
                                           f'parameters overridden and all others at their initial value the value is {ev.v!r}' + where)
            break
    for tagX, obs in (('A', A), ('B', B)):
        for which in ('after_partial', 'after_partial_empty'):
            for i, (a, ev) in enumerate(zip(obs[which], refs_initial)):
                if not abs(a - ev.v) <= tol(ev) + 1e-9 * (1 + abs(ev.v)):
                    out.fail('partial_dictionary:leaks', f'row {i}: after get_value_c(betas={case["partial"]}) the same formula evaluated '
                                                         f'without values gives {a!r}; at the initial values it is {ev.v!r}' + where)
                    return out
        if refs_reinit is not None and 'after_reinit' in obs:
            for i, (a, ev) in enumerate(zip(obs['after_reinit'], refs_reinit)):
                if not abs(a - ev.v) <= tol(ev) + 1e-9 * (1 + abs(ev.v)):
                    out.fail('change_init_values:not_used', f'row {i}: after an evaluation with a dictionary and then change_init_values('
                                                            f'{reinit}) the formula evaluates to {a!r}; with these values it is {ev.v!r}' + where)
                    return out
        if refs_reinit is not None and 'after_fix' in obs:
            for i, (a, ev) in enumerate(zip(obs['after_fix'], refs_reinit)):
                if not abs(a - ev.v) <= tol(ev) + 1e-9 * (1 + abs(ev.v)):
                    out.fail('fix_betas:not_used', f'row {i}: after fix_betas({reinit}) the formula evaluates to {a!r}; with these values it '
                                                   f'is {ev.v!r}' + where)
                    return out
        back = {v_: k_ for k_, v_ in mapping.items()}
        orig = (lambda nm_: nm_) if tagX == 'A' else (lambda nm_: back[nm_])
        if 'partial_free' in obs:
            want_vec = [obs['partial_free'].get(nm_, betas[orig(nm_)][2]) for nm_ in obs['names']]
            if obs['free_values_after_change'] != want_vec:
                out.fail('biogeme_change_init_values:vector', f'after BIOGEME.change_init_values({obs["partial_free"]}) the starting vector for '
                                                              f'{obs["names"]} is {obs["free_values_after_change"]}, expected {want_vec}' + where)
                return out
            if obs['init_like_after_change'] is not None:
                try:
                    pt = dict({n_: b_[2] for n_, b_ in betas.items()}, **{orig(k_): v_ for k_, v_ in obs['partial_free'].items()})
                    rr = reference_values(case, root, betas=pt)
                    want_l = sum(ev.v for ev in rr)
                    if not abs(obs['init_like_after_change'] - want_l) <= sum(tol(ev) for ev in rr) + 1e-9 * (1 + sum(abs(ev.v) for ev in rr)):
                        out.fail('biogeme_change_init_values:init_likelihood', f'after BIOGEME.change_init_values({obs["partial_free"]}) the initial log '
                                                                               f'likelihood is {obs["init_like_after_change"]!r}, expected {want_l!r}' + where)
                        return out
                except (refsem.IllPosed, OverflowError):
                    pass
        ri = obs['random_init']
        for pos_, nm_ in enumerate(ri['names']):
            b_ = betas[orig(nm_)]
            lo_, hi_ = (-100.0 if b_[3] is None else b_[3]), (100.0 if b_[4] is None else b_[4])
            v_ = ri['vector'][pos_]
            if not (lo_ <= v_ <= hi_) or ri['by_name'].get(nm_) != v_:
                out.fail('set_random_init_values', f'random starting value of {nm_!r}: {v_!r} in the vector, {ri["by_name"].get(nm_)!r} in the formula; '
                                                   f'its bounds are [{lo_}, {hi_}]' + where)
                return out
        for n in free:
            nm = n if tagX == 'A' else mapping[n]
            if obs['beta_values_after'].get(nm) != betas[n][2]:
                out.fail('partial_dictionary:initial_values_changed', f'initial value of {nm!r} is {obs["beta_values_after"].get(nm)!r} after an '
                                                                      f'evaluation with a dictionary; it was {betas[n][2]!r}' + where)
                return out
    return out


# ---------------------------------------------------------------------------------------------
# estimation under renaming


@st.composite
def strat_estimation(draw, tier):
    spec = draw(ec.logit_problems(tier, min_free=2, max_free=4))
    names = [p[0] for p in spec['params']]
    cols = {f'{a_}_{alt}' for a_ in spec['attrs'] for alt in spec['alts']} | {spec['choice_col'], 'WEIGHT'}
    new = draw(st.lists(st.sampled_from([n for n in NEW_NAMES if n not in cols]), min_size=len(names),
                        max_size=len(names), unique=True))
    if draw(st.booleans()):
        order = np.argsort(np.argsort(names))
        new_sorted = sorted(new, reverse=True)
        new = [new_sorted[r] for r in order]  # order-reversing renaming
    spec['mapping'] = dict(zip(names, new))
    spec['order_seed_b'] = draw(st.integers(0, 10**6))
    # bounds on some parameters (inactive, generous)
    for p in spec['params']:
        if p[4] == 0 and draw(st.booleans()):
            p[2] = -10.0 - draw(st.integers(0, 5))
        if p[4] == 0 and draw(st.booleans()):
            p[3] = 10.0 + draw(st.integers(0, 5))
    return spec


def _estimate(spec, order_seed):
    import biogeme.biogeme as bio
    from biogeme.parameters import Parameters
    from biogeme.expressions import TypeOfElementaryExpression as T

    loglike, weight = ec.build_model(spec, order_seed)
    formulas = {'log_like': loglike}
    if weight is not None:
        formulas['weight'] = weight
    params = Parameters()
    params.set_value(name='optimization_algorithm', value='simple_bounds_newton')
    params.set_value(name='number_of_threads', value=1)
    params.set_value(name='tolerance', value=1e-7)
    the = bio.BIOGEME(build.build_database(ec.table_of(spec)), formulas, parameters=params)
    the.modelName = 'verif_c03'
    the.save_iterations = False
    the.generate_html = False
    the.generate_pickle = False
    r = the.estimate()
    table = r.get_estimated_parameters(only_robust=False)
    corr = r.get_correlation_results()
    fixed = loglike.dict_of_elementary_expression(T.FIXED_BETA)
    # selections of estimates requested by name, in orders that are not the sorted one
    all_names = list(the.free_beta_names)
    rs = np.random.RandomState(spec['data_seed'] + 7)
    selections = [all_names[::-1], [all_names[i] for i in rs.permutation(len(all_names))][:max(1, len(all_names) - 1)]]
    selected = [[sel, {k_: float(v_) for k_, v_ in r.get_beta_values(my_betas=sel).items()}] for sel in selections]
    return dict(names=list(the.free_beta_names), beta=dict(r.get_beta_values()), selected=selected,
                table={n: {c: float(table.loc[n, c]) for c in table.columns if c != 'Active bound'} for n in table.index},
                corr={idx: {c: float(corr.loc[idx, c]) for c in corr.columns} for idx in corr.index},
                converged=bool(r.algorithm_has_converged()), loglike=float(r.data.logLike),
                fixed_after={n: b.initValue for n, b in fixed.items()},
                bounds={n: list(the.get_bounds_on_beta(n)) for n in the.free_beta_names})


def _observe_estimation(spec):
    a = _estimate(spec, None)
    specb = copy.deepcopy(spec)
    m = spec['mapping']
    for p in specb['params']:
        p[0] = m[p[0]]
    b = _estimate(specb, spec['order_seed_b'])
    return dict(A=a, B=b)


def judge_estimation(spec) -> Outcome:
    out = Outcome()
    ref = ec.Reference(spec)
    xs = ref.solve()
    if np.max(np.abs(xs)) > 8:
        out.skipped = 'degenerate problem (maximum far away / at infinity)'
        return out
    _, _, H, _ = ref.derivatives(xs)
    ev = np.linalg.eigvalsh(-H)
    if ev.min() < 1e-6 or ev.max() / ev.min() > 1e6:
        out.skipped = 'ill-conditioned problem'
        return out
    m = spec['mapping']
    names = ref.free_names
    has_fixed = any(p[4] != 0 for p in spec['params'])
    has_bounds = any(p[2] is not None or p[3] is not None for p in spec['params'])
    new_sorted = sorted(m[n] for n in names)
    out.nontrivial = [m[n] for n in names] != new_sorted and (has_fixed or has_bounds)
    out.classes += ['order_changes' if [m[n] for n in names] != new_sorted else 'order_kept',
                    'fixed' if has_fixed else 'no_fixed', 'bounds' if has_bounds else 'no_bounds']
    res = isolate.call(_observe_estimation, spec, timeout=600)
    if not res['ok']:
        out.fail(f'estimation:raises:{res["exc_type"]}', f'{res["exc_type"]}: {res["exc_msg"][:300]}')
        return out
    A, B = res['value']['A'], res['value']['B']
    where = f' [params {spec["params"]}, renaming {m}, seed {spec["data_seed"]}]'
    if A['names'] != names or B['names'] != new_sorted:
        out.fail('estimation:names', f'{A["names"]} / {B["names"]}' + where)
        return out
    if not (A['converged'] and B['converged']):
        out.skipped = 'optimiser did not report convergence'
        return out
    for tag_, obs_ in (('original', A), ('renamed', B)):
        for sel, got in obs_['selected']:
            want = {n_: obs_['beta'][n_] for n_ in sel}
            if got != want:
                out.fail('estimation:get_beta_values_selection', f'{tag_} model: get_beta_values(my_betas={sel}) = {got}, the estimates '
                                                                 f'are {want}' + where)
                return out
    for pos, n in enumerate(names):
        a, b, r_ = A['beta'][n], B['beta'][m[n]], xs[pos]
        if not (abs(a - r_) <= 2e-4 * (1 + abs(r_))):
            out.fail('estimation:estimate_vs_reference', f'{n!r}: estimate {a!r}, reference maximiser {r_!r}' + where)
            return out
        if not (abs(b - a) <= 2e-4 * (1 + abs(a))):
            out.fail('estimation:estimate_renaming', f'{n!r} -> {m[n]!r}: estimate {a!r} becomes {b!r}' + where)
            return out
        if A['bounds'][n] != B['bounds'][m[n]]:
            out.fail('estimation:bounds_renaming', f'{n!r}: bounds {A["bounds"][n]} vs {B["bounds"][m[n]]}' + where)
            return out
        for col, va in A['table'][n].items():
            vb = B['table'][m[n]].get(col)
            if vb is None or not abs(va - vb) <= 2e-3 * (abs(va) + abs(vb)) + 2e-4:
                out.fail(f'estimation:statistic_renaming', f'{col} of {n!r} = {va!r} but of {m[n]!r} = {vb!r}' + where)
                return out
    # pairwise statistics attach to the corresponding pair
    for idx, row in A['corr'].items():
        n1, n2 = idx.split('-') if idx.count('-') == 1 else (None, None)
        if n1 is None or n1 not in m or n2 not in m:
            continue
        cands = [f'{m[n1]}-{m[n2]}', f'{m[n2]}-{m[n1]}']
        rowb = next((B['corr'][c] for c in cands if c in B['corr']), None)
        if rowb is None:
            out.fail('estimation:pair_missing', f'pair {idx} has no counterpart among {list(B["corr"])[:6]}' + where)
            return out
        for col in ('Covariance', 'Correlation', 'Rob. cov.', 'Rob. corr.'):
            if col in row and not abs(row[col] - rowb[col]) <= 5e-3 * (abs(row[col]) + abs(rowb[col])) + 1e-6:
                out.fail('estimation:pair_statistic_renaming', f'{col} of {idx} = {row[col]!r} vs {rowb[col]!r}' + where)
                return out
    for p in spec['params']:
        if p[4] != 0:
            if A['fixed_after'].get(p[0]) != p[1] or B['fixed_after'].get(m[p[0]]) != p[1]:
                out.fail('estimation:fixed_changed', f'fixed {p[0]!r}: {A["fixed_after"].get(p[0])!r} / {B["fixed_after"].get(m[p[0]])!r} vs {p[1]!r}' + where)
            if p[0] in A['beta'] or m[p[0]] in B['beta']:
                out.fail('estimation:fixed_reported', f'fixed parameter {p[0]!r} reported among the estimates' + where)
    return out


# ---------------------------------------------------------------------------------------------
# one name for two kinds of element


@st.composite
def strat_duplicates(draw, tier):
    case = draw(gen.expression_cases(tier, differentiable=True, min_free=1, sharing=False, max_rows=3))
    root = case['roots'][0]
    betas = all_betas(root)
    if not betas:
        root = ['Plus', root, ['Beta', 'B_1', 0.5, None, None, 0]]
        case['roots'] = [root]
        betas = all_betas(root)
    victim = draw(st.sampled_from(sorted(betas)))
    kind = draw(st.sampled_from(['column', 'free_and_fixed', 'draw', 'random_variable']))
    cols = [c[0] for c in case['table']['columns']]
    case['dup_kind'] = kind
    case['victim'] = victim
    case['dup_column'] = draw(st.sampled_from(cols))
    case['entry'] = draw(st.sampled_from(['biogeme', 'get_value_c', 'get_value_and_derivatives']))
    return case


def _dup_root(case):
    root = case['roots'][0]
    victim, kind = case['victim'], case['dup_kind']
    if kind == 'column':
        # the parameter takes the name of a column of the table (which the formula may or may not read)
        return rename_and_reorder(root, {victim: case['dup_column']}, np.random.RandomState(0)), case['dup_column']
    b = all_betas(root)[victim]
    if kind == 'free_and_fixed':
        other = ['Beta', victim, b[2], None, None, 1 if b[5] == 0 else 0]
        return ['Plus', root, ['Times', ['Num', 0.5], other]], victim
    if kind == 'draw':
        return ['Plus', root, ['MonteCarlo', ['Times', ['Num', 0.5], ['Draws', victim, 'UNIFORM']]]], victim
    return ['Plus', root, ['Integrate', ['Times', ['RV', victim],
                                         ['exp', ['Times', ['Num', -0.5], ['PowC', ['RV', victim], 2.0]]]], victim]], victim


def _observe_dup(case):
    import biogeme.biogeme as bio
    from biogeme.parameters import Parameters

    root, _ = _dup_root(case)
    e = build.Builder([], overloads=False).build(root)
    database = build.build_database(case['table'])
    if case['entry'] == 'biogeme':
        params = Parameters()
        params.set_value(name='number_of_draws', value=4)
        the = bio.BIOGEME(database, e, parameters=params)
        names = list(the.free_beta_names)
        v = the.calculate_likelihood([0.5] * len(names), scaled=False)
        return ('value', float(v))
    if case['entry'] == 'get_value_c':
        v = e.get_value_c(database=database, number_of_draws=4, prepare_ids=True)
    else:
        v = e.get_value_and_derivatives(database=database, number_of_draws=4, gradient=False, hessian=False, bhhh=False,
                                        aggregation=False, prepare_ids=True).functions
    return ('value', np.asarray(v, dtype=float).tolist())


def judge_duplicates(case) -> Outcome:
    out = Outcome()
    kind = case['dup_kind']
    out.nontrivial = True
    out.classes += [f'kind={kind}', f'entry={case["entry"]}']
    res = isolate.call(_observe_dup, case)
    _, name = _dup_root(case)
    if res['ok']:
        out.fail(f'duplicate:{kind}:accepted:{case["entry"]}',
                 f'the name {name!r} is used for a parameter and for a {kind.replace("_", " ")}; {case["entry"]} returned '
                 f'{str(res["value"])[:80]} instead of refusing')
        return out
    if res['exc_type'] != 'BiogemeError':
        out.fail(f'duplicate:{kind}:wrong_error:{res["exc_type"]}',
                 f'name {name!r} used for two kinds: raised {res["exc_module"]}.{res["exc_type"]}: {res["exc_msg"][:200]} '
                 f'instead of BiogemeError ({case["entry"]})')
        return out
    if name not in (res['exc_msg'] or ''):
        out.fail(f'duplicate:{kind}:message', f'error message does not mention {name!r}: {res["exc_msg"][:200]}')
    return out


SUBCHECKS = [
    SubCheck('likelihood', strat_likelihood, judge_likelihood,
             lambda c: f"{refsem.render(c['roots'][0])[:300]} renamed by {c['mapping']}, partial {c['partial']}",
             dict(quick=1200, thorough=30000),
             'random formulas as log likelihood and their renamed + reordered twin: names sorted, likelihood, gradient by name, '
             'bounds by name, simulate rows, get_value_c with a partial dictionary; non-trivial: appearance order != sorted order '
             'in one of the twins and a bound or fixed parameter present', max_skip_fraction=0.3),
    SubCheck('estimation', strat_estimation, judge_estimation,
             lambda s: f"logit params {s['params']} renamed {s['mapping']} rows {s['n_rows']}"[:500],
             dict(quick=240, thorough=5000),
             'logit estimation of a model and of its renamed + reordered twin: estimates, every statistic of the parameter table, '
             'pairwise covariances/correlations and bounds attach to the corresponding names; fixed parameters untouched and '
             'unreported', max_skip_fraction=0.5),
    SubCheck('duplicates', strat_duplicates, judge_duplicates,
             lambda c: f"{c['dup_kind']} named like parameter {c['victim']!r} via {c['entry']}",
             dict(quick=400, thorough=8000),
             'a parameter name reused for a column, a draw variable, a random variable, or for a free and a fixed parameter, through '
             'BIOGEME(...), get_value_c and get_value_and_derivatives: must be refused with BiogemeError naming the name'),
]
RULE = ' | '.join(f'{s.name}: {s.rule}' for s in SUBCHECKS)
