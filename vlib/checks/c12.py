"""C12 Invalid specifications are refused with a clear error wherever the fault sits."""
from __future__ import annotations

import copy
import math

import numpy as np
from hypothesis import strategies as st

from . import c03

from .. import build, gen, isolate, refsem
from .. import models_common as mc
from ..runner import Outcome, SubCheck
from .c01 import reference_values, tol

PROPERTY = 'C12'
LEVEL = 'exploration'
ASSUMPTIONS = [
    'a valid generated formula (C01 grammar) is made invalid by planting ONE fault at a generated position; the un-faulted twin '
    'is evaluated through the same entry point and must be accepted with the reference values',
    'refusal = biogeme.exceptions.BiogemeError (the library\'s own error type) with a message naming the offending element; '
    'any other exception type (KeyError, RuntimeError from the compiled engine, ...) or a returned number is a violation',
    'variables outside the trajectory operator on panel data are only planted through BIOGEME(...): Expression.get_value_c on a '
    'panel database is used by the library itself for row-wise evaluation (remove, add_column) and is legitimate',
    'missing data: a cell equal to the declared code in a column that the formula certainly reads on that row must make the '
    'evaluation fail (any exception, no number); cells in columns that cannot be read on that row (unreferenced columns, '
    'other entries of a selection, terms of false conditions, utilities of unavailable alternatives) must be harmless; operands '
    'that a short-circuiting and/or may or may not read are never used for planting',
    'BIOGEME.simulate signals the failure of one observation by NaN in that row (the other rows keep their values) instead of '
    'raising; this is accepted as "not used in a calculation"',
]
BUDGETS = dict(quick=dict(shards=8), thorough=dict(shards=16))

ENTRY_POINTS = ['biogeme', 'get_value_c', 'get_value_and_derivatives', 'created_function', 'objective_function']


# ---------------------------------------------------------------------------------------------
# positions


def leaf_paths(spec, shared, want=('Var',), path=(), parents=(), in_shared=None):
    """[(path, parent kinds)] of leaves of the wanted kinds reachable from spec (not through Ref)."""
    out = []
    k = spec[0]
    if k in want:
        out.append((path, parents))
        return out
    if k in ('Num', 'Lit', 'Beta', 'Var', 'Draws', 'RV', 'Ref'):
        return out
    for idx, child, role in _children_with_index(spec):
        out += leaf_paths(child, shared, want, path + (idx,), parents + (f'{k}.{role}',))
    return out


def _children_with_index(spec):
    k = spec[0]
    if k in refsem.BINARY:
        return [((1,), spec[1], 'left'), ((2,), spec[2], 'right')]
    if k in refsem.UNARY or k in ('PowC', 'BelongsTo', 'Integrate', 'Derive'):
        return [((1,), spec[1], 'child')]
    if k == 'Elem':
        return [((1,), spec[1], 'key')] + [((2, i, 1), e, 'entry') for i, (_, e) in enumerate(spec[2])]
    if k == 'MultSum':
        return [((1, i), e, 'term') for i, e in enumerate(spec[1])]
    if k == 'MultSumDict':
        return [((1, i, 1), e, 'term') for i, (_, e) in enumerate(spec[1])]
    if k == 'CondSum':
        out = []
        for i, (c, t) in enumerate(spec[1]):
            out += [((1, i, 0), c, 'condition'), ((1, i, 1), t, 'term')]
        return out
    if k == 'LinUtil':
        return []  # its operands must be Beta / Variable objects: faults are planted elsewhere
    if k == 'LogLogit':
        out = [((1,), spec[1], 'choice')]
        for i, (_, u, av) in enumerate(spec[2]):
            out.append(((2, i, 1), u, 'utility'))
            if av is not None:
                out.append(((2, i, 2), av, 'availability'))
        return out
    return []


def get_at(spec, path):
    for idxs in path:
        for i in idxs:
            spec = spec[i]
    return spec


def set_at(spec, path, value):
    spec = copy.deepcopy(spec)
    node = spec
    flat = [i for idxs in path for i in idxs]
    for i in flat[:-1]:
        node = node[i]
    node[flat[-1]] = value
    return spec


# ---------------------------------------------------------------------------------------------
# faults planted into formulas


FORMULA_FAULTS = ['unknown_column', 'draw_outside_montecarlo', 'rv_outside_integrate', 'hessian_without_gradient']


@st.composite
def strat_faults(draw, tier):
    case = draw(gen.expression_cases(tier, sharing=False, max_rows=4, min_free=1))
    root = case['roots'][0]
    kind = draw(st.sampled_from(FORMULA_FAULTS))
    paths = leaf_paths(root, [], want=('Var', 'Num'))
    paths = [p for p in paths if p[0]]
    if not paths:
        root = ['Plus', root, ['Var', case['table']['columns'][0][0]]]
        case['roots'] = [root]
        paths = [p for p in leaf_paths(root, [], want=('Var', 'Num')) if p[0]]
    path, parents = draw(st.sampled_from(paths))
    case['fault'] = kind
    case['path'] = [list(p) for p in path]
    case['parents'] = list(parents)
    case['entry'] = draw(st.sampled_from(ENTRY_POINTS if kind != 'hessian_without_gradient' else ['get_value_and_derivatives', 'create_function']))
    case['bad_name'] = draw(st.sampled_from(['NOT_A_COLUMN', 'missing col', 'xi_draw', 'omega_rv', 'Zz9']))
    case['formulas'] = draw(st.sampled_from(['single', 'dict_first', 'dict_last']))
    case['late_column'] = draw(st.sampled_from([False, False, True]))
    return case


def faulty_root(case):
    root = case['roots'][0]
    path = tuple(tuple(p) for p in case['path'])
    kind = case['fault']
    name = case['bad_name']
    if kind == 'unknown_column':
        return set_at(root, path, ['Var', name])
    if kind == 'draw_outside_montecarlo':
        return set_at(root, path, ['Draws', name, 'UNIFORM'])
    if kind == 'rv_outside_integrate':
        return set_at(root, path, ['RV', name])
    return root


def _formulas(e, mode, database):
    """The formula alone, or in a dictionary with other (valid) formulas before or after it."""
    from biogeme.expressions import Numeric, Variable

    if mode in (None, 'single'):
        return e
    other = Numeric(1.0) + Variable(database.data.columns[0]) * 0.0
    if mode == 'dict_first':
        return {'log_like': e, 'weight': Numeric(1.0), 'zz_other': other}
    return {'aa_other': other, 'weight': Numeric(1.0), 'log_like': e}


def _database(case, root):
    """The table as a Database; optionally one column the formula reads is added with pandas after the creation."""
    if not case.get('late_column'):
        return build.build_database(case['table'])
    cols = [c[0] for c in case['table']['columns']]
    used = sorted({n_[1] for n_ in refsem.walk(root, []) if n_[0] == 'Var' and n_[1] in cols})
    if not used or len(cols) < 2:
        return build.build_database(case['table'])
    late = used[len(used) // 2]
    early = dict(columns=[c for c in case['table']['columns'] if c[0] != late])
    database = build.build_database(early)
    full = build.build_dataframe(case['table'])
    database.data[late] = full[late].to_numpy()
    return database


def _run_entry(case, root, entry, fault):
    import biogeme.biogeme as bio
    from biogeme.parameters import Parameters

    database = _database(case, root)
    e = build.Builder([], overloads=case['overloads']).build(root)
    betas = case['betas'] or None
    if fault != 'hessian_without_gradient' and entry in ('created_function', 'objective_function'):
        # the function is built first and called afterwards, with the free parameters as a vector (sorted names)
        names = refsem.free_names(root, [])
        point = {}
        for n_ in refsem.walk(root, []):
            for bspec in ([n_] if n_[0] == 'Beta' else [bb for bb, _ in n_[1]] if n_[0] == 'LinUtil' else []):
                point[bspec[1]] = (case['betas'] or {}).get(bspec[1], bspec[2])
        x = np.array([point[n_] for n_ in names], dtype=float)
        if entry == 'created_function':
            fct = e.create_function(database=database, number_of_draws=4, gradient=False, hessian=False, bhhh=False)
            return ('total', float(fct(x).function))
        obj = e.create_objective_function(database=database, number_of_draws=4, gradient=False, hessian=False, bhhh=False)
        obj.set_variables(x)
        return ('total', float(obj.f()))
    if fault == 'hessian_without_gradient':
        if entry == 'create_function':
            fct = e.create_function(database=database, gradient=False, hessian=True, bhhh=False)
            return ('value', 'function created')
        r = e.get_value_and_derivatives(database=database, betas=betas, gradient=False, hessian=True, bhhh=case.get('bhhh', False),
                                        aggregation=True, prepare_ids=True)
        return ('value', float(r.function))
    if entry == 'biogeme':
        params = Parameters()
        params.set_value(name='number_of_draws', value=4)
        params.set_value(name='number_of_threads', value=1)
        the = bio.BIOGEME(database, _formulas(e, case.get('formulas'), database), parameters=params)
        the.save_iterations = False
        names = list(the.free_beta_names)
        x = [(case['betas'] or {}).get(n, the.id_manager.free_betas.expressions[n].initValue) for n in names]
        sim = the.simulate(dict(zip(names, x)))
        return ('value', np.asarray(sim['log_like'], dtype=float).tolist())
    if entry == 'get_value_c':
        v = e.get_value_c(database=database, betas=betas, number_of_draws=4, prepare_ids=True)
    else:
        v = e.get_value_and_derivatives(database=database, betas=betas, number_of_draws=4, gradient=False, hessian=False,
                                        bhhh=False, aggregation=False, prepare_ids=True).functions
    return ('value', np.asarray(v, dtype=float).tolist())


def judge_faults(case) -> Outcome:
    out = Outcome()
    kind, entry = case['fault'], case['entry']
    root = case['roots'][0]
    parents = case['parents']
    direct_parent = parents[-1] if parents else 'root'
    out.nontrivial = len(parents) >= 2 and not direct_parent.startswith(('Plus', 'Times'))
    out.classes += [f'fault={kind}', f'entry={entry}', f'under={direct_parent}', 'column_added_after_creation' if case.get('late_column') else 'columns_at_creation']
    try:
        refs = reference_values(case, root)
    except (refsem.IllPosed, OverflowError) as e:
        out.skipped = 'ill-posed: ' + str(e)[:40]
        return out
    # (1) the un-faulted twin must be accepted
    if kind != 'hessian_without_gradient':
        res0 = isolate.call(_run_entry, case, root, entry, None)
        if not res0['ok']:
            out.fail(f'valid_rejected:{entry}:{res0["exc_type"]}',
                     f'a specification without fault was refused through {entry}: {res0["exc_type"]}: {res0["exc_msg"][:300]} '
                     f'for {refsem.render(root)[:250]}')
            return out
        vals = res0['value'][1]
        if res0['value'][0] == 'total':
            total = sum(ev.v for ev in refs)
            if not abs(vals - total) <= sum(tol(ev) for ev in refs) + 1e-12 * sum(abs(ev.v) for ev in refs):
                out.fail(f'valid_value:{entry}', f'{vals!r} vs reference total {total!r}')
                return out
            vals = []
        for i, (v, ev) in enumerate(zip(vals, refs)):
            if not abs(v - ev.v) <= tol(ev):
                out.fail(f'valid_value:{entry}', f'row {i}: {v!r} vs reference {ev.v!r}')
                return out
    # (2) the faulty one must be refused with the library's own error type
    bad = faulty_root(case)
    res = isolate.call(_run_entry, case, bad, entry, kind)
    where = (f' [fault {kind} planted under {" > ".join(parents[-3:])} in {refsem.render(bad)[:250]}; entry point {entry}]')
    if res['ok']:
        out.fail(f'{kind}:accepted:{entry}:under_{direct_parent}', f'no refusal: {str(res["value"])[:80]} was returned' + where)
        return out
    if res['exc_type'] != 'BiogemeError' or not (res['exc_module'] or '').startswith('biogeme'):
        out.fail(f'{kind}:wrong_error:{res["exc_type"]}:{entry}',
                 f'raised {res["exc_module"]}.{res["exc_type"]}: {res["exc_msg"][:160]} instead of BiogemeError' + where)
        return out
    msg = res['exc_msg'] or ''
    if not msg.strip():
        out.fail(f'{kind}:empty_message:{entry}', 'BiogemeError without message' + where)
    elif kind != 'hessian_without_gradient' and case['bad_name'] not in msg:
        out.fail(f'{kind}:message_without_name:{entry}', f'message does not name {case["bad_name"]!r}: {msg[:160]}' + where)
    return out


# ---------------------------------------------------------------------------------------------
# faults in models / data


@st.composite
def strat_structural(draw, tier):
    kind = draw(st.sampled_from(['choice_without_utility', 'util_av_key_mismatch', 'overlapping_nests', 'nest_outside_choice_set',
                                 'non_numeric_column', 'nan_cell', 'empty_table', 'variable_outside_trajectory', 'empty_availability',
                                 'cnl_nest_outside_choice_set']))
    n_alts = draw(st.integers(2, 5))
    alts = draw(st.lists(st.integers(0, 40), min_size=n_alts, max_size=n_alts, unique=True))
    table, info = draw(gen.tables(min_rows=2, max_rows=4, alts=alts, n_int=(1, 1), n_bool=(1, 1)))
    case = dict(kind=kind, table=table, alts=alts, utils=draw(mc.utilities(info, alts, ['B_TIME', 'b_cost', 'ASC_1', 'asc_2'])),
                av=draw(mc.availabilities(info, alts, table)), choice_col=info['choice'], nests=None, mu=None, log_gi=None,
                entry=draw(st.sampled_from(['biogeme', 'get_value_c', 'created_function'])), row=draw(st.integers(0, 3)),
                column=draw(st.integers(0, 20)), np_seed=0, extra=draw(st.integers(41, 60)),
                formulas=draw(st.sampled_from(['single', 'dict_first', 'dict_last'])))
    if kind in ('overlapping_nests', 'nest_outside_choice_set'):
        case['nests'] = draw(mc.nested_structure(alts))
        case['model'] = draw(st.sampled_from(['nested', 'lognested', 'nested_mev_mu', 'get_mev_for_nested',
                                              'get_mev_generating_for_nested']))
        case['tuple_syntax'] = draw(st.booleans())
    if kind == 'cnl_nest_outside_choice_set':
        case['nests'] = draw(mc.cross_nested_structure(alts))
        case['model'] = draw(st.sampled_from(['cnl', 'logcnl', 'cnlmu']))
        case['tuple_syntax'] = False
    return case


def _free_type():
    from biogeme.expressions import TypeOfElementaryExpression

    return TypeOfElementaryExpression.FREE_BETA


def _run_structural(case):
    import pandas as pd
    import biogeme.biogeme as bio
    import biogeme.database as db
    import biogeme.models as models
    from biogeme.expressions import Variable, Numeric, PanelLikelihoodTrajectory, exp
    from biogeme.parameters import Parameters

    kind = case['kind']
    df = build.build_dataframe(case['table'])
    if kind == 'non_numeric_column':
        col = df.columns[case['column'] % len(df.columns)]
        df[col] = df[col].astype(object)
        df.loc[df.index[case['row'] % len(df)], col] = 'abc'
        db.Database('t', df)
        return ('value', 'database accepted')
    if kind == 'nan_cell':
        col = df.columns[case['column'] % len(df.columns)]
        df[col] = df[col].astype(['float64', 'float32', 'float64', 'float16'][case['extra'] % 4])
        df.loc[df.index[case['row'] % len(df)], col] = float('nan')
        db.Database('t', df)
        return ('value', 'database accepted')
    if kind == 'empty_table':
        db.Database('t', df.iloc[0:0])
        return ('value', 'database accepted')
    util = mc.build_utils(case)
    av = mc.build_av(case)
    choice = Variable(case['choice_col'])
    if kind in ('overlapping_nests', 'nest_outside_choice_set', 'cnl_nest_outside_choice_set'):
        nests = mc.build_nests(case, 'cnl' if kind.startswith('cnl') else 'nested', case['tuple_syntax'])
        m = case['model']
        if m in ('nested', 'lognested', 'cnl', 'logcnl'):
            getattr(models, m)(util, av, nests, choice)
        elif m in ('nested_mev_mu', 'cnlmu'):
            getattr(models, m)(util, av, nests, choice, 1.5)
        else:
            getattr(models, m)(util, av, nests)
        return ('value', 'model expression built')
    database = db.Database('t', df)
    if kind == 'choice_without_utility':
        # the choice column takes a value for which no utility is defined (on one row)
        database.data.loc[database.data.index[case['row'] % len(df)], case['choice_col']] = case['extra']
        expr = models.loglogit(util, av, choice)
    elif kind == 'empty_availability':
        # a dictionary of availabilities that lists no alternative at all
        expr = (models.loglogit if case['column'] % 2 else models.logit)(util, {}, choice)
        if case['row'] % 2:
            expr = expr + Numeric(1.0)
    elif kind == 'util_av_key_mismatch':
        if av is None:
            av = {a: 1 for a in case['alts']}
        av = dict(av)
        av.pop(case['alts'][case['row'] % len(case['alts'])])
        if case['column'] % 2:
            av[case['extra']] = Numeric(1)
        expr = models.loglogit(util, av, choice)
    elif kind == 'variable_outside_trajectory':
        database.data['__id'] = np.arange(len(df)) // 2
        database.panel('__id')
        inside = exp(models.loglogit(util, av, choice))
        outside = Variable(df.columns[case['column'] % len(df.columns)])
        expr = PanelLikelihoodTrajectory(inside) * exp(outside * 0.01) if case['row'] % 2 else outside * 0.01 + PanelLikelihoodTrajectory(inside)
        if case['extra'] % 3 == 0:
            # the stray variable sits inside a Monte-Carlo integral, next to the trajectory
            from biogeme.expressions import MonteCarlo, bioDraws, log

            expr = log(MonteCarlo(PanelLikelihoodTrajectory(inside * exp(0.01 * bioDraws('xi_c12', 'NORMAL'))) * exp(outside * 0.01)))
        the = bio.BIOGEME(database, expr, parameters=Parameters())
        return ('value', float(the.calculate_likelihood([0.0] * len(the.free_beta_names), scaled=False)))
    if case['entry'] == 'biogeme':
        the = bio.BIOGEME(database, _formulas(expr, case.get('formulas'), database), parameters=Parameters())
        return ('value', float(the.calculate_likelihood([0.0] * len(the.free_beta_names), scaled=False)))
    if case['entry'] == 'created_function':
        fct = expr.create_function(database=database, gradient=False, hessian=False, bhhh=False)
        return ('value', float(fct(np.zeros(len(expr.set_of_elementary_expression(the_type=_free_type())))).function))
    return ('value', np.asarray(expr.get_value_c(database=database, prepare_ids=True), dtype=float).tolist())


def judge_structural(case0) -> Outcome:
    out = Outcome()
    case = copy.deepcopy(case0)
    kind = case['kind']
    out.nontrivial = True
    out.classes += [f'fault={kind}', f'entry={case["entry"]}']
    alts = case['alts']
    if kind == 'overlapping_nests':
        # the same alternative in two nests: any pair of positions, adjacent or not
        nests = case['nests']
        mode = case['column'] % 4
        if mode == 0 or len(nests) < 2:
            src = nests[0][1][0]
            if len(nests) >= 2:
                nests[1][1].append(src)
            else:
                nests.append([['Lit', 1.5], [src]])
        elif mode == 1:
            nests.append([['Lit', 1.5], [nests[0][1][case['row'] % len(nests[0][1])]]])  # first and (new) last nest
        elif mode == 2:
            nests[0][1].append(nests[-1][1][0])  # last nest's member also in the first
        else:
            i, j = sorted([case['row'] % len(nests), case['extra'] % len(nests)])
            if i == j:
                j = (i + 1) % len(nests)
            nests[j][1].append(nests[i][1][0])
        out.classes.append(f'overlap_mode={mode}:nests={len(nests)}')
    elif kind == 'nest_outside_choice_set':
        case['nests'][case['row'] % len(case['nests'])][1].append(case['extra'])
    elif kind == 'cnl_nest_outside_choice_set':
        case['nests'][case['row'] % len(case['nests'])][1].append([case['extra'], ['Lit', 0.5]])
    res = isolate.call(_run_structural, case)
    where = f' [{kind}; alternatives {alts}; nests {case.get("nests")}; entry {case["entry"]}]'
    if res['ok']:
        out.fail(f'{kind}:accepted' + (f':{case.get("model")}' if case.get('model') else f':{case["entry"]}'),
                 f'no refusal: {str(res["value"][1])[:80]}' + where)
        return out
    if res['exc_type'] != 'BiogemeError' or not (res['exc_module'] or '').startswith('biogeme'):
        out.fail(f'{kind}:wrong_error:{res["exc_type"]}' + (f':{case.get("model")}' if case.get('model') else f':{case["entry"]}'),
                 f'raised {res["exc_module"]}.{res["exc_type"]}: {res["exc_msg"][:200]} instead of BiogemeError' + where)
        return out
    if not (res['exc_msg'] or '').strip():
        out.fail(f'{kind}:empty_message', 'BiogemeError without message' + where)
    return out


# ---------------------------------------------------------------------------------------------
# missing-data code


def reads(spec, env, alg):
    """(certainly read, possibly read) column names when the formula is evaluated on env.row."""
    k = spec[0]
    if k == 'Var':
        return {spec[1]}, set()
    if k in ('Num', 'Lit', 'Beta', 'Draws', 'RV'):
        return set(), set()
    sure, maybe = set(), set()

    def add(child, certain=True):
        s, m = reads(child, env, alg)
        if certain:
            sure.update(s)
            maybe.update(m)
        else:
            maybe.update(s | m)
    if k in ('And', 'Or'):
        add(spec[1])
        add(spec[2], certain=False)  # short-circuit: may or may not be evaluated
    elif k == 'Elem':
        add(spec[1])
        key = alg.intkey(refsem.evaluate(spec[1], env, alg))
        for kk, e in spec[2]:
            if int(kk) == key:
                add(e)
    elif k == 'CondSum':
        for c, t in spec[1]:
            add(c)
            if alg.truth(refsem.evaluate(c, env, alg)):
                add(t)
    elif k == 'LogLogit':
        add(spec[1])
        for _, u, av in spec[2]:
            if av is not None:
                add(av)
            if av is None or alg.truth(refsem.evaluate(av, env, alg)):
                add(u)
    elif k == 'LinUtil':
        # the engine skips terms whose parameter or variable is zero: only "possibly read"
        for b, x in spec[1]:
            add(x, certain=False)
    elif k == 'Times':
        # the engine may skip the second factor when the first is zero
        add(spec[1])
        add(spec[2], certain=False)
        left = refsem.evaluate(spec[1], env, alg)
        if alg.val(left) != 0:
            s, m = reads(spec[2], env, alg)
            sure.update(s)
    else:
        for c in refsem.children(spec):
            add(c)
    return sure, maybe


@st.composite
def strat_missing(draw, tier):
    case = draw(gen.expression_cases(tier, sharing=False, max_rows=4, min_free=0))
    case['code'] = draw(st.sampled_from([99999, 99999, -999, 77, 0]))
    case['entry'] = draw(st.sampled_from(['get_value_c', 'biogeme_likelihood', 'biogeme_simulate']))
    if case['entry'] == 'get_value_c':
        case['code'] = 99999  # the direct path has no way to declare another code
    case['plant'] = draw(st.sampled_from(['read', 'read', 'unread', 'unread', 'none']))
    case['pick'] = draw(st.integers(0, 1000))
    case['row'] = draw(st.integers(0, 3))
    return case


def _run_missing(case, table):
    import biogeme.biogeme as bio
    from biogeme.parameters import Parameters

    database = build.build_database(table)
    e = build.Builder([], overloads=case['overloads']).build(case['roots'][0])
    if case['entry'] == 'get_value_c':
        return np.asarray(e.get_value_c(database=database, betas=case['betas'] or None, prepare_ids=True), dtype=float).tolist()
    params = Parameters()
    params.set_value(name='missing_data', value=case['code'])
    params.set_value(name='number_of_threads', value=1)
    the = bio.BIOGEME(database, e, parameters=params)
    the.save_iterations = False
    names = list(the.free_beta_names)
    x = [(case['betas'] or {}).get(n, the.id_manager.free_betas.expressions[n].initValue) for n in names]
    if case['entry'] == 'biogeme_likelihood':
        return [float(the.calculate_likelihood(x, scaled=False))]
    return np.asarray(the.simulate(dict(zip(names, x)))['log_like'], dtype=float).tolist()


def judge_missing(case) -> Outcome:
    out = Outcome()
    root = case['roots'][0]
    rows = build.table_rows(case['table'])
    r = case['row'] % len(rows)
    code = float(case['code'])
    if code == 0.0:
        # a declared code of 0: the generated table is first made free of zeros (1 instead), the planted cell is the only one
        case = dict(case, table=dict(columns=[[n_, t_, [(1 if t_ == 'int' else 1.0) if v == 0 else v for v in vals]]
                                              for n_, t_, vals in case['table']['columns']]))
        rows = build.table_rows(case['table'])
    try:
        refs = reference_values(case, root)
        alg = refsem.JetAlg(0)
        env = refsem.Env(row=rows[r], betas=case['betas'], shared=[])
        sure, maybe = reads(root, env, alg)
    except (refsem.IllPosed, OverflowError) as e:
        out.skipped = 'ill-posed: ' + str(e)[:40]
        return out
    cols = [c[0] for c in case['table']['columns']]
    if any(abs(v - code) < 0.5 for row in rows for v in row.values()):
        out.skipped = 'table already contains the code'
        return out
    plant = case['plant']
    table = copy.deepcopy(case['table'])
    target = None
    if plant == 'read':
        cands = sorted(sure)
        if not cands:
            out.skipped = 'the formula certainly reads no column on that row'
            return out
        target = cands[case['pick'] % len(cands)]
    elif plant == 'unread':
        cands = sorted(set(cols) - sure - maybe)
        if not cands:
            out.skipped = 'every column may be read'
            return out
        target = cands[case['pick'] % len(cands)]
    if target is not None:
        for c in table['columns']:
            if c[0] == target:
                c[2][r] = case['code']
                if c[1] == 'int' and float(case['code']) != int(case['code']):
                    c[1] = 'float'
    referenced = {n[1] for n in refsem.walk(root, []) if n[0] == 'Var'} | \
                 {x[1] for n in refsem.walk(root, []) if n[0] == 'LinUtil' for _, x in n[1]}
    in_branch = plant == 'unread' and target in referenced
    out.nontrivial = plant == 'read' or in_branch
    out.classes += [f'plant={plant}', f'entry={case["entry"]}', f'code={case["code"]}',
                    'untaken_branch' if in_branch else ('unreferenced_column' if plant == 'unread' else plant)]
    res = isolate.call(_run_missing, case, table)
    where = (f' [code {case["code"]} planted in column {target!r} of row {r}; formula {refsem.render(root)[:250]}; '
             f'entry {case["entry"]}]')
    if plant == 'read':
        if res['ok']:
            vals = res['value']
            # BIOGEME.simulate reports the failure of one observation as NaN in that row instead of raising:
            # the code is not used as a number, which is what the property protects (see ASSUMPTIONS)
            nan_row = case['entry'] == 'biogeme_simulate' and len(vals) == len(rows) and math.isnan(vals[r]) and all(
                abs(v - ev.v) <= tol(ev) for i, (v, ev) in enumerate(zip(vals, refs)) if i != r)
            if not nan_row:
                out.fail(f'missing:used_in_calculation:{case["entry"]}',
                         f'a value equal to the missing-data code was used: {str(vals)[:80]} returned' + where)
        return out
    if not res['ok']:
        # the logit audit evaluates choice and availability expressions on EVERY row, whatever branch the row takes
        tag = ''
        for n_ in refsem.walk(root, []):
            if n_[0] == 'LogLogit':
                subs = [n_[1]] + [av for _, _, av in n_[2] if av is not None]
                if any(m_[0] == 'Var' and m_[1] == target for sub in subs for m_ in refsem.walk(sub, [])):
                    tag = '[code_in_choice_or_availability_of_untaken_logit]'
        out.fail(f'{tag}missing:harmless_code_refused:{case["entry"]}:{res["exc_type"]}',
                 f'{res["exc_type"]}: {res["exc_msg"][:200]} although the formula does not read that cell' + where)
        return out
    vals = res['value']
    if case['entry'] == 'biogeme_likelihood':
        total = sum(ev.v for ev in refs)
        if not abs(vals[0] - total) <= sum(tol(ev) for ev in refs) + 1e-10 * (1 + abs(total)):
            out.fail(f'missing:value:{case["entry"]}', f'{vals[0]!r} vs {total!r}' + where)
    else:
        for i, (v, ev) in enumerate(zip(vals, refs)):
            if not abs(v - ev.v) <= tol(ev):
                out.fail(f'missing:value:{case["entry"]}', f'row {i}: {v!r} vs reference {ev.v!r}' + where)
                break
    return out


SUBCHECKS = [
    SubCheck('faults', strat_faults, judge_faults,
             lambda c: f"{c['fault']} at {c['parents'][-3:]} via {c['entry']} in {refsem.render(c['roots'][0])[:250]}",
             dict(quick=1000, thorough=40000),
             'a valid random formula with one fault (unknown column, draw outside MonteCarlo, integration variable outside Integrate, '
             'second derivatives without first) planted at a generated leaf position under any operator, through BIOGEME(...), '
             'get_value_c, get_value_and_derivatives; non-trivial: depth >= 2 below an operator other than Plus/Times',
             max_skip_fraction=0.2),
    SubCheck('structural', strat_structural, judge_structural,
             lambda c: f"{c['kind']} alternatives {c['alts']} nests {c.get('nests')} via {c.get('model') or c['entry']}",
             dict(quick=500, thorough=15000),
             'choice value without utility, utility/availability key mismatch, overlapping nests, nest member outside the choice '
             'set (nested and cross-nested), non-numeric column, NaN cell, empty table, variable outside the trajectory on panel data'),
    SubCheck('one_name_two_kinds', c03.strat_duplicates, c03.judge_duplicates,
             lambda c: f"{c['dup_kind']} named like parameter {c['victim']!r} via {c['entry']}",
             dict(quick=300, thorough=8000),
             'a parameter name reused for a column, a draw variable, an integration variable, or for a free and a fixed parameter, '
             'through BIOGEME(...), get_value_c and get_value_and_derivatives: must be refused with BiogemeError naming the name '
             '(the generator and judge are those of C03 duplicates)'),
    SubCheck('missing_data', strat_missing, judge_missing,
             lambda c: f"code {c['code']} plant={c['plant']} via {c['entry']} in {refsem.render(c['roots'][0])[:250]}",
             dict(quick=1000, thorough=40000),
             'cells equal to the declared missing-data code (default and non-default) planted in a column the formula certainly '
             'reads on that row, in an unreferenced column, or in a branch not taken on that row; non-trivial: read, or untaken branch',
             max_skip_fraction=0.45),
]
RULE = ' | '.join(f'{s.name}: {s.rule}' for s in SUBCHECKS)
