"""C17 Specification helpers equal their documented closed forms.

Every helper expression is built with the real library and evaluated through the compiled
engine inside a forked child; the closed forms are computed in the parent with math / numpy /
scipy from the numbers of the spec only.
"""
from __future__ import annotations

import math

import numpy as np
import pandas as pd
from hypothesis import strategies as st
from scipy import integrate, stats

import biogeme.database as bdb
import biogeme.distributions as bdist
import biogeme.expressions as bex
import biogeme.loglikelihood as bll
import biogeme.models as bmodels
import biogeme.nests as bnests
import biogeme.segmentation as bseg

from .. import isolate
from ..runner import Outcome, SubCheck

PROPERTY = 'C17'
LEVEL = 'exploration'
ASSUMPTIONS = [
    'closed forms: max(0, min(t-a, b)) per closed interval (docstring); with an open lower end the first '
    'variable is min(t, t_1) and with an open upper end the last one is max(0, t - t_{K-1}) (pinned by '
    'tests/functions/test_models.py), so the variables sum to clip(t, t_first, t_last) - t_first '
    '(t_first counted as 0 when open)',
    'Box-Cox reference math.expm1(l ln x)/l (ln x at l = 0); tolerance 1e-9 relative inside the documented '
    'series region |l| < 1e-5, plus 8 ulp(max(1, x^l))/|l| outside (conditioning of the documented quotient)',
    'scipy.stats norm / lognorm / uniform / triang / logistic and scipy.integrate.quad are the textbook '
    'functions; 1e-8 relative (+1e-13 of the peak density for the two bounded densities)',
    'shift parameters of a segmentation are named <parameter>_<category> (pinned by '
    'tests/functions/test_segmentation.py); category names are unique across the segmenting variables; the '
    'mapping is "values of the variable -> name of a category" (DiscreteSegmentationTuple docstring), so several '
    'values may share a category, and the segment of an observation is the category of its value',
    'thresholds strictly increasing, sigma > 0 for the densities, a < c < b, nest parameters >= 1, nests disjoint: '
    'the documented input domains; every generated input is valid, so any exception is a failure',
    'loglikelihoodregression: its docstring states -(y-m)^2/(2 sigma^2) - log(sigma^2)/2 - log(2 pi)/2, which depends '
    'on sigma through sigma^2 only and is finite for every residual, so sigma != 0 of either sign and residuals of '
    'hundreds of sigma are in its domain (an unbounded scale parameter does take negative values during an '
    'estimation); likelihoodregression ((1/sigma) phi((y-m)/sigma)) is judged as a density for sigma > 0 only',
]
BUDGETS = dict(quick=dict(shards=8), thorough=dict(shards=16))

EPS = 2.0 ** -52
FREE = bex.TypeOfElementaryExpression.FREE_BETA


# ---------------------------------------------------------------------------------------------
# small shared pieces


def _dy(lo, hi, denom=4):
    return st.integers(int(lo * denom), int(hi * denom)).map(lambda k: k / denom)


def _num(lo, hi, denom=4):
    """Numbers that are either short binary fractions or arbitrary doubles of the range."""
    return st.one_of(_dy(lo, hi, denom), st.floats(lo, hi, allow_nan=False, allow_subnormal=False))


def _database(columns: dict):
    return bdb.Database('verif_c17', pd.DataFrame({k: np.asarray(v, dtype=float) for k, v in columns.items()}))


def _vals(expr, database=None, betas=None):
    """Engine value(s) of an expression, as a list of floats."""
    if database is None:
        return [float(expr.get_value_c(betas=betas, prepare_ids=True))]
    return np.asarray(expr.get_value_c(database=database, betas=betas, prepare_ids=True), dtype=float).tolist()


def _guard(fn, spec):
    """Run fn(spec, res) in the child; an exception of the library is reported with the stage reached."""
    res = {'stage': 'start'}
    try:
        fn(spec, res)
    except Exception as e:  # noqa: reported to the parent, which decides
        import traceback
        tb = traceback.extract_tb(e.__traceback__)
        if tb and '/vlib/' in (tb[-1].filename or ''):
            raise  # a bug of this file: harness fault
        res['exc'] = dict(stage=res['stage'], type=type(e).__name__, module=type(e).__module__, msg=str(e)[:300])
    return res


def _run(fn, spec):
    return isolate.call(_guard, fn, spec)


def _close(got, ref, tol):
    return isinstance(got, float) and math.isfinite(got) and abs(got - ref) <= tol


def _first_bad(got, ref, tols):
    """Index of the first entry of got outside ref +- tol, -1 if none, -2 if lengths differ."""
    if len(got) != len(ref):
        return -2
    for i, (g, r, t) in enumerate(zip(got, ref, tols)):
        if not _close(float(g), r, t):
            return i
    return -1


# ---------------------------------------------------------------------------------------------
# piecewise linear: reference and generators

VAR_NAMES = ['x', 'TRAIN_TT', 'Time_1', 'dist']


def pw_ref_variables(x, th):
    """Documented value of the K-1 piecewise variables at x."""
    out = []
    for a, b in zip(th[:-1], th[1:]):
        if a is None:
            out.append(min(x, b))
        elif b is None:
            out.append(max(0.0, x - a))
        else:
            out.append(max(0.0, min(x - a, b - a)))
    return out


def pw_ref_sum(x, th):
    lo = -math.inf if th[0] is None else th[0]
    hi = math.inf if th[-1] is None else th[-1]
    origin = 0.0 if th[0] is None else th[0]
    return min(max(x, lo), hi) - origin


def pw_scale(x, th):
    return 1.0 + abs(x) + max(abs(t) for t in th if t is not None)


def pw_shape(th):
    if len(th) == 2:
        return 'two_thresholds_open' if None in th else 'two_thresholds'
    return 'general'


def pw_classes(th, xs):
    c = [f'K={len(th)}',
         'first=open' if th[0] is None else ('first=zero' if th[0] == 0 else 'first=nonzero'),
         'last=open' if th[-1] is None else 'last=closed']
    nums = [t for t in th if t is not None]
    for x in xs:
        if x in nums:
            c.append('x:at_threshold')
        elif x < nums[0]:
            c.append('x:below_first' if th[0] is not None else 'x:first_open_segment')
        elif x > nums[-1]:
            c.append('x:above_last' if th[-1] is not None else 'x:last_open_segment')
        else:
            c.append('x:between')
    return sorted(set(c))


@st.composite
def pw_thresholds(draw, min_k=2, allow_two_open=True):
    k = draw(st.integers(min_k, 6))
    first = draw(st.sampled_from(['open', 'open', 'zero', 'nonzero', 'nonzero', 'nonzero']))
    last_open = draw(st.booleans())
    if k == 2:
        if not allow_two_open:
            first, last_open = ('nonzero' if first == 'open' else first), False
        elif first == 'open':
            last_open = False  # all thresholds None is documented as invalid
    if first == 'zero':
        base = 0.0
    else:
        base = draw(_num(-20, 20).filter(lambda v: v != 0))
    integral = draw(st.booleans())
    if integral:
        base = float(round(base)) or (1.0 if first != 'zero' else 0.0)
        gaps = draw(st.lists(st.integers(1, 12), min_size=k - 1, max_size=k - 1))
    else:
        gaps = draw(st.lists(_num(0.25, 10), min_size=k - 1, max_size=k - 1))
    th = [base]
    for g in gaps:
        th.append(th[-1] + g)
    if integral and draw(st.booleans()):
        th = [int(t) for t in th]  # the unit tests pass integers
    if first == 'open':
        th[0] = None
    if last_open:
        th[-1] = None
    return th


@st.composite
def pw_arguments(draw, th, min_size=3, max_size=9):
    nums = [float(t) for t in th if t is not None]
    lo, hi = nums[0], nums[-1]

    def one():
        kind = draw(st.sampled_from(['at', 'mid', 'below', 'above', 'free', 'first_segment']))
        if kind == 'at':
            return draw(st.sampled_from(nums))
        if kind == 'mid' and len(nums) >= 2:
            i = draw(st.integers(0, len(nums) - 2))
            f = draw(st.sampled_from([0.5, 0.25, 0.75, 0.001, 0.999]))
            return nums[i] + f * (nums[i + 1] - nums[i])
        if kind == 'below':
            return lo - draw(_num(0.25, 30))
        if kind == 'above':
            return hi + draw(_num(0.25, 30))
        if kind == 'first_segment':
            nxt = nums[1] if len(nums) >= 2 else lo + 1.0
            return lo + draw(st.sampled_from([0.0, 0.125, 0.5])) * (nxt - lo)
        return draw(_num(-60, 60))

    n = draw(st.integers(min_size, max_size))
    return [float(one()) for _ in range(n)]


def _coefficients(k):
    return st.lists(st.one_of(_dy(-5, 5), st.floats(-5, 5, allow_nan=False, allow_subnormal=False)), min_size=k, max_size=k)


def _var_arg(spec):
    return bex.Variable(spec['var']) if spec['var_form'] == 'Variable' else spec['var']


def _render_pw(s):
    extra = f", betas={s['betas']}" if 'betas' in s else ''
    return f"thresholds={s['thresholds']} arguments={s['xs']}{extra}"


# ---- piecewise_variables


@st.composite
def strat_pw_variables(draw, tier):
    th = draw(pw_thresholds())
    return dict(thresholds=th, xs=draw(pw_arguments(th)), var=draw(st.sampled_from(VAR_NAMES)),
                var_form=draw(st.sampled_from(['name', 'Variable'])))


def _obs_pw_variables(spec, res):
    database = _database({spec['var']: spec['xs']})
    res['stage'] = 'build'
    variables = bmodels.piecewise_variables(_var_arg(spec), list(spec['thresholds']))
    res['count'] = len(variables)
    res['stage'] = 'evaluate'
    res['values'] = [_vals(v, database) for v in variables]


def judge_pw_variables(spec) -> Outcome:
    out = Outcome()
    th, xs = spec['thresholds'], spec['xs']
    shape = pw_shape(th)
    out.classes += pw_classes(th, xs)
    out.nontrivial = th[0] is not None and th[0] != 0
    call = f'piecewise_variables({spec["var"]!r}, {th})'
    r = _run(_obs_pw_variables, spec)
    if not r['ok']:
        out.fail(f'piecewise_variables:{shape}:raises:{r["exc_type"]}', f'{call}: {r["exc_type"]}: {r["exc_msg"][:200]}')
        return out
    obs = r['value']
    if 'exc' in obs:
        e = obs['exc']
        out.fail(f'piecewise_variables:{shape}:raises:{e["type"]}',
                 f'{call} raised {e["type"]} ({e["stage"]}): {e["msg"]}; valid list, only BiogemeError on '
                 f'misplaced None is documented')
        return out
    k = len(th)
    if obs['count'] != k - 1:
        out.fail(f'piecewise_variables:{shape}:count',
                 f'{call} returned {obs["count"]} variables; "If there are K thresholds, K-1 variables are '
                 f'generated" promises {k - 1}')
    for j, x in enumerate(xs):
        ref = pw_ref_variables(x, th)
        tol = 1e-12 * pw_scale(x, th)
        got = [col[j] for col in obs['values']]
        if obs['count'] == k - 1:
            i = _first_bad(got, ref, [tol] * len(ref))
            if i >= 0:
                out.fail(f'piecewise_variables:{shape}:variable_value',
                         f'{call}: variable {i + 1} at {x!r} is {got[i]!r}, documented max(0, min(t-a, b)) gives {ref[i]!r}')
                break
        total, want = math.fsum(got), pw_ref_sum(x, th)
        if not _close(total, want, 4 * tol):
            key = 'count' if obs['count'] != k - 1 else 'sum'
            out.fail(f'piecewise_variables:{shape}:{key}',
                     f'{call}: the variables sum to {total!r} at {x!r}; clipped distance from the first '
                     f'threshold is {want!r}')
            break
    return out


# ---- piecewise_function (pure Python)


@st.composite
def strat_pw_function(draw, tier):
    th = draw(pw_thresholds())
    return dict(thresholds=th, xs=draw(pw_arguments(th, 4, 12)), betas=draw(_coefficients(len(th) - 1)))


def pw_function_check(out, th, xs, betas, got):
    """Compare piecewise_function values with the closed form; one failure with a root-cause key."""
    bad = []
    for x, g in zip(xs, got):
        terms = [b * v for b, v in zip(betas, pw_ref_variables(x, th))]
        ref = math.fsum(terms)
        tol = 1e-12 * (pw_scale(x, th) * (1 + max(abs(b) for b in betas)))
        if not (isinstance(g, (int, float)) and _close(float(g), ref, tol)):
            bad.append((x, g, ref, tol))
    if not bad:
        return True
    x, g, ref, _ = bad[0]
    key = 'piecewise_function:value'
    t0 = th[0]
    if t0 is not None and t0 != 0:
        # every wrong value lies at or above the first threshold and is off by exactly beta_1 * t_first:
        # the first segment is measured from 0 instead of from the first threshold
        if all(bx >= t0 and isinstance(bg, (int, float)) and abs((bg - bref) - betas[0] * t0) <= 4 * btol
               for bx, bg, bref, btol in bad):
            key = 'piecewise_function:first_threshold'
    out.fail(key, f'piecewise_function({x!r}, {th}, {betas}) = {g!r}; sum of beta_i * max(0, min(t-a_i, b_i)) '
                  f'= {ref!r}')
    return False


def judge_pw_function(spec) -> Outcome:
    out = Outcome()
    th, xs, betas = spec['thresholds'], spec['xs'], spec['betas']
    out.classes += pw_classes(th, xs)
    out.nontrivial = th[0] is not None and th[0] != 0
    out.evaluations = len(xs)
    got = []
    for x in xs:
        try:
            got.append(bmodels.piecewise_function(x, list(th), list(betas)))
        except Exception as e:  # noqa: valid input
            out.fail(f'piecewise_function:{pw_shape(th)}:raises:{type(e).__name__}',
                     f'piecewise_function({x!r}, {th}, {betas}) raised {type(e).__name__}: {e}')
            return out
    pw_function_check(out, th, xs, betas, got)
    return out


# ---- piecewise_formula


@st.composite
def strat_pw_formula(draw, tier):
    th = draw(pw_thresholds(allow_two_open=False))
    k = len(th)
    return dict(thresholds=th, xs=draw(pw_arguments(th)), var=draw(st.sampled_from(VAR_NAMES)),
                var_form=draw(st.sampled_from(['name', 'Variable'])),
                beta_form=draw(st.sampled_from(['Beta', 'Beta', 'float', 'Numeric', 'default'])),
                betas=draw(_coefficients(k - 1)), betas2=draw(_coefficients(k - 1)))


def _beta_args(spec, n, offset=0):
    form = spec['beta_form']
    if form == 'default':
        return None
    vals = spec['betas'][offset:offset + n]
    if form == 'float':
        return list(vals)
    if form == 'Numeric':
        return [bex.Numeric(v) for v in vals]
    return [bex.Beta(f'B_{i + 1}', v, None, None, 0) for i, v in enumerate(vals)]


def _obs_formula(spec, res, builder, n_betas, offset):
    database = _database({spec['var']: spec['xs']})
    res['stage'] = 'build'
    args = _beta_args(spec, n_betas, offset)
    expr = builder(_var_arg(spec), list(spec['thresholds'])) if args is None else \
        builder(_var_arg(spec), list(spec['thresholds']), args)
    res['stage'] = 'evaluate'
    names = sorted(expr.dict_of_elementary_expression(FREE).keys())
    res['names'] = names
    if spec['beta_form'] == 'default':
        res['at_init'] = _vals(expr, database)
        res['unit'] = [_vals(expr, database, {m: (1.0 if m == n else 0.0) for m in names}) for n in names]
    else:
        res['values'] = _vals(expr, database)
        if spec['beta_form'] == 'Beta':
            second = spec['betas2'][offset:offset + n_betas]
            res['values2'] = _vals(expr, database, {f'B_{i + 1}': v for i, v in enumerate(second)})


def _obs_pw_formula(spec, res):
    _obs_formula(spec, res, bmodels.piecewise_formula, len(spec['thresholds']) - 1, 0)


def _obs_pw_as_variable(spec, res):
    _obs_formula(spec, res, bmodels.piecewise_as_variable, len(spec['thresholds']) - 2, 1)


def _match_columns(got_cols, ref_cols, tol):
    """Can the observed columns be paired one to one with the reference columns?"""
    remaining = list(range(len(ref_cols)))
    for g in got_cols:
        hit = None
        for i in remaining:
            if _first_bad(g, ref_cols[i], tol) == -1:
                hit = i
                break
        if hit is None:
            return False
        remaining.remove(hit)
    return not remaining


def _judge_formula(spec, which) -> Outcome:
    """which = 'piecewise_formula' (sum beta_i x_i) or 'piecewise_as_variable' (x_1 + sum_{i>=2} beta_i x_i)."""
    out = Outcome()
    th, xs = spec['thresholds'], spec['xs']
    k = len(th)
    shape = pw_shape(th)
    as_var = which == 'piecewise_as_variable'
    out.classes += pw_classes(th, xs) + [f'betas={spec["beta_form"]}']
    out.nontrivial = th[0] is not None and th[0] != 0
    call = f'{which}({spec["var"]!r}, {th}, betas as {spec["beta_form"]})'
    r = _run(_obs_pw_as_variable if as_var else _obs_pw_formula, spec)
    if not r['ok']:
        out.fail(f'{which}:{shape}:raises:{r["exc_type"]}', f'{call}: {r["exc_type"]}: {r["exc_msg"][:200]}')
        return out
    obs = r['value']
    if 'exc' in obs:
        e = obs['exc']
        out.fail(f'{which}:{shape}:raises:{e["type"]}', f'{call} raised {e["type"]} ({e["stage"]}): {e["msg"]}')
        return out
    ref_vars = [pw_ref_variables(x, th) for x in xs]  # [row][variable]
    scale = [pw_scale(x, th) for x in xs]

    def closed_form(coeffs):
        """Documented specification with the given K-1 (formula) or K-2 (as variable) coefficients."""
        full = ([1.0] + list(coeffs)) if as_var else list(coeffs)
        return [math.fsum(b * v for b, v in zip(full, row)) for row in ref_vars]

    def tolerances(coeffs):
        m = 1 + max([abs(b) for b in coeffs] + [1.0])
        return [1e-12 * s * m for s in scale]

    n_b = k - 2 if as_var else k - 1
    off = 1 if as_var else 0
    doc = 'x_T1 + sum_{i>=2} beta_i x_Ti' if as_var else 'sum_i beta_i x_Ti'

    def shifted_pairing(coeffs):
        """x_T1 + sum_i beta_i x_T(i-1): every parameter multiplied by the variable of the previous interval."""
        return [row[0] + math.fsum(b * v for b, v in zip(coeffs, row)) for row in ref_vars]

    def value_key(got, coeffs):
        if as_var and _first_bad(got, shifted_pairing(coeffs), tolerances(coeffs)) == -1:
            return f'{which}:beta_variable_pairing'
        return f'{which}:value'
    if spec['beta_form'] == 'default':
        if len(obs['names']) != n_b:
            out.fail(f'{which}:default_parameters',
                     f'{call}: {len(obs["names"])} parameters created ({obs["names"]}), {n_b} intervals need one')
            return out
        zero = closed_form([0.0] * n_b)
        i = _first_bad(obs['at_init'], zero, tolerances([0.0]))
        if i != -1:
            out.fail(f'{which}:value', f'{call}: with all parameters at 0 the value at {xs[i]!r} is '
                                f'{obs["at_init"][i] if i >= 0 else "?"!r}, {doc} gives {zero[i]!r}')
            return out
        # one parameter at 1, the others at 0: the columns must be the K-1 (K-2) variables, each once
        ref_cols = []
        for j in range(n_b):
            unit = [1.0 if m == j else 0.0 for m in range(n_b)]
            ref_cols.append(closed_form(unit))
        if not _match_columns(obs['unit'], ref_cols, tolerances([1.0])):
            key = f'{which}:value'
            if as_var and _match_columns(obs['unit'], [shifted_pairing([1.0 if m == j else 0.0 for m in range(n_b)])
                                                       for j in range(n_b)], tolerances([1.0])):
                key = f'{which}:beta_variable_pairing'
            out.fail(key, f'{call}: setting one created parameter to 1 at a time does not give the '
                                f'variables of {doc}: {obs["unit"]} vs {ref_cols} at {xs}')
        return out
    if spec['beta_form'] != 'Beta' and obs['names']:
        out.fail(f'{which}:parameters', f'{call}: unexpected free parameters {obs["names"]}')
    for label, coeffs, got in (('values', spec['betas'][off:off + n_b], obs['values']),
                               ('values2', spec['betas2'][off:off + n_b], obs.get('values2'))):
        if got is None:
            continue
        ref = closed_form(coeffs)
        tols = tolerances(coeffs)
        i = _first_bad(got, ref, tols)
        if i != -1:
            how = 'initial values' if label == 'values' else 'values passed to the engine'
            out.fail(value_key(got, coeffs),
                     f'{which}({spec["var"]!r}, {th}) with betas {coeffs} ({how}) at {xs[i]!r}: engine '
                                f'{got[i] if i >= 0 else got!r}, {doc} gives {ref[i] if i >= 0 else ref!r}')
            break
        if not as_var:
            # the statement of the property: the formula coincides with the plain function
            try:
                fvals = [bmodels.piecewise_function(x, list(th), list(coeffs)) for x in xs]
            except Exception as e:  # noqa
                out.fail(f'piecewise_function:{shape}:raises:{type(e).__name__}',
                         f'piecewise_function(x, {th}, {coeffs}) raised {type(e).__name__}: {e}')
                break
            if pw_function_check(out, th, xs, coeffs, fvals):
                i = _first_bad(got, [float(v) for v in fvals], [2 * t for t in tols])
                if i != -1:
                    out.fail('piecewise_formula:differs_from_function',
                             f'{call}: formula {got[i]!r} vs piecewise_function {fvals[i]!r} at {xs[i]!r}')
            else:
                break
    return out


def judge_pw_formula(spec) -> Outcome:
    return _judge_formula(spec, 'piecewise_formula')


@st.composite
def strat_pw_as_variable(draw, tier):
    th = draw(pw_thresholds(min_k=3))
    k = len(th)
    return dict(thresholds=th, xs=draw(pw_arguments(th)), var=draw(st.sampled_from(VAR_NAMES)),
                var_form=draw(st.sampled_from(['name', 'Variable'])),
                beta_form=draw(st.sampled_from(['Beta', 'Beta', 'float', 'Numeric', 'default'])),
                betas=draw(_coefficients(k - 1)), betas2=draw(_coefficients(k - 1)))


def judge_pw_as_variable(spec) -> Outcome:
    return _judge_formula(spec, 'piecewise_as_variable')


# ---------------------------------------------------------------------------------------------
# Box-Cox

SWITCH = 1.0e-5


def boxcox_ref(x, ell):
    lx = math.log(x)
    if ell == 0:
        return lx, 1e-9 * abs(lx) + 1e-15
    ref = math.expm1(ell * lx) / ell
    tol = 1e-9 * abs(ref) + 1e-15
    if not abs(ell) < SWITCH:
        tol += 8 * EPS * max(1.0, math.exp(ell * lx)) / abs(ell)
    return ref, tol


def _ell_values():
    sign = st.sampled_from([1.0, -1.0])
    tiny = st.tuples(sign, st.floats(-8, -3, allow_nan=False, allow_subnormal=False)).map(lambda t: t[0] * 10.0 ** t[1])
    decades = st.tuples(sign, st.integers(-8, -3), st.sampled_from([1.0, 2.0, 5.0, 9.9, 0.99])).map(
        lambda t: t[0] * t[2] * 10.0 ** t[1])
    around = st.tuples(sign, st.sampled_from([-1.0, 1.0]), st.floats(-9, -0.3, allow_nan=False, allow_subnormal=False)).map(
        lambda t: t[0] * SWITCH * (1.0 + t[1] * 10.0 ** t[2]))
    regular = st.one_of(_dy(-5, 5), st.floats(-5, 5, allow_nan=False, allow_subnormal=False)).filter(lambda v: abs(v) >= 1e-3)
    exact = st.sampled_from([0.0, SWITCH, -SWITCH, 1.0, -1.0, 0.5, 2.0])
    return st.one_of(tiny, decades, around, regular, regular, exact, st.just(0.0))


def _x_values():
    return st.one_of(
        st.floats(-3, 3, allow_nan=False, allow_subnormal=False).map(lambda u: 10.0 ** u).filter(lambda v: 1e-3 < v < 1e3),
        st.sampled_from([0.5, 2.0, 50.0, 1.0, 10.0, 0.01, 999.0, 0.002, math.e]),
        st.floats(-3, 3, allow_nan=False, allow_subnormal=False).map(lambda u: 1.0 + 10.0 ** (u - 4)),
    )


@st.composite
def strat_boxcox(draw, tier):
    x_form = draw(st.sampled_from(['Variable', 'Variable', 'Numeric', 'float']))
    n = draw(st.integers(1, 5)) if x_form == 'Variable' else 1
    return dict(xs=draw(st.lists(_x_values(), min_size=n, max_size=n)), ell=draw(_ell_values()),
                x_form=x_form, ell_form=draw(st.sampled_from(['Beta_init', 'Beta_dict', 'Numeric', 'float'])))


def _boxcox_values(spec, ell):
    database = _database({'x': spec['xs']}) if spec['x_form'] == 'Variable' else None
    x = bex.Variable('x') if database is not None else (
        bex.Numeric(spec['xs'][0]) if spec['x_form'] == 'Numeric' else spec['xs'][0])
    betas = None
    if spec['ell_form'] == 'Beta_init':
        ell_arg = bex.Beta('lambda_bc', ell, -10, 10, 0)
    elif spec['ell_form'] == 'Beta_dict':
        ell_arg = bex.Beta('lambda_bc', 1.0, -10, 10, 0)
        betas = {'lambda_bc': ell}
    elif spec['ell_form'] == 'Numeric':
        ell_arg = bex.Numeric(ell)
    else:
        ell_arg = ell
    return _vals(bmodels.boxcox(x, ell_arg), database, betas)


def boxcox_partners(ell):
    """The two parameters closest to the switching point on the side of ell."""
    s = -1.0 if ell < 0 else 1.0
    return s * SWITCH * (1 - 1e-6), s * SWITCH * (1 + 1e-6)


def _obs_boxcox(spec, res):
    res['stage'] = 'value'
    res['values'] = _boxcox_values(spec, spec['ell'])
    inner, outer = boxcox_partners(spec['ell'])
    res['stage'] = 'inner'
    res['inner'] = _boxcox_values(spec, inner)
    res['stage'] = 'outer'
    res['outer'] = _boxcox_values(spec, outer)


def judge_boxcox(spec) -> Outcome:
    out = Outcome()
    xs, ell = spec['xs'], spec['ell']
    near = abs(ell) < SWITCH
    region = 'near_zero' if near else 'regular'
    out.nontrivial = near
    out.evaluations = 3 * len(xs)
    mag = abs(ell)
    out.classes += [f'boxcox:{"zero" if ell == 0 else "series" if near else "switch_outskirts" if mag < 1e-3 else "regular"}',
                    f'boxcox:x={spec["x_form"]}', f'boxcox:ell={spec["ell_form"]}']
    if near and mag > 0.5 * SWITCH or (not near and mag < 2 * SWITCH):
        out.classes.append('boxcox:within_factor_2_of_switch')
    r = _run(_obs_boxcox, spec)
    if not r['ok'] or 'exc' in r['value']:
        e = r['value']['exc'] if r['ok'] else dict(type=r['exc_type'], msg=r['exc_msg'], stage='child')
        plain = 'plain_numbers:' if spec['x_form'] == 'float' and spec['ell_form'] == 'float' else ''
        out.fail(f'boxcox:{plain}{region}:raises:{e["type"]}',
                 f'boxcox(x={xs} as {spec["x_form"]}, ell={ell!r} as {spec["ell_form"]}) raised {e["type"]} ({e["stage"]}): {e["msg"][:200]}')
        return out
    obs = r['value']
    for j, x in enumerate(xs):
        ref, tol = boxcox_ref(x, ell)
        g = obs['values'][j]
        if not _close(g, ref, tol):
            out.fail(f'boxcox:{region}',
                     f'boxcox({x!r}, {ell!r}) = {g!r}; (x^l - 1)/l = {ref!r} (diff {g - ref:.3e}, allowed {tol:.1e})')
            break
    inner, outer = boxcox_partners(ell)
    for j, x in enumerate(xs):
        (ri, ti), (ro, to) = boxcox_ref(x, inner), boxcox_ref(x, outer)
        jump = obs['outer'][j] - obs['inner'][j]
        if not (math.isfinite(jump) and abs(jump - (ro - ri)) <= ti + to):
            # which side is off decides the root cause
            side = 'near_zero' if not _close(obs['inner'][j], ri, ti) else 'regular'
            out.fail(f'boxcox:{side}',
                     f'boxcox({x!r}, l) jumps by {jump:.3e} between l={inner!r} and l={outer!r}; '
                     f'(x^l - 1)/l moves by {ro - ri:.3e}: not continuous through the switching point')
            break
    return out


# ---------------------------------------------------------------------------------------------
# densities and distribution functions

DISTS = ['normalpdf', 'lognormalpdf', 'uniformpdf', 'triangularpdf', 'logisticcdf']
PARAM_NAMES = dict(normalpdf=['mu', 's'], lognormalpdf=['mu', 's'], uniformpdf=['a', 'b'],
                   triangularpdf=['a', 'b', 'c'], logisticcdf=['mu', 's'])
DEFAULTS = dict(normalpdf=dict(mu=0.0, s=1.0), lognormalpdf=dict(mu=0.0, s=1.0), uniformpdf=dict(a=-1.0, b=1.0),
                triangularpdf=dict(a=-1.0, b=1.0, c=0.0), logisticcdf=dict(mu=0.0, s=1.0))


def dist_ref(dist, p, x):
    """(textbook value, tolerance, region label)."""
    if dist == 'normalpdf':
        v = float(stats.norm.pdf(x, loc=p['mu'], scale=p['s']))
        return v, 1e-8 * v + 1e-300, 'centre' if abs(x - p['mu']) <= 3 * p['s'] else 'tail'
    if dist == 'lognormalpdf':
        if x <= 0:
            return 0.0, 1e-300, 'nonpositive_argument'
        v = float(stats.lognorm.pdf(x, s=p['s'], scale=math.exp(p['mu'])))
        return v, 1e-8 * v + 1e-300, 'centre' if abs(math.log(x) - p['mu']) <= 3 * p['s'] else 'tail'
    if dist == 'uniformpdf':
        a, b = p['a'], p['b']
        v = float(stats.uniform.pdf(x, loc=a, scale=b - a))
        return v, 1e-8 * v + 1e-13 / (b - a), 'inside' if a <= x <= b else 'outside'
    if dist == 'triangularpdf':
        a, b, c = p['a'], p['b'], p['c']
        v = float(stats.triang.pdf(x, (c - a) / (b - a), loc=a, scale=b - a))
        region = 'outside' if (x < a or x > b) else 'mode' if x == c else 'rising' if x < c else 'falling'
        return v, 1e-8 * v + 2e-13 / (b - a), region
    if dist == 'logisticcdf':
        v = float(stats.logistic.cdf(x, loc=p['mu'], scale=p['s']))
        return v, 1e-8 * v + 1e-300, 'centre' if abs(x - p['mu']) <= 4 * p['s'] else 'tail'
    raise ValueError(dist)


@st.composite
def dist_params(draw, dist):
    if dist in ('normalpdf', 'logisticcdf'):
        return dict(mu=draw(_num(-10, 10)), s=draw(st.one_of(_dy(0.25, 5), st.floats(0.05, 5, allow_nan=False, allow_subnormal=False))))
    if dist == 'lognormalpdf':
        return dict(mu=draw(_num(-3, 3)), s=draw(st.one_of(_dy(0.25, 3), st.floats(0.05, 3, allow_nan=False, allow_subnormal=False))))
    a = draw(_num(-10, 10))
    w = draw(st.one_of(_dy(0.25, 10), st.floats(0.05, 10, allow_nan=False, allow_subnormal=False)))
    b = a + w
    if dist == 'uniformpdf':
        return dict(a=a, b=b)
    f = draw(st.sampled_from([0.5, 0.25, 0.125, 0.75, 0.01, 0.99, 1 / 3]))
    c = a + f * w
    if not a < c < b:
        c = a + 0.5 * w
    return dict(a=a, b=b, c=c)


@st.composite
def dist_arguments(draw, dist, p, n):
    xs = []
    for _ in range(n):
        if dist in ('normalpdf', 'logisticcdf'):
            z = draw(st.one_of(_dy(-4, 4), st.floats(-30, 30, allow_nan=False, allow_subnormal=False), st.sampled_from([0.0, 30.0, -30.0])))
            xs.append(p['mu'] + z * p['s'])
        elif dist == 'lognormalpdf':
            kind = draw(st.sampled_from(['in', 'in', 'in', 'nonpos']))
            if kind == 'nonpos':
                xs.append(draw(st.sampled_from([0.0, -1.0, -0.5, -1e-9, -250.0])))
            else:
                z = draw(st.one_of(_dy(-4, 4), st.floats(-30, 30, allow_nan=False, allow_subnormal=False)))
                xs.append(math.exp(p['mu'] + z * p['s']))
        else:
            a, b = p['a'], p['b']
            pts = [a, b] + ([p['c']] if dist == 'triangularpdf' else [])
            kind = draw(st.sampled_from(['edge', 'edge', 'in', 'in', 'in', 'below', 'above']))
            if kind == 'edge':
                xs.append(draw(st.sampled_from(pts)))
            elif kind == 'in':
                xs.append(a + draw(st.one_of(st.floats(0.001, 0.999, allow_nan=False, allow_subnormal=False), _dy(0.125, 0.875, 8))) * (b - a))
            elif kind == 'below':
                xs.append(a - draw(st.one_of(_num(0.25, 20), st.sampled_from([1e-9, 1e-3]))))
            else:
                xs.append(b + draw(st.one_of(_num(0.25, 20), st.sampled_from([1e-9, 1e-3]))))
    return [float(v) for v in xs]


@st.composite
def strat_density(draw, tier, columns=False):
    dist = draw(st.sampled_from(DISTS))
    use_defaults = (not columns) and draw(st.integers(0, 7)) == 0
    p = dict(DEFAULTS[dist]) if use_defaults else draw(dist_params(dist))
    x_form = 'Variable' if columns else draw(st.sampled_from(['Variable', 'Variable', 'Variable', 'Numeric', 'float']))
    n = draw(st.integers(2, 8)) if x_form == 'Variable' else 1
    xs = draw(dist_arguments(dist, p, n))
    if x_form != 'Variable' and dist == 'lognormalpdf' and xs[0] <= 0:
        xs = [math.exp(p['mu'])]  # a literal non-positive argument is refused (ValueError), by the tests
    forms = {k: draw(st.sampled_from(['float', 'Numeric', 'Beta', 'Beta_dict'])) for k in PARAM_NAMES[dist]}
    if columns:
        # at least one parameter is a column of the data (e.g. an observation-specific scale)
        as_column = draw(st.lists(st.sampled_from(PARAM_NAMES[dist]), min_size=1, unique=True))
        for k in as_column:
            forms[k] = 'Variable'
    return dict(dist=dist, params=p, xs=xs, x_form=x_form, forms=forms, use_defaults=use_defaults)


def strat_density_columns(tier):
    return strat_density(tier, columns=True)


def _param_args(spec, columns, betas, n_rows):
    """Arguments mu, s / a, b, c in the forms the spec asks for."""
    args = []
    for name in PARAM_NAMES[spec['dist']]:
        v, form = spec['params'][name], spec['forms'][name]
        if form == 'float':
            args.append(v)
        elif form == 'Numeric':
            args.append(bex.Numeric(v))
        elif form == 'Beta':
            args.append(bex.Beta(f'p_{name}', v, None, None, 0))
        elif form == 'Beta_dict':
            # the value comes from the engine call; the initial value is another valid one
            init = {'mu': v + 1.0, 's': 2.0 * v, 'a': v - 1.0, 'b': v + 1.0, 'c': v}[name]
            args.append(bex.Beta(f'p_{name}', init, None, None, 0))
            betas[f'p_{name}'] = v
        else:
            columns[f'col_{name}'] = [v] * n_rows
            args.append(bex.Variable(f'col_{name}'))
    return args


def _obs_density(spec, res):
    fn = getattr(bdist, spec['dist'])
    columns, betas = {}, {}
    res['stage'] = 'build'
    if spec['x_form'] == 'Variable':
        columns['x'] = spec['xs']
        x = bex.Variable('x')
    else:
        x = bex.Numeric(spec['xs'][0]) if spec['x_form'] == 'Numeric' else spec['xs'][0]
    args = [] if spec['use_defaults'] else _param_args(spec, columns, betas, len(spec['xs']))
    expr = fn(x, *args)
    res['stage'] = 'evaluate'
    database = _database(columns) if spec['x_form'] == 'Variable' else None
    res['values'] = _vals(expr, database, betas or None)


def _call_text(spec, x):
    p = spec['params']
    inner = '' if spec.get('use_defaults') else ', ' + ', '.join(f'{k}={p[k]!r}' for k in PARAM_NAMES[spec['dist']])
    return f'{spec["dist"]}({x!r}{inner})'


def judge_density(spec) -> Outcome:
    out = Outcome()
    dist, p, xs = spec['dist'], spec['params'], spec['xs']
    out.nontrivial = not spec['use_defaults'] and p != DEFAULTS[dist]
    out.evaluations = len(xs)
    out.classes += [f'{dist}:defaults' if spec['use_defaults'] else f'{dist}:parameters', f'x_form={spec["x_form"]}']
    out.classes += sorted(set(f'param_form={f}' for f in spec['forms'].values()))
    refs = [dist_ref(dist, p, x) for x in xs]
    out.classes += sorted(set(f'{dist}:{r[2]}' for r in refs))
    r = _run(_obs_density, spec)
    if not r['ok'] or 'exc' in r['value']:
        e = r['value']['exc'] if r['ok'] else dict(type=r['exc_type'], msg=r['exc_msg'], stage='child')
        as_column = sorted(k for k, f in spec['forms'].items() if f == 'Variable')
        key = f'{dist}:raises:{e["type"]}'
        if as_column and e['stage'] == 'build':
            key = f'distributions:parameter_from_data:{dist}:raises:{e["type"]}'
        out.fail(key, f'{_call_text(spec, xs)} with {as_column or "no parameter"} given as Variable raised '
                      f'{e["type"]} ({e["stage"]}): {e["msg"][:200]}')
        return out
    got = r['value']['values']
    if len(got) != len(xs):
        out.fail(f'{dist}:length', f'{len(got)} values for {len(xs)} arguments')
        return out
    for x, g, (ref, tol, region) in zip(xs, got, refs):
        if not _close(g, ref, tol):
            out.fail(f'{dist}:value:{region}',
                     f'{_call_text(spec, x)} = {g!r}; scipy.stats gives {ref!r} (relative difference '
                     f'{abs(g - ref) / ref if ref else float("inf"):.2e})')
            break
    return out


def _render_density(s):
    return f"{_call_text(s, s['xs'])} x as {s['x_form']}, parameters as {s['forms']}"


# ---- the densities integrate to one


def panels(dist, p):
    ks = list(range(-12, 13))
    if dist == 'normalpdf':
        return [p['mu'] + k * p['s'] for k in ks]
    if dist == 'lognormalpdf':
        return [math.exp(p['mu'] + k * p['s']) for k in ks]
    a, b = p['a'], p['b']
    w = b - a
    if dist == 'uniformpdf':
        return [a - w, a, b, b + w]
    return [a - w, a, p['c'], b, b + w]


@st.composite
def strat_integral(draw, tier):
    dist = draw(st.sampled_from(['normalpdf', 'lognormalpdf', 'uniformpdf', 'triangularpdf']))
    use_defaults = draw(st.integers(0, 9)) == 0
    p = dict(DEFAULTS[dist]) if use_defaults else draw(dist_params(dist))
    forms = {k: draw(st.sampled_from(['float', 'Numeric', 'Beta'])) for k in PARAM_NAMES[dist]}
    return dict(dist=dist, params=p, forms=forms, use_defaults=use_defaults)


def _obs_integral(spec, res):
    fn = getattr(bdist, spec['dist'])
    betas = {}
    res['stage'] = 'build'
    args = [] if spec['use_defaults'] else _param_args(spec, {}, betas, 0)
    expr = fn(bex.Beta('x_q', 1.0, None, None, 0), *args)
    res['stage'] = 'evaluate'
    count = [0]

    def f(t):
        count[0] += 1
        betas['x_q'] = float(t)
        return float(expr.get_value_c(betas=betas, prepare_ids=True))

    pts = panels(spec['dist'], spec['params'])
    total, err = 0.0, 0.0
    for lo, hi in zip(pts[:-1], pts[1:]):
        v, e = integrate.quad(f, lo, hi, epsabs=1e-13, epsrel=1e-11, limit=60)
        total += v
        err += e
    res['integral'], res['error'], res['evaluations'] = total, err, count[0]


def judge_integral(spec) -> Outcome:
    out = Outcome()
    dist = spec['dist']
    out.nontrivial = not spec['use_defaults'] and spec['params'] != DEFAULTS[dist]
    out.classes.append(f'integral:{dist}')
    import warnings
    with warnings.catch_warnings():
        warnings.simplefilter('ignore')
        r = _run(_obs_integral, spec)
    if not r['ok'] or 'exc' in r['value']:
        e = r['value']['exc'] if r['ok'] else dict(type=r['exc_type'], msg=r['exc_msg'], stage='child')
        out.fail(f'{dist}:integral:raises:{e["type"]}',
                 f'integrating {_call_text(spec, "x")} raised {e["type"]} ({e["stage"]}): {e["msg"][:200]}')
        return out
    obs = r['value']
    out.evaluations = obs['evaluations']
    if not obs['error'] <= 1e-9:
        out.skipped = 'quadrature did not converge'
        return out
    if not abs(obs['integral'] - 1.0) <= 1e-8:
        out.fail(f'{dist}:integral', f'{_call_text(spec, "x")} integrates to {obs["integral"]!r} over its support '
                                     f'(quad error estimate {obs["error"]:.1e})')
    return out


# ---- regression likelihood


def _residuals():
    """Standardised residuals (y - m)/sigma: around zero, the usual range, and far tails up to a thousand sigma
    (a poor starting point or an outlier; the closed form is a finite quadratic there)."""
    sign = st.sampled_from([1.0, -1.0])
    far = st.tuples(sign, st.floats(0, 3, allow_nan=False, allow_subnormal=False)).map(lambda t: t[0] * 10.0 ** t[1])
    return st.one_of(_dy(-8, 8), st.floats(-30, 30, allow_nan=False, allow_subnormal=False), st.just(0.0),
                     st.floats(-1000, 1000, allow_nan=False, allow_subnormal=False), far, _dy(-400, 400, 2),
                     st.sampled_from([37.0, 38.5, 39.0, -39.0, 40.0, -45.0, 100.0, -250.0, 1000.0]))


@st.composite
def strat_regression(draw, tier):
    n = draw(st.integers(1, 6))
    sigma = draw(st.one_of(_dy(0.25, 5), st.floats(0.05, 20, allow_nan=False, allow_subnormal=False), st.just(1.0)))
    # the documented closed form involves sigma only through sigma^2: a scale of either sign is in its domain
    sigma *= draw(st.sampled_from([1.0, 1.0, -1.0]))
    model_form = draw(st.sampled_from(['Variable', 'Numeric', 'linear']))
    ms = draw(st.lists(_num(-10, 10), min_size=n, max_size=n))
    if model_form == 'Numeric':
        ms = [ms[0]] * n
    zs = draw(st.lists(_residuals(), min_size=n, max_size=n))
    return dict(m=ms, y=[m + z * sigma for m, z in zip(ms, zs)], sigma=sigma, model_form=model_form,
                coef=[draw(_dy(-3, 3)), draw(_dy(-3, 3).filter(lambda v: v != 0))],
                sigma_form=draw(st.sampled_from(['Beta', 'Beta_dict', 'Numeric', 'Variable'])))


def _obs_regression(spec, res):
    n = len(spec['y'])
    columns = {'y': spec['y']}
    betas = {}
    if spec['model_form'] == 'Variable':
        columns['m'] = spec['m']
        model = bex.Variable('m')
    elif spec['model_form'] == 'Numeric':
        model = bex.Numeric(spec['m'][0])
    else:
        a, b = spec['coef']
        columns['z'] = [(m - a) / b for m in spec['m']]
        model = bex.Beta('a', a, None, None, 0) + bex.Beta('b', b, None, None, 0) * bex.Variable('z')
    sf = spec['sigma_form']
    if sf == 'Beta':
        sigma = bex.Beta('sigma', spec['sigma'], None, None, 0)
    elif sf == 'Beta_dict':
        sigma = bex.Beta('sigma', 1.0, None, None, 0)
        betas['sigma'] = spec['sigma']
    elif sf == 'Numeric':
        sigma = bex.Numeric(spec['sigma'])
    else:
        columns['s'] = [spec['sigma']] * n
        sigma = bex.Variable('s')
    database = _database(columns)
    res['model_inputs'] = columns.get('z')
    res['stage'] = 'loglikelihoodregression'
    res['log'] = _vals(bll.loglikelihoodregression(bex.Variable('y'), model, sigma), database, betas or None)
    if spec['sigma'] > 0:
        # (1/sigma) phi((y-m)/sigma) is a density for a positive scale only
        res['stage'] = 'likelihoodregression'
        res['lik'] = _vals(bll.likelihoodregression(bex.Variable('y'), model, sigma), database, betas or None)


HALF_LOG_2PI = 0.5 * math.log(2.0 * math.pi)
UNDERFLOW_Z = 38.6  # exp(-z^2/2) is zero in double precision beyond


def regression_ref(y, m, s):
    """Docstring of loglikelihoodregression: -((y-m)^2 / (2 sigma^2)) - log(sigma^2)/2 - log(2 pi)/2, and the
    tolerance: 1e-9 relative to the size of its terms."""
    z = (y - m) / s
    ref = -(z * z) / 2.0 - 0.5 * math.log(s * s) - HALF_LOG_2PI
    return z, ref, 1e-9 * (z * z / 2 + abs(math.log(abs(s))) + 1.0)


def judge_regression(spec) -> Outcome:
    out = Outcome()
    s = spec['sigma']
    out.nontrivial = s != 1.0
    out.evaluations = (2 if s > 0 else 1) * len(spec['y'])
    out.classes += [f'regression:model={spec["model_form"]}', f'regression:sigma={spec["sigma_form"]}',
                    'regression:sigma>0' if s > 0 else 'regression:sigma<0']
    r = _run(_obs_regression, spec)
    if not r['ok'] or 'exc' in r['value']:
        e = r['value']['exc'] if r['ok'] else dict(type=r['exc_type'], msg=r['exc_msg'], stage='child')
        out.fail(f'{e["stage"]}:raises:{e["type"]}',
                 f'regression likelihood (sigma={s!r} as {spec["sigma_form"]}) raised {e["type"]}: {e["msg"][:200]}')
        return out
    obs = r['value']
    regions = set()
    for j, y in enumerate(spec['y']):
        if spec['model_form'] == 'linear':
            a, b = spec['coef']
            m = a + b * obs['model_inputs'][j]
        else:
            m = spec['m'][j]
        z, ref, tol = regression_ref(y, m, s)
        region = ('centre' if abs(z) <= 8 else 'tail' if abs(z) <= UNDERFLOW_Z else
                  'density_underflows' if abs(z) <= 100 else 'beyond_100_sigma')
        regions.add(f'regression:residual={region}')
        if not _close(obs['log'][j], ref, tol):
            sign = 'negative_sigma' if s < 0 else 'positive_sigma'
            out.fail(f'loglikelihoodregression:value:{sign}:{region}',
                     f'loglikelihoodregression(y={y!r}, m={m!r}, sigma={s!r}) = {obs["log"][j]!r}; documented '
                     f'-(y-m)^2/(2 sigma^2) - log(sigma^2)/2 - log(2 pi)/2 = {ref!r} (residual {z:.4g} sigma)')
            break
        if s > 0:
            pdf = float(stats.norm.pdf(y, loc=m, scale=s))
            if not _close(obs['lik'][j], pdf, 1e-8 * pdf + 1e-300 + tol * pdf):
                out.fail('likelihoodregression:value',
                         f'likelihoodregression(y={y!r}, m={m!r}, sigma={s!r}) = {obs["lik"][j]!r}; normal density {pdf!r}')
                break
    out.classes += sorted(regions)
    return out


# ---------------------------------------------------------------------------------------------
# segmentation

SEG_BETAS = ['beta', 'B_TIME', 'asc_1', 'b']
SEG_VARS = ['g', 'INCOME', 'age_class', 'Purpose', 'v2']
SEG_CATEGORIES = ['low', 'mid', 'high', 'male', 'female', '1st', '2nd', 'GA', 'none', 'cat_3', 'X', 'rural',
                  'urban', 'y2']
SEG_PREFIXES = ['segmented', 'seg', 'the_seg']


def seg_category_of(seg):
    """value of the variable -> category, from the list of [value, category] pairs of the spec."""
    return {k: c for k, c in seg['mapping']}


def seg_categories(seg):
    """Distinct categories of a segmentation, in order of first appearance in the mapping."""
    return list(dict.fromkeys(c for _, c in seg['mapping']))


@st.composite
def strat_segmentation(draw, tier):
    n_var = draw(st.sampled_from([1, 1, 2, 2, 3]))
    variables = draw(st.lists(st.sampled_from(SEG_VARS), min_size=n_var, max_size=n_var, unique=True))
    cats = draw(st.permutations(SEG_CATEGORIES))
    segs, pos = [], 0
    for v in variables:
        n_cat = draw(st.integers(2, 4))
        names = list(cats[pos:pos + n_cat])
        pos += n_cat
        # number of values of the variable mapped to each category: one to one, or many to one
        if draw(st.sampled_from([False, True, True])):
            sizes = draw(st.lists(st.sampled_from([1, 1, 2, 2, 3]), min_size=n_cat, max_size=n_cat))
        else:
            sizes = [1] * n_cat
        keys = draw(st.lists(st.integers(-3, 60), min_size=sum(sizes), max_size=sum(sizes), unique=True))
        if draw(st.booleans()):
            keys = sorted(keys)  # merged neighbouring classes, e.g. {1: low, 2: low, 3: mid, ...}
        entries, used = [], 0
        for c, size in zip(names, sizes):
            entries += [[k, c] for k in keys[used:used + size]]
            used += size
        if draw(st.sampled_from([False, True, True])):
            entries = list(draw(st.permutations(entries)))  # the values of a category need not be listed together
        reference = draw(st.one_of(st.none(), st.sampled_from(names)))
        segs.append(dict(var=v, var_form=draw(st.sampled_from(['name', 'Variable'])),
                         mapping=[[k, c] for k, c in entries], reference=reference,
                         shifts={c: draw(_dy(-4, 4, 8)) for c in names}))
    # every mapped value of every variable is observed at least once
    n_rows = max(len(s['mapping']) for s in segs) + draw(st.integers(0, 4))
    columns = []
    for s in segs:
        keys = [k for k, _ in s['mapping']]
        column = keys + [draw(st.sampled_from(keys)) for _ in range(n_rows - len(keys))]
        columns.append(list(draw(st.permutations(column))))
    rows = [[column[i] for column in columns] for i in range(n_rows)]
    bounded = draw(st.booleans())
    init = draw(_dy(-2, 2, 8))
    return dict(beta=draw(st.sampled_from(SEG_BETAS)), init=init, lb=(init - 3.0) if bounded else None,
                ub=(init + 5.0) if bounded else None, ref_value=draw(_dy(-4, 4, 8)), prefix=draw(st.sampled_from(SEG_PREFIXES)),
                default_prefix=draw(st.booleans()), api=draw(st.sampled_from(['class', 'function'])), segs=segs, rows=rows)


def _beta_description(expr):
    d = expr.dict_of_elementary_expression(FREE)
    return {n: [float(b.initValue), b.lb, b.ub, int(b.status)] for n, b in d.items()}


def _obs_segmentation(spec, res):
    columns = {s['var']: [row[i] for row in spec['rows']] for i, s in enumerate(spec['segs'])}
    database = _database(columns)
    res['stage'] = 'build'
    beta = bex.Beta(spec['beta'], spec['init'], spec['lb'], spec['ub'], 0)
    tuples = [bseg.DiscreteSegmentationTuple(
        variable=bex.Variable(s['var']) if s['var_form'] == 'Variable' else s['var'],
        mapping={k: c for k, c in s['mapping']}, reference=s['reference']) for s in spec['segs']]
    kw = {} if spec['default_prefix'] else dict(prefix=spec['prefix'])
    the_segmentation = bseg.Segmentation(beta, tuples, **kw)
    if spec['api'] == 'function':
        expr = bseg.segmented_beta(beta, tuples, **kw)
    else:
        expr = the_segmentation.segmented_beta()
    res['parameters'] = _beta_description(expr)
    values = {spec['beta']: spec['ref_value']}
    for s in spec['segs']:
        for c, v in s['shifts'].items():
            values[f'{spec["beta"]}_{c}'] = v
    values = {k: v for k, v in values.items() if k in res['parameters']}
    res['stage'] = 'evaluate'
    res['values'] = _vals(expr, database, values)
    res['at_init'] = _vals(expr, database)
    res['stage'] = 'code'
    code = the_segmentation.segmented_code()
    res['code'] = code
    res['stage'] = 'exec'
    namespace = dict(Beta=bex.Beta, Variable=bex.Variable, bioMultSum=bex.bioMultSum)
    try:
        exec(code, namespace)  # noqa: the generated specification code is the object under test
    except SyntaxError as e:
        res['exc'] = dict(stage='exec', type='SyntaxError', module='builtins', msg=str(e)[:300])
        return
    prefix = 'segmented' if spec['default_prefix'] else spec['prefix']
    target = f'{prefix}_{spec["beta"]}'
    res['code_defines'] = sorted(k for k in namespace if isinstance(namespace[k], bex.Expression))
    coded = namespace.get(target)
    if coded is None:
        return
    res['stage'] = 'evaluate_code'
    res['code_parameters'] = _beta_description(coded)
    res['code_values'] = _vals(coded, database, values)
    res['code_at_init'] = _vals(coded, database)


def judge_segmentation(spec) -> Outcome:
    out = Outcome()
    name, segs = spec['beta'], spec['segs']
    explicit_other = any(s['reference'] is not None and s['reference'] != s['mapping'][0][1] for s in segs)
    many_to_one = any(len(seg_categories(s)) < len(s['mapping']) for s in segs)
    out.nontrivial = len(segs) >= 2 or explicit_other or many_to_one
    out.classes += [f'segmentation:variables={len(segs)}', f'segmentation:api={spec["api"]}',
                    'segmentation:bounded' if spec['lb'] is not None else 'segmentation:unbounded']
    out.classes += sorted(set('segmentation:reference=' + ('default' if s['reference'] is None else
                                                           'first' if s['reference'] == s['mapping'][0][1] else 'other')
                              for s in segs))
    for s in segs:
        count = {}
        for _, c in s['mapping']:
            count[c] = count.get(c, 0) + 1
        listed = [c for _, c in s['mapping']]
        scattered = any(listed[i] != listed[i - 1] and listed[i] in listed[:i - 1] for i in range(2, len(listed)))
        declared = s['reference'] if s['reference'] is not None else listed[0]  # 'arbitrary' is the first one listed
        out.classes.append('segmentation:mapping=' + ('one_to_one' if max(count.values()) == 1 else 'many_to_one'))
        if scattered:
            out.classes.append('segmentation:values_of_a_category_not_listed_together')
        if count[declared] >= 2:
            out.classes.append('segmentation:reference_covers_several_values:' +
                               ('default' if s['reference'] is None else 'explicit'))
        elif max(count.values()) >= 2:
            out.classes.append('segmentation:other_category_covers_several_values')
    out.classes = sorted(set(out.classes))
    text = f'segmentation of {name} by ' + '; '.join(
        f'{s["var"]}:{seg_category_of(s)} ref {s["reference"]}' for s in segs)
    r = _run(_obs_segmentation, spec)
    if not r['ok'] or 'exc' in r['value']:
        e = r['value']['exc'] if r['ok'] else dict(type=r['exc_type'], msg=r['exc_msg'], stage='child')
        where = 'segmented_code' if e['stage'] in ('code', 'exec', 'evaluate_code') else 'segmented_beta'
        out.fail(f'{where}:raises:{e["type"]}', f'{text}: {e["type"]} at stage {e["stage"]}: {e["msg"][:200]}'
                                                + (f' code: {r["value"].get("code")}' if r['ok'] and where == 'segmented_code' else ''))
        return out
    obs = r['value']
    params = obs['parameters']
    # which category of each variable is the reference: the one without a shift parameter
    references = []
    for s in segs:
        cats = seg_categories(s)
        missing = [c for c in cats if f'{name}_{c}' not in params]
        if s['reference'] is not None:
            if missing != [s['reference']]:
                out.fail('segmented_beta:reference',
                         f'{text}: categories without a shift parameter: {missing}; the reference is {s["reference"]}')
                return out
        elif len(missing) != 1:
            out.fail('segmented_beta:reference', f'{text}: {len(missing)} categories of {s["var"]} have no shift '
                                                 f'parameter ({missing}); exactly one reference expected')
            return out
        references.append(missing[0])
    expected_names = {name} | {f'{name}_{c}' for s, ref in zip(segs, references) for c in seg_categories(s) if c != ref}
    if set(params) != expected_names:
        out.fail('segmented_beta:parameters', f'{text}: parameters {sorted(params)}, expected {sorted(expected_names)}')
        return out
    # closed form: every observation of a segment gets the reference value plus the shift of its segment
    ref_vals, init_vals = [], []
    for row in spec['rows']:
        total, n_shift = [spec['ref_value']], 0
        for s, ref, key in zip(segs, references, row):
            c = seg_category_of(s)[key]
            if c != ref:
                total.append(s['shifts'][c])
                n_shift += 1
        ref_vals.append(math.fsum(total))
        init_vals.append(spec['init'] * (1 + n_shift))
    tol = [1e-12 * (1 + abs(spec['ref_value']) + 4 * len(segs))] * len(ref_vals)
    i = _first_bad(obs['values'], ref_vals, tol)
    if i != -1:
        out.fail('segmented_beta:value', f'{text}: row {spec["rows"][i] if i >= 0 else "?"} evaluates to '
                                         f'{obs["values"][i] if i >= 0 else obs["values"]!r}; reference value + shifts of '
                                         f'the row = {ref_vals[i] if i >= 0 else ref_vals!r}')
    i = _first_bad(obs['at_init'], init_vals, [1e-12 * (1 + 4 * abs(spec['init']))] * len(init_vals))
    if i != -1:
        out.fail('segmented_beta:initial_value', f'{text}: at the initial values row {i} gives {obs["at_init"]} '
                                                 f'instead of {init_vals}')
    # the generated code
    if 'code_values' not in obs:
        prefix = 'segmented' if spec['default_prefix'] else spec['prefix']
        out.fail('segmented_code:target', f'{text}: executing the code does not define {prefix}_{name}; it defines '
                                          f'{obs["code_defines"]}: {obs["code"]}')
        return out
    if obs['code_parameters'] != params:
        diff = {k: (params.get(k), obs['code_parameters'].get(k)) for k in set(params) | set(obs['code_parameters'])
                if params.get(k) != obs['code_parameters'].get(k)}
        out.fail('segmented_code:parameters', f'{text}: parameters (initial value, bounds, status) of the expression '
                                              f'vs of the generated code differ: {diff}')
    for label, a, b in (('values', obs['code_values'], obs['values']), ('initial values', obs['code_at_init'], obs['at_init'])):
        if _first_bad(a, b, tol) != -1:
            out.fail('segmented_code:value', f'{text}: the generated code evaluates to {a}, the expression to {b} ({label}): '
                                             f'{obs["code"]}')
            break
    return out


def _render_seg(s):
    return (f"Beta({s['beta']!r}, {s['init']}, {s['lb']}, {s['ub']}) segmented by " +
            '; '.join(f"{g['var']} {dict((k, c) for k, c in g['mapping'])} ref={g['reference']}" for g in s['segs']) +
            f" on rows {s['rows']}")


# ---------------------------------------------------------------------------------------------
# correlation of the nested logit

ALT_NAMES = ['Train', 'Car', 'Swissmetro', 'bus', 'walk', 'Bike', 'PT', 'alt 7', 'a', 'b']


@st.composite
def strat_correlation(draw, tier):
    n = draw(st.integers(3, 7))
    choice_set = draw(st.lists(st.integers(0, 12), min_size=n, max_size=n, unique=True))
    shuffled = draw(st.permutations(choice_set))
    n_nests = draw(st.sampled_from([1, 2, 2, 3, 3]))
    nests, pos = [], 0
    for m in range(n_nests):
        room = n - pos
        if room <= 0:
            break
        size = draw(st.integers(1 if m else 2, max(2 if not m else 1, min(4, room))))
        size = min(size, room)
        alts = list(shuffled[pos:pos + size])
        pos += size
        kind = draw(st.sampled_from(['float', 'Beta', 'Beta', 'Numeric']))
        value = draw(st.one_of(_dy(1, 6), st.floats(1.0, 10.0, allow_nan=False, allow_subnormal=False)))
        nests.append(dict(kind=kind, value=value, alts=alts, name=draw(st.sampled_from([None, f'nest {m}', f'N{m}']))))
    named = draw(st.sampled_from(['none', 'choice_set_order', 'shuffled', 'shuffled', 'sorted_by_name']))
    names = None
    if named != 'none':
        labels = draw(st.lists(st.sampled_from(ALT_NAMES), min_size=n, max_size=n, unique=True))
        pairs = [[a, l] for a, l in zip(choice_set, labels)]
        if named == 'shuffled':
            pairs = list(draw(st.permutations(pairs)))
        elif named == 'sorted_by_name':
            pairs = sorted(pairs, key=lambda t: t[1])
        names = pairs
    overrides = {}
    for m, nest in enumerate(nests):
        if nest['kind'] == 'Beta' and draw(st.booleans()):
            overrides[f'MU_{m}'] = draw(st.one_of(_dy(1, 6), st.floats(1.0, 10.0, allow_nan=False, allow_subnormal=False)))
    parameters = draw(st.sampled_from(['none', 'empty'])) if not overrides else 'dict'
    return dict(choice_set=choice_set, nests=nests, names=names, overrides=overrides, parameters=parameters,
                syntax=draw(st.sampled_from(['new', 'new', 'old'])), mu=draw(st.sampled_from([None, None, None, 1.0])))


def _obs_correlation(spec, res):
    res['stage'] = 'build'
    nests = []
    for m, nest in enumerate(spec['nests']):
        if nest['kind'] == 'Beta':
            param = bex.Beta(f'MU_{m}', nest['value'], 1.0, 10.0, 0)
        elif nest['kind'] == 'Numeric':
            param = bex.Numeric(nest['value'])
        else:
            param = nest['value']
        if spec['syntax'] == 'old':
            nests.append((param, list(nest['alts'])))
        else:
            nests.append(bnests.OneNestForNestedLogit(nest_param=param, list_of_alternatives=list(nest['alts']),
                                                      name=nest['name']))
    the_nests = bnests.NestsForNestedLogit(choice_set=list(spec['choice_set']), tuple_of_nests=tuple(nests))
    kw = {}
    if spec['parameters'] == 'empty':
        kw['parameters'] = {}
    elif spec['parameters'] == 'dict':
        kw['parameters'] = dict(spec['overrides'])
    if spec['names'] is not None:
        kw['alternatives_names'] = {a: l for a, l in spec['names']}
    if spec['mu'] is not None:
        kw['mu'] = spec['mu']
    res['stage'] = 'correlation'
    frame = the_nests.correlation(**kw)
    res['index'] = [str(v) for v in frame.index]
    res['columns'] = [str(v) for v in frame.columns]
    res['matrix'] = np.asarray(frame.values, dtype=float).tolist()


def judge_correlation(spec) -> Outcome:
    out = Outcome()
    cs = spec['choice_set']
    label = {a: str(a) for a in cs} if spec['names'] is None else {a: l for a, l in spec['names']}
    order_differs = spec['names'] is not None and [a for a, _ in spec['names']] != cs
    out.nontrivial = order_differs and any(len(n['alts']) >= 2 for n in spec['nests'])
    out.classes += ['correlation:names=' + ('none' if spec['names'] is None else
                                            'other_order' if order_differs else 'choice_set_order'),
                    f'correlation:nests={len(spec["nests"])}', f'correlation:syntax={spec["syntax"]}',
                    f'correlation:parameters={spec["parameters"]}']
    if len(set(a for n in spec['nests'] for a in n['alts'])) < len(cs):
        out.classes.append('correlation:alone_alternatives')
    text = (f'NestsForNestedLogit({cs}, ' + ', '.join(f'{n["kind"]} {n["value"]}:{n["alts"]}' for n in spec['nests']) +
            f').correlation(parameters={spec["overrides"] if spec["parameters"] == "dict" else spec["parameters"]}, '
            f'alternatives_names={None if spec["names"] is None else dict((a, l) for a, l in spec["names"])})')
    r = _run(_obs_correlation, spec)
    if not r['ok'] or 'exc' in r['value']:
        e = r['value']['exc'] if r['ok'] else dict(type=r['exc_type'], msg=r['exc_msg'], stage='child')
        out.fail(f'correlation:raises:{e["type"]}', f'{text} raised {e["type"]} ({e["stage"]}): {e["msg"][:200]}')
        return out
    obs = r['value']
    n = len(cs)
    want_labels = sorted(label.values())
    if sorted(obs['index']) != want_labels or sorted(obs['columns']) != want_labels or \
            np.asarray(obs['matrix']).shape != (n, n):
        out.fail('correlation:labels:set', f'{text}: rows {obs["index"]} columns {obs["columns"]}, alternatives are '
                                           f'called {want_labels}')
        return out
    # expected correlation between two alternatives
    nest_of, mu_of = {}, {}
    for m, nest in enumerate(spec['nests']):
        mu_m = spec['overrides'].get(f'MU_{m}', nest['value']) if nest['kind'] == 'Beta' else nest['value']
        for a in nest['alts']:
            nest_of[a] = m
            mu_of[a] = mu_m

    def expected(a, b):
        if a == b:
            return 1.0
        if a in nest_of and b in nest_of and nest_of[a] == nest_of[b]:
            return 1.0 - 1.0 / (mu_of[a] * mu_of[a])
        return 0.0

    def entry(matrix_labels_rows, matrix_labels_cols, a, b):
        return obs['matrix'][matrix_labels_rows.index(label[a])][matrix_labels_cols.index(label[b])]

    wrong = [(a, b) for a in cs for b in cs
             if not _close(float(entry(obs['index'], obs['columns'], a, b)), expected(a, b), 1e-12)]
    if wrong:
        a, b = wrong[0]
        # is the matrix right when row i / column j is read as the i-th / j-th alternative of the choice set?
        positional = all(_close(float(obs['matrix'][i][j]), expected(a2, b2), 1e-12)
                         for i, a2 in enumerate(cs) for j, b2 in enumerate(cs))
        key = 'correlation:labels:dictionary_order' if positional and order_differs else 'correlation:value'
        out.fail(key, f'{text}: entry [{label[a]!r}][{label[b]!r}] (alternatives {a}, {b}) is '
                      f'{entry(obs["index"], obs["columns"], a, b)!r}, expected {expected(a, b)!r}'
                      + ('; the matrix is laid out in choice-set order but labelled in dictionary order' if positional else ''))
    return out


# ---------------------------------------------------------------------------------------------

SUBCHECKS = [
    SubCheck('piecewise_variables', strat_pw_variables, judge_pw_variables, _render_pw,
             dict(quick=600, thorough=20000),
             '2-6 increasing thresholds, open/closed ends, arguments below/at/between/above: K-1 variables, each '
             'max(0,min(t-a,b)), summing to the clipped distance from the first threshold; non-trivial if the '
             'first threshold is closed and non-zero'),
    SubCheck('piecewise_function', strat_pw_function, judge_pw_function, _render_pw,
             dict(quick=1500, thorough=40000),
             'piecewise_function(x, thresholds, betas) == sum beta_i x_Ti; non-trivial if the first threshold '
             'is closed and non-zero'),
    SubCheck('piecewise_formula', strat_pw_formula, judge_pw_formula, _render_pw,
             dict(quick=700, thorough=20000),
             'piecewise_formula through the engine (betas as Beta initial values and engine-supplied values, floats, '
             'Numeric, created by default) == sum beta_i x_Ti == piecewise_function; same non-trivial rule'),
    SubCheck('piecewise_as_variable', strat_pw_as_variable, judge_pw_as_variable, _render_pw,
             dict(quick=500, thorough=15000),
             'piecewise_as_variable (3-6 thresholds) == x_T1 + sum_{i>=2} beta_i x_Ti; same non-trivial rule'),
    SubCheck('boxcox', strat_boxcox, judge_boxcox,
             lambda s: f"boxcox(x={s['xs']} as {s['x_form']}, ell={s['ell']!r} as {s['ell_form']})",
             dict(quick=900, thorough=30000),
             'x in (1e-3,1e3), lambda = 0, +-1e-8..1e-3, around +-1e-5, regular: == expm1(l ln x)/l and no jump '
             'across the switching point; non-trivial if |lambda| < 1e-5'),
    SubCheck('density', strat_density, judge_density, _render_density, dict(quick=1100, thorough=40000),
             'normalpdf, lognormalpdf, uniformpdf, triangularpdf, logisticcdf with generated or default parameters '
             '(float/Numeric/Beta/Variable), arguments inside, at the edges of and outside the support == scipy.stats; '
             'non-trivial if the parameters are not the defaults'),
    SubCheck('density_data_parameters', strat_density_columns, judge_density, _render_density,
             dict(quick=300, thorough=12000),
             'the same five helpers with at least one parameter given as a Variable (column of the data); same oracle; '
             'always non-trivial (generated parameters)'),
    SubCheck('integral', strat_integral, judge_integral,
             lambda s: f"integral of {_call_text(s, 'x')}", dict(quick=160, thorough=4000),
             'the four densities integrate to one (scipy.integrate.quad over panels, engine as integrand); '
             'non-trivial if the parameters are not the defaults', max_skip_fraction=0.1),
    SubCheck('regression', strat_regression, judge_regression,
             lambda s: f"loglikelihoodregression(y={s['y']}, m={s['m']} as {s['model_form']}, sigma={s['sigma']} as {s['sigma_form']})",
             dict(quick=400, thorough=12000),
             'residuals from 0 to 1000 sigma, sigma of either sign (0.05 <= |sigma| <= 20): loglikelihoodregression == '
             'docstring form -(y-m)^2/(2 sigma^2) - log(sigma^2)/2 - log(2 pi)/2 (finite everywhere); for sigma > 0 '
             'likelihoodregression == normal density; non-trivial if sigma != 1'),
    SubCheck('segmentation', strat_segmentation, judge_segmentation, _render_seg, dict(quick=500, thorough=15000),
             '1-3 discrete variables x 2-4 categories, each category the image of 1-3 values of the variable (one to '
             'one or many to one, values of a category listed together or not), reference given or not, every mapped '
             'value observed: one shift parameter per non-reference category, none for the reference; value on each '
             'row == reference value + shift of the category of the row, per variable; exec(segmented_code()) gives '
             'the same parameters and values; non-trivial if >= 2 variables, a reference other than the first '
             'category, or a many-to-one mapping'),
    SubCheck('correlation', strat_correlation, judge_correlation,
             lambda s: f"choice set {s['choice_set']}, nests {[(n['kind'], n['value'], n['alts']) for n in s['nests']]}, names {s['names']}, parameters {s['overrides']}",
             dict(quick=500, thorough=15000),
             'NestsForNestedLogit.correlation read by alternative name: 1 - 1/mu_m^2 within a nest, 0 across, 1 on the '
             'diagonal; non-trivial if the name dictionary is not in choice-set order and a nest has >= 2 alternatives'),
]
RULE = ' | '.join(f'{s.name}: {s.rule}' for s in SUBCHECKS)
