"""C05 Choice models return proper probability distributions over available options."""
from __future__ import annotations

import math

import numpy as np
from hypothesis import strategies as st

from .. import build, gen, isolate, refsem
from .. import models_common as mc
from ..runner import Outcome, SubCheck

PROPERTY = 'C05'
LEVEL = 'exploration'
ASSUMPTIONS = [
    'probabilities are obtained by evaluating the model expression once per alternative with the choice set to '
    'that alternative\'s label, on the same rows and parameter values',
    'closed forms of the logit / nested / cross-nested probabilities are coded from the textbook formulas '
    '(biogeme\'s documented convention alpha^(mu_m/mu) for allocation parameters)',
    'tolerances: 1e-9 absolute on probabilities and sums (1e-7 for ordered probit because the engine\'s normal CDF '
    'is accurate to ~1e-9), 1e-9 relative+absolute on log-probabilities',
]
BUDGETS = dict(quick=dict(shards=8), thorough=dict(shards=16))
BETA_POOL = ['B_TIME', 'b_cost', 'ASC_1', 'asc_2', 'B_10', 'b_2', 'beta', 'Z']
MODELS = ['logit', 'nested', 'nested', 'nested_mu', 'cnl', 'cnl', 'cnlmu', 'mev']


@st.composite
def strat_models(draw, tier, models=None):
    big = tier == 'thorough'
    n_alts = draw(st.integers(2, 6 if big else 5))
    alts = draw(st.lists(st.integers(0, 40), min_size=n_alts, max_size=n_alts, unique=True))
    table, info = draw(gen.tables(max_rows=5 if big else 3, alts=alts, n_int=(1, 1), n_bool=(1, 1)))
    model = draw(st.sampled_from(models or MODELS))
    case = dict(table=table, alts=alts, model=model,
                utils=draw(mc.utilities(info, alts, BETA_POOL)),
                av=draw(mc.availabilities(info, alts, table)), nests=None, mu=None, log_gi=None,
                shift=draw(st.one_of(gen.dyadic(-30, 30), st.floats(-30, 30).map(lambda x: round(x, 2)))),
                tuple_syntax=draw(st.booleans()), np_seed=0)
    case['av_order'] = list(draw(st.permutations(alts))) if draw(st.booleans()) else None
    case['nest_names'] = draw(st.sampled_from(['indexed', 'indexed', 'none', 'same']))
    case['reuse_objects'] = draw(st.booleans())
    if model in ('nested', 'nested_mu'):
        case['nests'] = draw(mc.nested_structure(alts))
    elif model in ('cnl', 'cnlmu'):
        case['nests'] = draw(mc.cross_nested_structure(alts))
    if model in ('nested_mu', 'cnlmu'):
        # nest parameters must not be below the scale: mu_m >= mu >= 1
        mus = [mc._pv(m) for m, _ in case['nests']]
        mu = draw(st.one_of(st.just(1.0), gen.dyadic(1.0, max(1.0, min(mus)), 8)))
        case['mu'] = draw(mc.param_or_number(mu, 'MU'))
    if model == 'mev':
        g = gen.TreeGen(draw, info, max_betas=2, max_nodes=10, logit=False, sharing=False,
                        beta_names=['G_1', 'g_2'])
        case['log_gi'] = [[a, g.real(2)] for a in alts]
    return case


def _num(x):
    return np.asarray(x, dtype=float).tolist()


def _observe(case):
    import biogeme.expressions as ex

    database = build.build_database(case['table'])
    res = {'P': {}, 'logP': {}, 'Pshift': {}}
    model = case['model']
    ts = case['tuple_syntax'] and model != 'mev' and model != 'logit'
    objects = {} if case.get('reuse_objects') else None
    for a in case['alts']:
        e = mc.model_expression(case, model, ex.Numeric(a), tuple_syntax=ts, objects=objects)
        res['P'][a] = _num(e.get_value_c(database=database, betas=mc.evaluation_betas(case), prepare_ids=True))
        le = mc.model_expression(case, model, ex.Numeric(a), log=True, tuple_syntax=ts, objects=objects)
        try:
            res['logP'][a] = _num(le.get_value_c(database=database, betas=mc.evaluation_betas(case), prepare_ids=True))
        except RuntimeError as exc:  # log of zero probability may be refused by the engine
            res['logP'][a] = ('raised', str(exc)[:200])
            return res  # the engine is poisoned after an exception: stop here
        if model != 'mev':
            es = mc.model_expression(case, model, ex.Numeric(a), shift=case['shift'], tuple_syntax=ts, objects=objects)
            res['Pshift'][a] = _num(es.get_value_c(database=database, betas=mc.evaluation_betas(case), prepare_ids=True))
    return res


def judge_models(case) -> Outcome:
    out = Outcome()
    model = case['model']
    rows = build.table_rows(case['table'])
    alts = case['alts']
    try:
        ref = [mc.reference_probabilities(case, model, r) for r in rows]
        avail = [mc.row_availability(case, r) for r in rows]
        for r in rows:
            V = mc.row_utilities(case, r)
            if max(abs(v) for v in V.values()) > 60:
                raise refsem.IllPosed('utilities too large')
    except (refsem.IllPosed, OverflowError, ZeroDivisionError) as e:
        out.skipped = 'ill-posed: ' + str(e)[:40]
        return out
    some_unavailable = any(not av[a] for av in avail for a in alts)
    nest_ok = False
    if case['nests'] is not None:
        for mu_m, members in case['nests']:
            mem = [m[0] if isinstance(m, list) else m for m in members]
            if mc._pv(mu_m) > 1 and any(sum(1 for a in mem if av[a]) >= 2 for av in avail):
                nest_ok = True
    out.nontrivial = len(alts) >= 3 and some_unavailable and (nest_ok or model in ('logit', 'mev'))
    out.classes += ['objects_reused' if case.get('reuse_objects') else 'objects_rebuilt', f'model={model}', f'alts={len(alts)}', 'some_unavailable' if some_unavailable else 'all_available',
                    'full_choice_set' if case['av'] is None else 'with_availability']
    if case['nests'] is not None:
        nested_alts = {(m[0] if isinstance(m, list) else m) for _, mem in case['nests'] for m in mem}
        if any(a not in nested_alts for a in alts):
            out.classes.append('alone_alternatives')
    res = isolate.call(_observe, case)
    key = lambda what: f'{model}:{what}'  # noqa: E731
    if not res['ok']:
        out.fail(key(f'raises:{res["exc_type"]}'), f'{model} raised {res["exc_type"]}: {res["exc_msg"][:300]} '
                                                   f'for {render(case)}')
        return out
    o = res['value']
    n = len(rows)
    for i in range(n):
        probs = {}
        for a in alts:
            p = o['P'].get(a)
            if p is None or len(p) != n:
                out.fail(key('shape'), f'probability of alternative {a}: {p}')
                return out
            probs[a] = p[i]
        for a in alts:
            p = probs[a]
            if not (math.isfinite(p) and -1e-9 <= p <= 1 + 1e-9):
                out.fail(key('range'), f'row {i}: P({a}) = {p!r} outside [0,1] for {render(case)}')
            if not avail[i][a] and not abs(p) <= 1e-12:
                out.fail(key('unavailable_nonzero'), f'row {i}: unavailable alternative {a} has P = {p!r} for {render(case)}')
        s = sum(probs.values())
        if not abs(s - 1.0) <= 1e-9:
            out.fail(key('sum'), f'row {i}: probabilities {probs} sum to {s!r} for {render(case)}')
        for a in alts:
            if not abs(probs[a] - ref[i][a]) <= 1e-9:
                out.fail(key('closed_form'), f'row {i}: P({a}) = {probs[a]!r} vs closed form {ref[i][a]!r} for {render(case)}')
                break
        # invariance under V -> V + c
        if model != 'mev':
            for a in alts:
                ps = o['Pshift'].get(a)
                if ps is not None and not abs(ps[i] - probs[a]) <= 1e-9:
                    out.fail(key('shift_invariance'),
                             f'row {i}: P({a}) changes from {probs[a]!r} to {ps[i]!r} when {case["shift"]} is added to '
                             f'all utilities, for {render(case)}')
                    break
        # log version
        for a in alts:
            lp = o['logP'].get(a)
            if lp is None:
                continue
            if isinstance(lp, tuple) or (isinstance(lp, list) and lp and lp[0] == 'raised'):
                if avail[i][a] and ref[i][a] > 1e-300:
                    out.fail(key('log_raises'), f'log-probability of available alternative {a} raised: {lp[1]}')
                continue
            if avail[i][a] and ref[i][a] > 1e-300:
                want = math.log(probs[a]) if probs[a] > 0 else float('-inf')
                if not (math.isfinite(lp[i]) and abs(lp[i] - want) <= 1e-9 * (1 + abs(want))):
                    out.fail(key('log_consistency'), f'row {i}: log version gives {lp[i]!r}, log of the probability '
                                                     f'version is {want!r} (alternative {a}) for {render(case)}')
                    break
        if out.failures:
            break
    return out


def render(case):
    u = '; '.join(f'{a}: {refsem.render(s)}' for a, s in case['utils'])
    av = 'full' if case['av'] is None else '; '.join(f'{a}: {refsem.render(s)}' for a, s in case['av'])
    nests = case['nests']
    return (f'{case["model"]}(V={{{u[:300]}}}, av={{{av[:150]}}}, nests={nests}, mu={case["mu"]}, '
            f'tuple_syntax={case["tuple_syntax"]}) on {len(case["table"]["columns"][0][2])} rows')


# ---------------------------------------------------------------------------------------------
# ordered models


@st.composite
def strat_ordered(draw, tier):
    table, info = draw(gen.tables(max_rows=4, with_choice=False))
    k = draw(st.integers(2, 6))
    values = draw(st.lists(st.integers(-3, 40), min_size=k, max_size=k, unique=True))
    if draw(st.booleans()):
        values = sorted(values)
    g = gen.TreeGen(draw, info, max_betas=2, max_nodes=8, logit=False, sharing=False,
                    beta_names=['B_X', 'b_y'])
    cont = g.real(2)
    tau = draw(gen.dyadic(-2, 2))
    diffs = [draw(st.one_of(gen.dyadic(0.125, 3, 8), st.just(0.0))) for _ in range(max(0, k - 2))]
    return dict(table=table, kind=draw(st.sampled_from(['logit', 'probit'])), values=values, cont=cont,
                tau=tau, tau_name=draw(st.sampled_from(['tau', 'TAU_1', 'tau1'])), diffs=diffs, np_seed=0)


def _observe_ordered(case):
    import biogeme.models as models
    from biogeme.expressions import Beta

    database = build.build_database(case['table'])
    cont = build.Builder([]).build(case['cont'])
    tau = Beta(case['tau_name'], case['tau'], None, None, 0)
    f = models.ordered_logit if case['kind'] == 'logit' else models.ordered_probit
    probs = f(continuous_value=cont, list_of_discrete_values=list(case['values']), tau_parameter=tau)
    betas = {f'{case["tau_name"]}_diff_{v}': d for v, d in zip(case['values'][1:-1], case['diffs'])}
    res = {'keys': [k for k in probs]}
    for k, e in probs.items():
        res[k] = _num(e.get_value_c(database=database, betas=betas, prepare_ids=True))
    return res


def judge_ordered(case) -> Outcome:
    out = Outcome()
    rows = build.table_rows(case['table'])
    kind = case['kind']
    values = case['values']
    out.nontrivial = len(values) >= 3
    out.classes += [f'ordered_{kind}', f'categories={len(values)}']
    try:
        xs = [refsem.evaluate(case['cont'], refsem.Env(row=r), refsem.EVAlg()).v for r in rows]
    except (refsem.IllPosed, OverflowError) as e:
        out.skipped = 'ill-posed: ' + str(e)[:40]
        return out
    res = isolate.call(_observe_ordered, case)
    key = lambda what: f'ordered_{kind}:{what}'  # noqa: E731
    if not res['ok']:
        out.fail(key(f'raises:{res["exc_type"]}'), f'ordered {kind} raised {res["exc_type"]}: {res["exc_msg"][:300]}')
        return out
    o = res['value']
    if list(o['keys']) != list(values):
        out.fail(key('keys'), f'probabilities for {o["keys"]}, categories {values}')
        return out
    taus = [case['tau']]
    for d in case['diffs']:
        taus.append(taus[-1] + d)
    if kind == 'logit':
        cdf = lambda z: 1.0 / (1.0 + math.exp(-z))  # noqa: E731
        tol = 1e-9
    else:
        cdf = lambda z: 0.5 * math.erfc(-z / math.sqrt(2.0))  # noqa: E731
        tol = 1e-7
    for i, x in enumerate(xs):
        ps = [o[v][i] for v in values]
        for v, p in zip(values, ps):
            if not (math.isfinite(p) and -tol <= p <= 1 + tol):
                out.fail(key('range'), f'row {i}: P({v}) = {p!r}')
        if not abs(sum(ps) - 1.0) <= tol * len(ps):
            out.fail(key('sum'), f'row {i}: probabilities {ps} sum to {sum(ps)!r}')
        # closed form: P(first) = 1 - F(x - tau_1), P(k) = F(x - tau_{k-1}) - F(x - tau_k), P(last) = F(x - tau_last)
        want = [1 - cdf(x - taus[0])]
        for j in range(1, len(values) - 1):
            want.append(cdf(x - taus[j - 1]) - cdf(x - taus[j]))
        want.append(cdf(x - taus[-1]))
        for v, p, w in zip(values, ps, want):
            if not abs(p - w) <= tol:
                out.fail(key('closed_form'), f'row {i}: P({v}) = {p!r} vs {w!r} (x={x}, thresholds {taus})')
                break
        if out.failures:
            break
    return out


SUBCHECKS = [
    SubCheck('models', strat_models, judge_models, render, dict(quick=900, thorough=40000),
             'logit / nested / nested with scale / cross-nested (+scale) / MEV with user log G_i, arbitrary integer labels, '
             'availability columns with the chosen one available, nests with alone alternatives and overlapping '
             'allocations, object or legacy tuple syntax; non-trivial: >= 3 alternatives, one unavailable, a nest with '
             '>= 2 available members and mu_m > 1', max_skip_fraction=0.2),
    SubCheck('ordered', strat_ordered, judge_ordered,
             lambda c: f"ordered_{c['kind']}({refsem.render(c['cont'])[:200]}, values={c['values']}, tau={c['tau']}, diffs={c['diffs']})",
             dict(quick=400, thorough=15000), 'ordered logit / probit with 2-6 categories; non-trivial: >= 3 categories',
             max_skip_fraction=0.2),
]
RULE = ' | '.join(f'{s.name}: {s.rule}' for s in SUBCHECKS)
