"""C13 Data-set transformations keep rows and values intact.

Model-based testing of `biogeme.database.Database`: a generated history of operations
(`[op, args...]` lists inside the spec) is executed on the real object in ONE forked child,
which returns a plain snapshot of `Database.data` (and of the value returned by the
operation) after every step.  The parent keeps its own model (a list of row dicts) and
judges every step against it.  Arguments are made valid by construction: the generator runs
the same model while it draws the history; positional arguments are taken modulo the current
number of rows.

Sub-checks: history (everything interleaved), panel (identifiers in any order, flat frame,
individual map), folds (split for many k / group columns), extract (every kind of iterable,
count, row bootstrap), reeval (repeated evaluations) - all five share judge_history - and flatten
(the flattening tool and count_number_of_groups called directly, pure pandas, in-process).

Repeated evaluations: the generator remembers every formula a step hands to the library (evaluated by
values_from_database, stored by add_column / define_variable, condition of remove).  A later evaluation
step takes, in half of the cases (70% in 'reeval'), one of them again instead of a new formula: the same
spec, rebuilt, or (op ends with 'same') the very Expression object of the earlier call - preferably one
whose columns were scaled or whose rows changed since - and scale_column prefers columns that such a
formula reads.  The oracle needs nothing new: every evaluation is compared with the reference value of
the formula on the model table as it is at that step.  Classes 'reeval:*' / 'reeval_after:<operation>'
report which operations lay between two evaluations of one formula.

Magnitudes: besides the moderate values that the typed formulas of gen.TreeGen are built for, a table
holds up to two columns of another scale - integers and dyadic fractions around 1e5 .. 1e12 whose
neighbours differ by one unit or 1/8 (incomes, zone numbers), or multiples of a tiny unit (1e-7 .. 1e-12) -
the identifier may be that large as well, scale_column also converts to tiny units (1e-6, 1e-9, 1e-12),
and add_column derives new columns from them by one arithmetic operation.  count() is asked for a stored
entry, for a number next to a stored entry (one unit, a relative 1e-6, one ulp, an absolute 1e-9 away) or
for a constant, and must return exactly the number of rows whose stored entry equals the value.

Failure keys are '<operation>:<aspect>' (+ ':after_gap' when the row index had gaps before the
operation), e.g. 'add_column:values:after_gap', 'split:complement', 'remove:excludedData'.
Root causes that were identified on the unchanged tree carry their own key without suffix:
'panel:within_individual_order', 'sample_individual_map:stale_after_remove',
'extract_rows:one_shot_iterable', 'flatten_database:row_name_constant_within_groups' (these four were
repaired in /repo), and 'remove:rows_sharing_a_label_deleted' (remove() drops by label: with
repeated row labels it also deletes rows on which the condition is zero).  The suffix is
':dup_labels' instead of ':after_gap' when the row labels repeat before the operation.
"""
from __future__ import annotations

import functools
import json
import math

import numpy as np
from hypothesis import strategies as st

from .. import build, gen, isolate, refsem
from ..runner import Outcome, SubCheck

PROPERTY = 'C13'
LEVEL = 'exploration'
ASSUMPTIONS = [
    'formula values come from the reference semantics (vlib/refsem.py); a formula whose forward error '
    'bound is too large on some row is replaced at generation time (and not judged if it still occurs); '
    'the value the engine stored is accepted within the C01 tolerance and then adopted by the model, so '
    'that later steps read exactly what the table holds',
    'formulas carry no shared sub-trees (the ConditionalSum finding of C01 is not re-tested here)',
    'evaluating a formula does not depend on what was evaluated before: the same formula (rebuilt from its spec, or '
    'the same Expression object handed over again) must be worth, at every later step, its reference value on the '
    'table as it is then; an Expression object is not specific to the state of the table it was used on first',
    'row labels may repeat (stacked waves, a Database built from a bootstrap sample or from extract_rows '
    'with repeated positions) or be any unique integers: rows are identified by position in Database.data and, '
    'inside folds, by the multiset of (label, values) pairs - of values alone where a fold carries labels the '
    'table does not have; no operation of the property is documented as undefined for repeated labels, so all '
    'are asserted (panel() renumbers the rows, so the flat frame and the individual map never see repeats)',
    'the column declared as panel identifier, and identifier columns in general, are never scaled; '
    'explicit identical_columns only name columns that are constant within every individual',
    'a documented refusal (BiogemeError of panel() on non-contiguous identifiers) ends the history: the state '
    'of the object after a refused call is not specified',
    'bootstrap samples are judged by membership of their rows (by value) / of their individuals (identifier '
    'and row range) in the current table, as the property states; the distribution of the sample is not tested',
    'pandas/numpy are trusted for the bookkeeping of the oracle (no use of the functions under test)',
    'count(column, value) means equality of doubles (the docstring: number of times that the value appears in the '
    'column): the value is passed as a Python float that is a stored entry, one IEEE operation away from a '
    'stored entry (computed by the same code in child and parent) or a constant of the spec; all entries of '
    'integer columns are below 2**53 in magnitude, so that they are the same number as int64 and as float',
    'columns of large / tiny magnitude are kept out of the typed formula generator; the formulas that use them '
    'are one correctly rounded operation (+ - * /) or a comparison with a constant, which the reference '
    'semantics decides only when the operands are exact integers or clearly separated (relative 1e-9)',
]
BUDGETS = dict(quick=dict(shards=8), thorough=dict(shards=16))

ID_NAMES = ['ID', 'Person', 'hh']
CONST_NAMES = ['Age', 'Zone']
NEW_NAMES = ['NewVariable', 'derived', 'z_new', 'lnx', 'flag', 'seg', 'dd', 'ee', 'ff', 'gg', 'hh2', 'kk',
             'mm', 'nn2', 'pp', 'qq', 'rr', 'ss', 'tt2', 'uu', 'vv', 'ww', 'xx', 'yy', 'zz9']
MODIFYING = {'remove', 'add_column', 'define_variable', 'scale', 'panel'}
CHANGING = MODIFYING | {'resample', 'reextract'}  # operations after which the table is another one
# magnitudes at which neighbouring integers are within a relative 1e-5 of each other (exact in a double)
BIG_BASES = [120000, 250000, 26010431, 10 ** 9, 2 ** 31, 10 ** 12]
TINY_UNITS = [1e-9, 1e-12, 2.0 ** -40, 1e-7]
FORMULA_CAP = 1e6  # largest magnitude of a value of a formula of the typed generator (see _typed_formula)
BIG_CAP = 1e13  # entries of the wide-magnitude columns stay exact integers / dyadic fractions of a double


# ---------------------------------------------------------------------------------------------
# the model


class Model:
    """What the table must look like: rows in order, as dicts column -> float."""

    def __init__(self, table):
        cols = table['columns']
        self.cols = [c[0] for c in cols]
        n = len(cols[0][2]) if cols else 0
        self.rows = [{name: float(values[i]) for name, _, values in cols} for i in range(n)]
        self.labels = list(table['index']) if table.get('index') is not None else list(range(n))
        self.panel = None
        self.map_stale = False  # rows were removed after the individual map was built
        self.removed = 0  # rows deleted so far

    @property
    def n(self):
        return len(self.rows)

    @property
    def gapped(self):
        return self.labels != list(range(len(self.labels)))

    @property
    def duplicated(self):
        return len(set(map(repr, self.labels))) != len(self.labels)

    def column(self, name):
        return [r[name] for r in self.rows]

    def contiguous(self, col):
        """Are the rows of every value of `col` consecutive?"""
        seen, last = set(), object()
        for r in self.rows:
            v = r[col]
            if v != last:
                if v in seen:
                    return False
                seen.add(v)
                last = v
        return True

    def individuals(self, col):
        """value -> list of positions, in order of first appearance."""
        d = {}
        for i, r in enumerate(self.rows):
            d.setdefault(r[col], []).append(i)
        return d

    def identical_within(self, col, idcol):
        for pos in self.individuals(idcol).values():
            if len({self.rows[p][col] for p in pos}) > 1:
                return False
        return True


def tol(ev):
    return 16 * ev.e + 1e-12 * (1 + abs(ev.v))


class _Ill(Exception):
    pass


def ref_values(formula, rows):
    """Reference value (EV) of a formula on every row; raises _Ill if not well-posed."""
    out = []
    try:
        for r in rows:
            ev = refsem.evaluate(formula, refsem.Env(row=r, betas={}, shared=[]), refsem.EVAlg())
            if ev.e > 1e-7 * (1 + abs(ev.v)):
                raise _Ill('error bound too large')
            out.append(ev)
    except (refsem.IllPosed, OverflowError, ZeroDivisionError) as e:
        raise _Ill(str(e)[:60])
    return out


def ref_flags(cond, rows):
    """Per row: is the condition non-zero?"""
    alg = refsem.EVAlg()
    try:
        return [alg.truth(ev) for ev in ref_values(cond, rows)]
    except refsem.IllPosed as e:
        raise _Ill(str(e)[:60])


def extract_positions(kind, ints, n):
    """Positions requested by an extract operation on a table of n rows (same code in child
    and parent)."""
    if n == 0:
        return []
    if kind == 'empty':
        return []
    if kind == 'range':
        a, b, c = (list(ints) + [0, 0, 0])[:3]
        start = a % n
        length = 1 + b % (n - start)
        step = 1 + c % 2
        return list(range(start, start + length, step))
    pos = [p % n for p in ints]
    if kind == 'oob' and pos:
        pos[len(pos) // 2] = n + ints[0] % 3
    return pos


COUNT_MODES = ['+1', '-1', 'rel+', 'rel-', 'ulp+', 'ulp-', 'abs+', 'abs-']


def count_value(how, arg, mode, entry):
    """The value looked up by a count operation ['count', column, [how, arg(, mode)]] (same code in child
    and parent).  'val': the constant `arg`; 'pos': the entry stored at position `arg` (modulo the number
    of rows) = `entry`; 'near': a number next to that entry - one unit, a relative 2**-20 (about 1e-6),
    one ulp or an absolute 1e-9 away - which the column holds only if some row stores exactly that number."""
    if how == 'val' or entry is None:
        return float(arg)
    if how == 'pos':
        return entry
    if mode == '+1':
        return entry + 1.0
    if mode == '-1':
        return entry - 1.0
    if mode == 'rel+':
        return entry * (1.0 + 2.0 ** -20)
    if mode == 'rel-':
        return entry * (1.0 - 2.0 ** -20)
    if mode == 'ulp+':
        return float(np.nextafter(entry, math.inf))
    if mode == 'ulp-':
        return float(np.nextafter(entry, -math.inf))
    if mode == 'abs+':
        return entry + 1e-9
    if mode == 'abs-':
        return entry - 1e-9
    raise ValueError(f'unknown count mode {mode!r}')


def flat_reference(m: Model, idcol, identical):
    """Independent re-implementation of the documented layout of flatten_database with
    row_name=None: one row per individual (index = identifier), identical columns once under
    their own name (value of the first observation), every other column as '<k>_<column>' for
    the k-th observation of the individual (k = 1, 2, ...), missing observations = NaN."""
    groups = m.individuals(idcol)
    others = [c for c in m.cols if c != idcol]
    if identical is None:
        common = [c for c in others if m.identical_within(c, idcol)]
    else:
        common = [c for c in others if c in set(identical)]
    varying = [c for c in others if c not in common]
    longest = max(len(p) for p in groups.values())
    columns = list(common) + [f'{k}_{c}' for k in range(1, longest + 1) for c in varying]
    table = {}
    for ident, pos in groups.items():
        row = {c: m.rows[pos[0]][c] for c in common}
        for k in range(1, longest + 1):
            for c in varying:
                row[f'{k}_{c}'] = m.rows[pos[k - 1]][c] if k <= len(pos) else math.nan
        table[ident] = row
    return columns, table


# ---------------------------------------------------------------------------------------------
# observation: the whole history in one forked child


def _label(x):
    try:
        f = float(x)
        return int(f) if f == int(f) else f
    except Exception:  # noqa
        return repr(x)


def _frame(df):
    cols = [str(c) for c in df.columns]
    try:
        values = df.to_numpy(dtype=float).tolist() if cols else [[] for _ in range(len(df))]
    except Exception as e:  # noqa: non-numeric content is itself an observation
        values = None
        cols = cols + [f'<non-numeric: {e!r}>']
    return dict(cols=cols, index=[_label(i) for i in df.index], values=values,
                index_name=None if df.index.name is None else str(df.index.name))


def _snapshot(d):
    s = _frame(d.data)
    s['excluded'] = int(d.excludedData)
    s['panel'] = d.panelColumn
    s['n_obs'] = int(d.get_number_of_observations())
    imap = d.individualMap
    if imap is None or len(imap.shape) != 2 or imap.shape[1] < 2:
        s['imap'] = None
    else:
        s['imap'] = [[_label(i), int(imap.iloc[k, 0]), int(imap.iloc[k, 1])] for k, i in enumerate(imap.index)]
    return s


def _exc(e):
    import traceback

    return (type(e).__name__, type(e).__module__, str(e)[:300], traceback.format_exc(limit=12))


def _build_database(table, name='verif'):
    """Like build.build_database, with the row labels of the table spec (key 'index': stacked
    waves = duplicated labels, offsets, shuffled labels; None = 0..n-1)."""
    import biogeme.database as db

    df = build.build_dataframe(table)
    if table.get('index') is not None:
        df.index = list(table['index'])
    return db.Database(name, df)


def _observe(spec):
    d = _build_database(spec['table'])
    b = build.Builder([], overloads=bool(spec.get('overloads')))
    steps = [dict(snap=_snapshot(d))]
    box = {}
    built = {}  # formula (as JSON text) -> the Expression object built for it last

    def expr(formula, how=None):
        # 'same': the object that was handed to the library for this formula earlier in the history
        # (whatever the entry point); otherwise the formula is built again from its spec
        key = json.dumps(formula)
        if how != 'same' or key not in built:
            built[key] = b.build(formula)
        return built[key]

    for i, op in enumerate(spec['ops']):
        kind = op[0]
        n = len(d.data)
        rec = dict(exc=None, ret=None)
        np.random.seed((spec['np_seed'] + i) % (2 ** 32))
        # --- harness side: arguments
        if kind == 'remove':
            e = expr(op[1])
            call = lambda: d.remove(e)  # noqa: E731
            enc = lambda r: None  # noqa: E731
        elif kind == 'add_column':
            e = expr(op[2], op[3] if len(op) > 3 else None)
            call = lambda: d.add_column(e, op[1])  # noqa: E731
            enc = lambda r: [float(x) for x in r]  # noqa: E731
        elif kind == 'define_variable':
            e = expr(op[2], op[3] if len(op) > 3 else None)
            call = lambda: d.define_variable(op[1], e)  # noqa: E731
            enc = lambda r: [type(r).__name__, getattr(r, 'name', None)]  # noqa: E731
        elif kind == 'values':
            e = expr(op[1], op[2] if len(op) > 2 else None)
            call = lambda: d.values_from_database(e)  # noqa: E731
            enc = lambda r: [float(x) for x in r]  # noqa: E731
        elif kind == 'scale':
            call = lambda: d.scale_column(op[1], op[2])  # noqa: E731
            enc = lambda r: None  # noqa: E731
        elif kind == 'count':
            how, arg = op[2][0], op[2][1]
            entry = float(d.data[op[1]].iloc[arg % n]) if (how != 'val' and n) else None
            value = count_value(how, arg, op[2][2] if len(op[2]) > 2 else None, entry)
            rec['value'] = value
            call = lambda: d.count(op[1], value)  # noqa: E731
            enc = lambda r: int(r)  # noqa: E731
        elif kind == 'extract':
            pos = extract_positions(op[1], op[2], n)
            how = op[1]
            if how == 'range' and pos:
                arg = range(pos[0], pos[-1] + 1, (pos[1] - pos[0]) if len(pos) > 1 else 1)
            elif how == 'tuple':
                arg = tuple(pos)
            elif how == 'array':
                arg = np.array(pos, dtype=np.int64)
            elif how == 'iter':
                arg = iter(pos)
            else:
                arg = list(pos)
            call = lambda: d.extract_rows(arg)  # noqa: E731
            enc = lambda r: _frame(r.data)  # noqa: E731
        elif kind == 'sample':
            call = lambda: d.sample_with_replacement(op[1])  # noqa: E731
            enc = _frame
        elif kind == 'resample':
            # the table is replaced by a bootstrap sample of itself (row labels repeat)
            def call():
                box['new'] = type(d)(d.name + '_boot', d.sample_with_replacement(op[1]))

            enc = lambda r: None  # noqa: E731
        elif kind == 'reextract':
            pos = [p % n for p in op[1]] if n else []

            def call():
                box['new'] = d.extract_rows(list(pos))

            enc = lambda r: None  # noqa: E731
        elif kind == 'sample_individuals':
            call = lambda: d.sample_individual_map_with_replacement(op[1])  # noqa: E731
            enc = lambda r: [[_label(i), int(r.iloc[k, 0]), int(r.iloc[k, 1])]  # noqa: E731
                             for k, i in enumerate(r.index)]
        elif kind == 'split':
            call = lambda: d.split(op[1], op[2])  # noqa: E731
            enc = lambda r: [[_frame(f.estimation), _frame(f.validation)] for f in r]  # noqa: E731
        elif kind == 'panel':
            call = lambda: d.panel(op[1])  # noqa: E731
            enc = lambda r: None  # noqa: E731
        elif kind == 'flat':
            if op[1] is None:
                call = lambda: d.generate_flat_panel_dataframe()  # noqa: E731
            else:
                call = lambda: d.generate_flat_panel_dataframe(identical_columns=list(op[1]))  # noqa: E731
            enc = _frame
        else:
            raise ValueError(f'unknown operation {kind!r}')
        # --- library side
        try:
            result = call()
        except Exception as exc:  # noqa: judged by the parent
            rec['exc'] = _exc(exc)
            result = None
        if rec['exc'] is None:
            rec['ret'] = enc(result)
            if 'new' in box:
                d = box.pop('new')
        box.clear()
        rec['snap'] = _snapshot(d)
        steps.append(rec)
    return steps


# ---------------------------------------------------------------------------------------------
# the oracle


def _rows_of(frame):
    """list of dicts column -> value of a frame snapshot."""
    return [dict(zip(frame['cols'], vals)) for vals in frame['values']]


def _eq(a, b):
    return a == b and not (isinstance(a, float) and math.isnan(a))


def _row_equal(obs: dict, ref: dict, cols):
    return all(c in obs and _eq(obs[c], ref[c]) for c in cols)


def _state_matches(snap, m: Model):
    """Does the snapshot hold exactly the model's rows (same columns, same order of rows)?
    Returns '' or a description of the first difference."""
    if snap['values'] is None:
        return f'non-numeric content: {snap["cols"][-1]}'
    if sorted(snap['cols']) != sorted(m.cols):
        return f'columns {snap["cols"]} instead of {m.cols}'
    if len(snap['values']) != m.n:
        return f'{len(snap["values"])} rows instead of {m.n}'
    for i, (obs, ref) in enumerate(zip(_rows_of(snap), m.rows)):
        for c in m.cols:
            if not _eq(obs[c], ref[c]):
                return f'row at position {i} (label {snap["index"][i]}), column {c!r}: {obs[c]!r} instead of {ref[c]!r}'
    return ''


def _key_tuple(row: dict, cols):
    return tuple(row[c] for c in cols)


def _expected_error(rec, type_name):
    return rec['exc'] is not None and rec['exc'][0] == type_name


def _describe(op):
    kind = op[0]
    if kind == 'remove':
        return f'remove({refsem.render(op[1])[:120]})'
    if kind in ('add_column', 'define_variable'):
        return f'{kind}({op[1]!r} := {refsem.render(op[2])[:120]}{", same object" if len(op) > 3 and op[3] == "same" else ""})'
    if kind == 'values':
        return f'values_from_database({refsem.render(op[1])[:120]}{", same object" if len(op) > 2 and op[2] == "same" else ""})'
    if kind == 'scale':
        return f'scale_column({op[1]!r}, {op[2]!r})'
    if kind == 'extract':
        return f'extract_rows[{op[1]}]{op[2]}'
    if kind == 'resample':
        return f'Database(sample_with_replacement({op[1]}))'
    if kind == 'reextract':
        return f'd = d.extract_rows({op[1]})'
    return f'{kind}{tuple(op[1:])}'


_WARM_SPEC = dict(
    table=dict(columns=[['ID', 'int', [1, 1, 2, 2, 3]], ['x', 'float', [1.5, 2.0, 3.0, 4.0, 5.0]],
                        ['k', 'int', [0, 1, 0, 1, 1]], ['a', 'float', [7.0, 7.0, 8.0, 8.0, 9.0]]]),
    np_seed=1, overloads=False,
    ops=[['remove', ['Gt', ['Var', 'x'], ['Num', 4.5]]], ['add_column', 'n', ['Plus', ['Var', 'x'], ['Num', 1.0]]],
         ['define_variable', 'n2', ['Times', ['Var', 'x'], ['Var', 'k']]], ['values', ['Var', 'x']],
         ['scale', 'x', 2.0], ['values', ['Var', 'x'], 'same'], ['count', 'k', ['pos', 0]], ['extract', 'list', [0, 2]],
         ['extract', 'range', [0, 2, 0]], ['sample', None], ['split', 2, None], ['split', 2, 'ID'],
         ['panel', 'ID'], ['sample_individuals', None], ['flat', None], ['flat', ['a']], ['split', 2, None]])
_WARM = [False]


def _warm_up():
    """Run one fixed, well-posed history in the parent so that the lazy imports and caches of
    pandas/biogeme are paid once per shard and not once per forked child."""
    if not _WARM[0]:
        _WARM[0] = True
        try:
            _observe(_WARM_SPEC)
        except Exception:  # noqa: only a warm-up; the same calls are judged in the children
            pass


def _formula_of(op):
    """(formula, how) handed to the library by an operation, or (None, None)."""
    if op[0] == 'remove':
        return op[1], None
    if op[0] == 'values':
        return op[1], (op[2] if len(op) > 2 else None)
    if op[0] in ('add_column', 'define_variable'):
        return op[2], (op[3] if len(op) > 3 else None)
    return None, None


def judge_history(spec, follow=('add_column', 'define_variable', 'split'), need='removal') -> Outcome:
    out = Outcome()
    _warm_up()
    ops = spec['ops']
    out.evaluations = max(1, len(ops))
    res = isolate.call(_observe, spec)
    if not res['ok']:
        out.fail(f'history:child:{res["exc_type"]}',
                 f'the history could not be executed: {res["exc_type"]}: {res["exc_msg"][:300]}')
        return out
    steps = res['value']
    m = Model(spec['table'])
    diff = _state_matches(steps[0]['snap'], m)
    if diff:
        out.fail('construct:data', f'freshly built database differs from its table: {diff}')
        return out

    gap_seen_by = set()
    dup_seen_by = set()
    removal_then = False
    evaluated = {}  # formula (JSON text) -> index of the step that evaluated it last
    reeval_then = False
    history = []
    for i, op in enumerate(ops):
        kind = op[0]
        rec = steps[i + 1]
        snap = rec['snap']
        ctx = ':dup_labels' if m.duplicated else ':after_gap' if m.gapped else ''
        history.append(_describe(op))
        where = f'step {i + 1}/{len(ops)} [{" ; ".join(history[-4:])}] on {m.n} rows' \
                f'{" (row labels " + str(m.labels) + ")" if m.gapped else ""}'
        if m.duplicated:
            dup_seen_by.add(kind)
        out.classes.append(f'op:{kind}')
        if m.gapped:
            gap_seen_by.add(kind)
        if m.removed and kind in follow:
            removal_then = True
        formula, how = _formula_of(op)
        if formula is not None and not (kind in ('add_column', 'define_variable') and op[1] in m.cols):
            fkey = json.dumps(formula)
            if fkey in evaluated and kind != 'remove':
                # the same formula is evaluated again: what happened to the table in between?
                between = sorted({o[0] for o in ops[evaluated[fkey] + 1:i]} & CHANGING)
                name = 'values_from_database' if kind == 'values' else kind
                out.classes.append(f'reeval:{name}')
                out.classes.append('reeval:same_object' if how == 'same' else 'reeval:rebuilt')
                read = {n[1] for n in refsem.walk(formula) if n[0] == 'Var'}
                for o in ops[evaluated[fkey] + 1:i]:
                    if o[0] == 'scale' and o[1] in read:
                        between.append('scale_of_a_column_it_reads')
                        break
                for k in between or ['nothing']:
                    out.classes.append(f'reeval_after:{k}')
                if between and kind in follow:
                    reeval_then = True
            evaluated[fkey] = i
        if rec['exc'] is not None and isolate.harness_fault(dict(tb=rec['exc'][3])):
            raise RuntimeError(f'harness fault inside the child: {rec["exc"][:3]}\n{rec["exc"][3]}')

        def unexpected(name):
            t, mod, msg, _ = rec['exc']
            out.fail(f'{name}:raises:{t}{ctx}', f'{where}: {name} raised {mod}.{t}: {msg}')

        n_before = len(out.failures)
        verdict = _judge_step(out, m, op, rec, snap, ctx, where, unexpected)
        if verdict == 'skip':
            out.skipped = out.skipped or 'ill-posed formula in the history'
            break
        if len(out.failures) > n_before and verdict != 'continue':
            break
        if verdict == 'end':
            break
        # the row labels are whatever the library keeps (they may repeat: stacked waves, bootstrap)
        m.labels = list(snap['index'])
        if snap['n_obs'] != m.n:
            out.fail(f'{kind}:number_of_observations{ctx}',
                     f'{where}: get_number_of_observations() = {snap["n_obs"]}, table has {m.n} rows')
            break

    # one report per root cause and case
    seen, unique = set(), []
    for f in out.failures:
        if f.key not in seen:
            seen.add(f.key)
            unique.append(f)
    out.failures = unique
    out.nontrivial = len(ops) >= 3 and (reeval_then if need == 'reeval' else removal_then)
    for k in sorted(gap_seen_by):
        out.classes.append(f'after_gap:{k}')
    for k in sorted(dup_seen_by):
        out.classes.append(f'dup_labels:{k}')
    idx = spec['table'].get('index')
    out.classes.append('table_labels:default' if idx is None else
                       'table_labels:duplicated' if len(set(idx)) != len(idx) else 'table_labels:other')
    out.classes.append('len=%s' % ('0-2' if len(ops) <= 2 else '3-5' if len(ops) <= 5 else
                                   '6-9' if len(ops) <= 9 else '10+'))
    if m.panel is not None:
        out.classes.append('ends_in_panel_mode')
    return out


def _unchanged(out, m, snap, name, ctx, where):
    diff = _state_matches(snap, m)
    if diff:
        out.fail(f'{name}:data_changed{ctx}', f'{where}: {name} must not modify the table, but {diff}')
        return False
    return True


def _judge_step(out, m: Model, op, rec, snap, ctx, where, unexpected):
    """Judge one step, update the model. Returns 'ok', 'end' (history over), 'skip' (not
    judgeable) or 'continue' (a failure was recorded but model and table are in step)."""
    kind = op[0]

    # ------------------------------------------------------------------ remove
    if kind == 'remove':
        try:
            flags = ref_flags(op[1], m.rows)
        except _Ill:
            return 'skip'
        if rec['exc'] is not None:
            unexpected('remove')
            return 'ok'
        n_del = sum(flags)
        out.classes.append('remove:all' if n_del == m.n else 'remove:some' if n_del else 'remove:none')
        kept = [r for r, f in zip(m.rows, flags) if not f]
        before = m.n
        old_rows = m.rows
        m.rows = kept
        diff = _state_matches(snap, m)
        if diff and m.duplicated and n_del:
            # does the table hold what a deletion BY LABEL leaves (every row sharing its label with a
            # flagged row is gone as well)?
            gone = {repr(x) for x, f in zip(m.labels, flags) if f}
            alt = Model.__new__(Model)
            alt.cols = m.cols
            alt.rows = [r for r, x, f in zip(old_rows, m.labels, flags) if repr(x) not in gone]
            if not _state_matches(snap, alt) and len(alt.rows) < len(kept):
                out.fail('remove:rows_sharing_a_label_deleted',
                         f'{where}: condition is non-zero on {n_del} of {before} rows (flags {flags}); '
                         f'{before - len(alt.rows)} rows were deleted: also the rows that merely carry the same '
                         f'row label as a flagged row; excludedData = {snap["excluded"]}')
                m.rows = [dict(r) for r in alt.rows]  # follow the table, keep judging
                m.removed += before - len(alt.rows)
                if m.panel is not None:
                    m.map_stale = True
                return 'end' if m.n == 0 else 'continue'
        if diff:
            n_obs = len(snap['values'] or [])
            aspect = 'columns' if sorted(snap['cols']) != sorted(m.cols) else \
                'row_count' if n_obs != m.n else 'rows'
            out.fail(f'remove:{aspect}{ctx}',
                     f'{where}: condition is non-zero on {n_del} of {before} rows (flags {flags}), but {diff}')
            return 'ok'
        if snap['excluded'] != n_del:
            out.fail(f'remove:excludedData{ctx}',
                     f'{where}: {n_del} rows deleted, excludedData reports {snap["excluded"]}')
        m.removed += n_del
        if n_del and m.panel is not None:
            m.map_stale = True
        return 'end' if m.n == 0 else 'ok'

    # ------------------------------------------------------------------ add_column / define_variable
    if kind in ('add_column', 'define_variable'):
        name, formula = op[1], op[2]
        if name in m.cols:
            out.classes.append('add_column:existing_name')
            if not _expected_error(rec, 'ValueError'):
                if rec['exc'] is None:
                    out.fail(f'{kind}:existing_name_accepted', f'{where}: column {name!r} exists, no ValueError')
                else:
                    unexpected(kind)
                return 'ok'
            _unchanged(out, m, snap, kind, ctx, where)
            return 'ok'
        try:
            ref = ref_values(formula, m.rows)
        except _Ill:
            return 'skip'
        if rec['exc'] is not None:
            unexpected(kind)
            return 'ok'
        if snap['values'] is None or sorted(snap['cols']) != sorted(m.cols + [name]):
            out.fail(f'{kind}:columns{ctx}', f'{where}: columns are {snap["cols"]}, expected {m.cols + [name]}')
            return 'ok'
        obs_rows = _rows_of(snap)
        if len(obs_rows) != m.n:
            out.fail(f'{kind}:row_count{ctx}', f'{where}: {len(obs_rows)} rows instead of {m.n}')
            return 'ok'
        for p, (obs, r) in enumerate(zip(obs_rows, m.rows)):
            if not _row_equal(obs, r, m.cols):
                out.fail(f'{kind}:other_columns_changed{ctx}',
                         f'{where}: existing values changed at position {p}: {obs} instead of {r}')
                return 'ok'
        new = [obs[name] for obs in obs_rows]
        for p, (g, ev) in enumerate(zip(new, ref)):
            if not (math.isfinite(g) and abs(g - ev.v) <= tol(ev)):
                out.fail(f'{kind}:values{ctx}',
                         f'{where}: new column {name!r} at position {p} (label {snap["index"][p]}) holds {g!r}, '
                         f'the formula is worth {ev.v!r} on that row; column = {new}, '
                         f'expected {[e.v for e in ref]}')
                return 'ok'
        if kind == 'add_column':
            ret = rec['ret']
            if len(ret) != len(new) or any(not _eq(a, b_) for a, b_ in zip(ret, new)):
                out.fail(f'add_column:return{ctx}', f'{where}: returned {ret}, stored {new}')
        else:
            if rec['ret'] != ['Variable', name]:
                out.fail(f'define_variable:return{ctx}', f'{where}: returned {rec["ret"]}')
        m.cols = m.cols + [name]
        for r, g in zip(m.rows, new):
            r[name] = g  # adopt what the table holds (within tolerance of the reference)
        return 'ok'

    # ------------------------------------------------------------------ values_from_database
    if kind == 'values':
        try:
            ref = ref_values(op[1], m.rows)
        except _Ill:
            return 'skip'
        if rec['exc'] is not None:
            unexpected('values_from_database')
            return 'ok'
        got = rec['ret']
        if len(got) != m.n:
            out.fail(f'values_from_database:length{ctx}', f'{where}: {len(got)} values for {m.n} rows')
            return 'ok'
        for p, (g, ev) in enumerate(zip(got, ref)):
            if not (math.isfinite(g) and abs(g - ev.v) <= tol(ev)):
                out.fail(f'values_from_database:values{ctx}',
                         f'{where}: position {p}: {g!r} instead of {ev.v!r}; all = {got}')
                return 'ok'
        _unchanged(out, m, snap, 'values_from_database', ctx, where)
        return 'ok'

    # ------------------------------------------------------------------ scale_column
    if kind == 'scale':
        col, s = op[1], op[2]
        if rec['exc'] is not None:
            unexpected('scale_column')
            return 'ok'
        old = [dict(r) for r in m.rows]
        for r in m.rows:
            r[col] = r[col] * float(s)
        diff = _state_matches(snap, m)
        if diff:
            obs_rows = _rows_of(snap) if snap['values'] is not None else []
            others_ok = len(obs_rows) == len(old) and all(
                _row_equal(o, r, [c for c in m.cols if c != col]) for o, r in zip(obs_rows, old))
            out.fail(f'scale_column:{"target" if others_ok else "other_columns"}{ctx}',
                     f'{where}: after scaling {col!r} by {s!r}: {diff}')
        return 'ok'

    # ------------------------------------------------------------------ count
    if kind == 'count':
        col = op[1]
        how, arg = op[2][0], op[2][1]
        value = count_value(how, arg, op[2][2] if len(op[2]) > 2 else None,
                            None if how == 'val' else m.rows[arg % m.n][col])
        if rec['exc'] is not None:
            unexpected('count')
            return 'ok'
        # exactly the rows whose stored entry equals the value, whatever the magnitude of the entries
        expected = sum(1 for r in m.rows if r[col] == value)
        out.classes.append('count:hit' if expected else 'count:zero')
        out.classes.append(f'count:{how}')
        others = [r[col] for r in m.rows if r[col] != value]
        if any(abs(x - value) <= 1e-8 + 1e-5 * max(abs(x), abs(value)) for x in others):
            out.classes.append('count:close_but_different_entries')
        peak = max(abs(r[col]) for r in m.rows)
        out.classes.append('count:column_large' if peak >= 1e5 else 'count:column_tiny' if peak < 1e-6
                           else 'count:column_moderate')
        if rec['ret'] != expected or not _eq(rec['value'], value):
            out.fail(f'count:value{ctx}',
                     f'{where}: count({col!r}, {rec["value"]!r}) = {rec["ret"]}, the column {m.column(col)} '
                     f'holds {value!r} {expected} times')
        _unchanged(out, m, snap, 'count', ctx, where)
        return 'ok'

    # ------------------------------------------------------------------ extract_rows
    if kind == 'extract':
        how = op[1]
        pos = extract_positions(how, op[2], m.n)
        out.classes.append(f'extract:{how}')
        if how == 'oob':
            if not _expected_error(rec, 'IndexError'):
                if rec['exc'] is None:
                    out.fail('extract_rows:out_of_range_accepted', f'{where}: positions {pos} accepted')
                else:
                    unexpected('extract_rows')
            else:
                _unchanged(out, m, snap, 'extract_rows', ctx, where)
            return 'ok'
        if not pos:
            if not _expected_error(rec, 'BiogemeError'):
                if rec['exc'] is None:
                    out.fail('extract_rows:empty_accepted', f'{where}: empty selection gave a database')
                else:
                    unexpected('extract_rows')
            return 'ok'
        expected = [m.rows[p] for p in pos]
        if rec['exc'] is not None:
            t, _, msg, _ = rec['exc']
            if how == 'iter' and t == 'BiogemeError' and 'no entry' in msg:
                out.fail('extract_rows:one_shot_iterable',
                         f'{where}: extract_rows(iter({pos})) raised BiogemeError({msg!r}): the iterable is '
                         f'consumed by the range validation before the rows are taken')
            else:
                unexpected('extract_rows')
            return 'ok'
        fr = rec['ret']
        got = _rows_of(fr) if fr['values'] is not None else None
        if got is None or sorted(fr['cols']) != sorted(m.cols) or len(got) != len(expected) or any(
                not _row_equal(g, e, m.cols) for g, e in zip(got, expected)):
            out.fail(f'extract_rows:rows{ctx}',
                     f'{where}: extract_rows({pos}) returned labels {fr["index"]} values {fr["values"]}, expected '
                     f'the rows at positions {pos}: {[_key_tuple(e, m.cols) for e in expected]} (columns {m.cols})')
        _unchanged(out, m, snap, 'extract_rows', ctx, where)
        return 'ok'

    # ------------------------------------------------------------------ sample_with_replacement
    if kind == 'sample':
        size = op[1]
        if rec['exc'] is not None:
            unexpected('sample_with_replacement')
            return 'ok'
        fr = rec['ret']
        want = m.n if size is None else size
        got = _rows_of(fr) if fr['values'] is not None else []
        if len(got) != want or sorted(fr['cols']) != sorted(m.cols):
            out.fail(f'sample_with_replacement:shape{ctx}',
                     f'{where}: sample of size {size}: {len(got)} rows, columns {fr["cols"]}')
            return 'ok'
        existing = {_key_tuple(r, m.cols) for r in m.rows}
        for g in got:
            if _key_tuple(g, m.cols) not in existing:
                out.fail(f'sample_with_replacement:foreign_row{ctx}',
                         f'{where}: sampled row {g} is not a row of the table')
                break
        _unchanged(out, m, snap, 'sample_with_replacement', ctx, where)
        return 'ok'

    # ------------------------------------------------------------------ table replaced by a bootstrap sample
    if kind == 'resample':
        size = op[1]
        if rec['exc'] is not None:
            unexpected('resample')
            return 'ok'
        want = m.n if size is None else size
        rows = _rows_of(snap) if snap['values'] is not None else None
        if rows is None or sorted(snap['cols']) != sorted(m.cols) or len(rows) != want:
            out.fail(f'resample:shape{ctx}', f'{where}: database built from a sample of size {size}: '
                                             f'{None if rows is None else len(rows)} rows, columns {snap["cols"]}')
            return 'ok'
        existing = {_key_tuple(r, m.cols) for r in m.rows}
        for g in rows:
            if _key_tuple(g, m.cols) not in existing:
                out.fail(f'resample:foreign_row{ctx}', f'{where}: row {g} of the new database is not a row of the table')
                return 'ok'
        m.rows = [{c: g[c] for c in m.cols} for g in rows]  # the sample is random: follow it
        m.panel, m.map_stale = None, False
        return 'ok'

    # ------------------------------------------------------------------ table replaced by extracted rows
    if kind == 'reextract':
        pos = [p % m.n for p in op[1]]
        if rec['exc'] is not None:
            unexpected('extract_rows')
            return 'ok'
        m.rows = [dict(m.rows[p]) for p in pos]
        m.panel, m.map_stale = None, False
        diff = _state_matches(snap, m)
        if diff:
            out.fail(f'extract_rows:rows{ctx}', f'{where}: database returned by extract_rows({pos}): {diff}')
        return 'ok'

    # ------------------------------------------------------------------ split
    if kind == 'split':
        k, groups = op[1], op[2]
        refusal = k < 2 or (groups is not None and m.panel is not None and groups != m.panel)
        if refusal:
            out.classes.append('split:refused')
            if not _expected_error(rec, 'BiogemeError'):
                if rec['exc'] is None:
                    out.fail('split:invalid_request_accepted', f'{where}: split({k}, {groups!r}) accepted')
                else:
                    unexpected('split')
            return 'ok'
        if rec['exc'] is not None:
            unexpected('split')
            return 'ok'
        by = m.panel if m.panel is not None else groups
        out.classes.append('split:groups' if by is not None else 'split:rows')
        units = len(set(m.column(by))) if by is not None else m.n
        out.classes.append('split:k>units' if k > units else 'split:k<=units')
        _judge_split(out, m, k, by, rec['ret'], ctx, where)
        _unchanged(out, m, snap, 'split', ctx, where)
        return 'ok'

    # ------------------------------------------------------------------ panel
    if kind == 'panel':
        col = op[1]
        if not m.contiguous(col):
            out.classes.append('panel:refused')
            if not _expected_error(rec, 'BiogemeError'):
                if rec['exc'] is None:
                    out.fail('panel:non_contiguous_accepted',
                             f'{where}: {col!r} = {m.column(col)} is not contiguous, panel() accepted it')
                else:
                    unexpected('panel')
            return 'end'  # documented refusal; the state of the object afterwards is not specified
        if rec['exc'] is not None:
            unexpected('panel')
            return 'ok'
        out.classes.append('panel:ids_ascending' if m.column(col) == sorted(m.column(col)) else 'panel:ids_unsorted')
        order = sorted(range(m.n), key=lambda p: m.rows[p][col])  # stable
        expected = [m.rows[p] for p in order]
        obs_rows = _rows_of(snap) if snap['values'] is not None else None
        cols = m.cols
        verdict = 'ok'
        if obs_rows is None or sorted(snap['cols']) != sorted(cols) or len(obs_rows) != m.n:
            out.fail(f'panel:rows{ctx}', f'{where}: {_state_matches(snap, m) or "shape changed"}')
            return 'ok'
        if any(not _row_equal(o, e, cols) for o, e in zip(obs_rows, expected)):
            ids = [o[col] for o in obs_rows]
            same_multiset = sorted(_key_tuple(o, cols) for o in obs_rows) == \
                sorted(_key_tuple(e, cols) for e in expected)
            if not same_multiset or ids != sorted(ids):
                out.fail(f'panel:rows{ctx}',
                         f'{where}: after panel({col!r}) the table is {[_key_tuple(o, cols) for o in obs_rows]}, '
                         f'expected {[_key_tuple(e, cols) for e in expected]} (columns {cols})')
                return 'ok'
            out.fail('panel:within_individual_order',
                     f'{where}: panel({col!r}) changed the order of the observations inside an individual: '
                     f'before {[_key_tuple(r, cols) for r in m.rows]}, after '
                     f'{[_key_tuple(o, cols) for o in obs_rows]} (columns {cols}); identifiers were '
                     f'{m.column(col)}')
            expected = [{c: o[c] for c in cols} for o in obs_rows]  # follow the table, keep judging
            verdict = 'continue'
        m.rows = [dict(r) for r in expected]
        m.panel = col
        m.map_stale = False
        if snap['panel'] != col:
            out.fail('panel:not_recorded', f'{where}: panelColumn is {snap["panel"]!r}')
        want_map = sorted([_label(ident), pos[0], pos[-1]] for ident, pos in m.individuals(col).items())
        got_map = sorted(snap['imap'] or [])
        if got_map != want_map:
            out.fail(f'panel:map{ctx}', f'{where}: individual map {got_map}, expected {want_map}')
        return verdict

    # ------------------------------------------------------------------ sample_individual_map_with_replacement
    if kind == 'sample_individuals':
        size = op[1]
        if m.panel is None:
            out.classes.append('sample_individuals:refused')
            if not _expected_error(rec, 'BiogemeError'):
                if rec['exc'] is None:
                    out.fail('sample_individual_map:accepted_without_panel', f'{where}: no BiogemeError')
                else:
                    unexpected('sample_individual_map')
            return 'ok'
        if rec['exc'] is not None:
            unexpected('sample_individual_map')
            return 'ok'
        groups = m.individuals(m.panel)
        out.classes.append('sample_individuals:map_stale' if m.map_stale else 'sample_individuals:map_fresh')
        want = len(groups) if size is None else size
        got = rec['ret']
        stale = m.map_stale
        if len(got) != want:
            out.fail('sample_individual_map:stale_after_remove' if stale else f'sample_individual_map:size{ctx}',
                     f'{where}: {len(got)} individuals sampled, expected {want} '
                     f'({len(groups)} individuals in the table)')
            return 'continue'
        for ident, first, last in got:
            pos = groups.get(ident)
            if pos is None or [first, last] != [pos[0], pos[-1]]:
                what = 'does not exist' if pos is None else f'occupies positions {pos[0]}..{pos[-1]}'
                out.fail('sample_individual_map:stale_after_remove' if stale
                         else f'sample_individual_map:foreign_individual{ctx}',
                         f'{where}: sampled entry (individual {ident!r}, rows {first}..{last}) but that individual '
                         f'{what}; identifiers in the table: {m.column(m.panel)}'
                         + ('; rows were removed after panel() and the individual map was not rebuilt'
                            if stale else ''))
                break
        _unchanged(out, m, snap, 'sample_individual_map', ctx, where)
        return 'continue'

    # ------------------------------------------------------------------ generate_flat_panel_dataframe
    if kind == 'flat':
        identical = op[1]
        if m.panel is None:
            out.classes.append('flat:refused')
            if not _expected_error(rec, 'BiogemeError'):
                if rec['exc'] is None:
                    out.fail('flat:accepted_without_panel', f'{where}: no BiogemeError')
                else:
                    unexpected('flat')
            return 'ok'
        if identical is not None and any(
                c not in m.cols or not m.identical_within(c, m.panel) for c in identical):
            out.classes.append('flat:precondition_violated')
            return 'ok'
        if rec['exc'] is not None:
            unexpected('flat')
            return 'ok'
        out.classes.append('flat:auto' if identical is None else 'flat:explicit')
        columns, table = flat_reference(m, m.panel, identical)
        out.classes.append('flat:ragged' if len({len(p) for p in m.individuals(m.panel).values()}) > 1
                           else 'flat:balanced')
        fr = rec['ret']
        if sorted(fr['cols']) != sorted(columns):
            out.fail(f'flat:columns{ctx}', f'{where}: columns {sorted(fr["cols"])}, expected {sorted(columns)}')
            return 'ok'
        if sorted(map(repr, fr['index'])) != sorted(map(repr, (_label(i) for i in table))) \
                or len(set(map(repr, fr['index']))) != len(fr['index']):
            out.fail(f'flat:index{ctx}', f'{where}: index {fr["index"]}, individuals {list(table)}')
            return 'ok'
        if fr['index_name'] != m.panel:
            out.fail(f'flat:index_name{ctx}', f'{where}: index is named {fr["index_name"]!r}, not {m.panel!r}')
        by_label = {repr(_label(i)): row for i, row in table.items()}
        for lab, vals in zip(fr['index'], fr['values']):
            obs = dict(zip(fr['cols'], vals))
            want = by_label[repr(lab)]
            for c in columns:
                a, w = obs[c], want[c]
                if not (a == w or (math.isnan(a) and math.isnan(w))):
                    out.fail(f'flat:values{ctx}',
                             f'{where}: individual {lab!r}, column {c!r}: {a!r} instead of {w!r}; table rows '
                             f'{[_key_tuple(r, m.cols) for r in m.rows]} (columns {m.cols})')
                    return 'ok'
        _unchanged(out, m, snap, 'flat', ctx, where)
        return 'ok'

    raise ValueError(f'unknown operation {kind!r}')


def _judge_split(out, m: Model, k, by, folds, ctx, where):
    cols = m.cols
    if len(folds) != k:
        out.fail(f'split:fold_count{ctx}', f'{where}: {len(folds)} folds for {k} slices')
        return
    for est, val in folds:
        for fr in (est, val):
            if fr['values'] is None or sorted(fr['cols']) != sorted(cols):
                out.fail(f'split:columns{ctx}', f'{where}: a fold has columns {fr["cols"]}')
                return
    # identity of a row = (label, values); labels may repeat, so everything is compared as multisets.
    # If a fold carries labels the table does not have, only the values are compared.
    from collections import Counter

    def idents(fr, with_labels):
        rows = _rows_of(fr)
        if with_labels:
            return [(repr(lab),) + _key_tuple(r, cols) for lab, r in zip(fr['index'], rows)]
        return [_key_tuple(r, cols) for r in rows]

    table_fr = dict(cols=cols, index=m.labels, values=[[r[c] for c in cols] for r in m.rows])
    known = set(idents(table_fr, True))
    with_labels = all(x in known for est, val in folds for fr in (est, val) for x in idents(fr, True))
    everything = Counter(idents(table_fr, with_labels))
    all_val = Counter()
    for j, (est, val) in enumerate(folds):
        v, e = Counter(idents(val, with_labels)), Counter(idents(est, with_labels))
        foreign = [x for x in list(v) + list(e) if x not in everything]
        if foreign:
            out.fail(f'split:values{ctx}', f'{where}: fold {j} holds {foreign[0]}, which is not a row of the table')
            return
        all_val += v
        if v + e != everything:
            lost = sorted((everything - v - e).elements())
            extra = sorted((v + e - everything).elements())
            out.fail(f'split:complement{ctx}',
                     f'{where}: fold {j} of split({k}, {by!r}): estimation part ({sum(e.values())} rows) is not the '
                     f'complement of the validation part ({sum(v.values())} rows) in the table ({m.n} rows): '
                     f'missing {lost[:4]}, in excess {extra[:4]} (label, values... of columns {cols})')
            return
    if all_val != everything:
        out.fail(f'split:partition{ctx}',
                 f'{where}: validation parts of split({k}, {by!r}) hold {sum(all_val.values())} rows; together they '
                 f'must contain every one of the {m.n} rows exactly once: missing '
                 f'{sorted((everything - all_val).elements())[:4]}, in excess '
                 f'{sorted((all_val - everything).elements())[:4]}')
        return
    if by is not None:
        home = {}
        for j, (est, val) in enumerate(folds):
            for r in _rows_of(val):
                g = r[by]
                if home.setdefault(g, j) != j:
                    out.fail(f'split:group_separated{ctx}',
                             f'{where}: rows of group {by!r} = {g!r} sit in validation folds {home[g]} and {j}')
                    return


# ---------------------------------------------------------------------------------------------
# generation: the history is drawn while the same model is run, so that arguments are valid


WEIGHTS = {
    #              remove add def val scale count extract sample split panel s_ind flat
    'history': dict(remove=5, add_column=4, define_variable=2, values=3, scale=2, count=2, extract=2,
                    sample=2, split=4, panel=1, sample_individuals=1, flat=1, resample=2, reextract=1),
    'panel': dict(remove=4, add_column=2, define_variable=0, values=0, scale=1, count=1, extract=0,
                  sample=0, split=2, panel=4, sample_individuals=4, flat=5, resample=0, reextract=0),
    'folds': dict(remove=3, add_column=1, define_variable=0, values=0, scale=1, count=0, extract=0,
                  sample=1, split=8, panel=1, sample_individuals=0, flat=0, resample=3, reextract=1),
    'extract': dict(remove=4, add_column=1, define_variable=1, values=0, scale=1, count=3, extract=7,
                    sample=3, split=0, panel=1, sample_individuals=0, flat=0, resample=2, reextract=2),
    'reeval': dict(remove=3, add_column=3, define_variable=2, values=8, scale=5, count=1, extract=0,
                   sample=0, split=1, panel=1, sample_individuals=0, flat=0, resample=1, reextract=1),
}
REPEAT = dict(history=0.5, panel=0.5, folds=0.5, extract=0.5, reeval=0.7)  # share of evaluations that repeat


_LABEL_KINDS = {
    'history': ['default'] * 5 + ['stacked'] * 3 + ['offset', 'shuffled'],
    'panel': ['default'] * 7 + ['stacked'] * 2 + ['shuffled'],
    'folds': ['default'] * 4 + ['stacked'] * 4 + ['offset', 'shuffled'],
    'extract': ['default'] * 5 + ['stacked'] * 3 + ['offset', 'shuffled'],
    'reeval': ['default'] * 5 + ['stacked'] * 3 + ['offset', 'shuffled'],
}
_SLOTS = st.sampled_from(list(range(100)))  # (close to) uniform, unlike bounded integers/floats
_STOP = st.sampled_from([0] + [1] * 11)


def _p(draw, prob):
    return draw(_SLOTS) < prob * 100


@st.composite
def _table(draw, focus, big):
    """Table spec + typing information for gen.TreeGen.  The shape (rows, columns, groups of the
    identifier) is drawn choice by choice; the cell values come from a PRNG seeded by one drawn
    integer, so that the minimisation of a failing history does not crawl through every cell."""
    import random

    max_rows = dict(history=10, panel=12, folds=16, extract=10, reeval=10)[focus] * (2 if big else 1)
    n = draw(st.integers(3, max_rows))
    counts = dict(real=draw(st.integers(1, 2)), pos=1, int=draw(st.integers(1, 2)), bool=draw(st.integers(1, 2)),
                  big=draw(st.sampled_from([0, 1, 1, 2])))
    n_const = draw(st.integers(0, 2))
    n_ind = draw(st.integers(1, min(n, 5)))
    ascending = focus != 'panel' or _p(draw, 0.3)
    # row labels: pandas default, two stacked waves (labels repeat), or other unique labels
    label_kind = draw(st.sampled_from(_LABEL_KINDS[focus]))
    rnd = random.Random(draw(st.integers(0, 2 ** 31 - 1)))
    names = rnd.sample(gen.COLUMN_NAMES, sum(counts.values()))
    it = iter(names)
    info = dict(real=[], pos=[], int=[], bool=[], choice=None, alts=[], av={}, weight=None, n=n, id=[],
                const=[], big=[])
    cols = []

    def dtype():
        return rnd.choice(['float', 'int'])

    for _ in range(counts['real']):
        name = next(it)
        if rnd.random() < 0.5:
            vals = [rnd.randint(-24, 24) / 8 for _ in range(n)]
        else:
            vals = [rnd.randint(-3000, 3000) / 1000 for _ in range(n)]
        cols.append([name, 'float', vals])
        info['real'].append(name)
    for _ in range(counts['pos']):
        name = next(it)
        if rnd.random() < 0.5:
            vals = [rnd.randint(1, 40) / 8 for _ in range(n)]
        else:
            vals = [rnd.randint(125, 5000) / 1000 for _ in range(n)]
        cols.append([name, 'float', vals])
        info['pos'].append(name)
    for _ in range(counts['int']):
        lo = rnd.randint(-3, 2)
        hi = lo + rnd.randint(0, 3)
        name = next(it)
        cols.append([name, dtype(), [rnd.randint(lo, hi) for _ in range(n)]])
        info['int'].append([name, lo, hi])
    for _ in range(counts['bool']):
        name = next(it)
        cols.append([name, dtype(), [rnd.randint(0, 1) for _ in range(n)]])
        info['bool'].append(name)
    # columns of another magnitude (incomes, zone numbers, tiny units): distinct entries that lie within a
    # relative 1e-5 / an absolute 1e-8 of each other.  They stay out of the typed pools of gen.TreeGen (whose
    # formulas are built for moderate values) and are used by count, scale, remove, split and the
    # arithmetic templates of _big_formula.
    for _ in range(counts['big']):
        name = next(it)
        shape = rnd.choice(['int', 'int', 'frac', 'tiny', 'tiny_frac'])
        few = rnd.random() < 0.5  # few distinct values = repeated entries
        if shape in ('int', 'frac'):
            base = rnd.choice(BIG_BASES)
            if rnd.random() < 0.4:
                base += rnd.randint(1, 9999)
            if rnd.random() < 0.15:
                base = -base
            width = 1 if few else 3
            if shape == 'int':
                vals = [base + rnd.randint(-width, width) for _ in range(n)]
                cols.append([name, dtype(), vals])
            else:
                vals = [base + rnd.randint(-4 * width, 4 * width) / 8 for _ in range(n)]
                cols.append([name, 'float', vals])
        else:
            unit = rnd.choice(TINY_UNITS)
            width = 2 if few else 6
            if shape == 'tiny':
                vals = [rnd.randint(-width, width) * unit for _ in range(n)]
            else:
                vals = [rnd.randint(0, 8 * width) / 8 * unit for _ in range(n)]
            cols.append([name, 'float', vals])
        info['big'].append(name)
    # identifier column: contiguous groups (the documented requirement of panel()), ascending or not;
    # small codes, or numbers of the size of a census / customer identifier
    cuts = sorted(rnd.sample(range(1, n), n_ind - 1))
    sizes = [b_ - a for a, b_ in zip([0] + cuts, cuts + [n])]
    id_base = rnd.choice(BIG_BASES) if rnd.random() < 0.25 else 0
    idents = [id_base + k for k in rnd.sample(range(-2, 31), n_ind)]
    if ascending:
        idents = sorted(idents)
    idvals = [i for i, s in zip(idents, sizes) for _ in range(s)]
    idname = rnd.choice(ID_NAMES)
    extra = [[idname, dtype(), idvals]]
    info['id'] = [idname]
    for cname in CONST_NAMES[:n_const]:
        large = rnd.random() < 0.2  # constant within an individual, neighbouring large numbers across individuals
        if large:
            cbase = rnd.choice(BIG_BASES)
            per = {i: cbase + rnd.randint(-1, 1) for i in idents}
        else:
            per = {i: (rnd.randint(18, 21) if rnd.random() < 0.5 else rnd.randint(1, 40) / 8) for i in idents}
        vals = [per[i] for i in idvals]
        kind = 'int' if all(isinstance(v, int) for v in vals) and rnd.random() < 0.5 else 'float'
        extra.append([cname, kind, vals])
        info['const'].append(cname)
        info['big' if large else 'real'].append(cname)
    for e in extra:
        cols.insert(rnd.randint(0, len(cols)), e)
    if max(abs(i) for i in idents) <= FORMULA_CAP:
        info['int'].append([idname, min(idents), max(idents)])
    else:
        # beyond the magnitude that _typed_formula accepts for the values of a formula: the identifier is
        # handled like the other wide-magnitude columns (count, remove, split, arithmetic templates; never
        # scaled), not offered to the typed formula generator
        info['big'].append(idname)
    index = None
    if label_kind == 'stacked':  # pd.concat([wave_1, wave_2]) without ignore_index
        cut = rnd.randint(1, n - 1)
        index = list(range(cut)) + list(range(n - cut))
    elif label_kind == 'offset':
        start, step_ = rnd.choice([1, 10, 100, -3]), rnd.choice([1, 2, 10])
        index = [start + step_ * k for k in range(n)]
    elif label_kind == 'shuffled':
        index = list(range(n))
        rnd.shuffle(index)
    return dict(columns=cols, index=index), info


def _fallback(sort, info):
    if sort == 'real':
        return ['Plus', ['Var', info['real'][0]], ['Num', 1.0]]
    if sort == 'pos':
        return ['Plus', ['Var', info['pos'][0]], ['Num', 1.0]]
    if sort == 'int':
        return ['Var', info['int'][0][0]]
    return ['Var', info['bool'][0]]


def _formula(draw, info, sort, depth):
    g = gen.TreeGen(draw, info, max_betas=2, sharing=False, logit=False, max_nodes=14,
                    beta_names=['B_TIME', 'b_1'])
    lo = hi = None
    if sort == 'real':
        s = g.real(depth)
    elif sort == 'pos':
        s = g.pos(depth)
    elif sort == 'int':
        s, lo, hi = g.integer(depth)
    elif sort == 'cond':
        s = g.condition(depth)
    else:
        s = g.boolean(depth)
    if s[0] == 'Lit' and sort != 'cond':
        s = ['Num', float(s[1]) if not isinstance(s[1], bool) else int(s[1])]
    return s, lo, hi


def _typed_formula(draw, m, info, sort, depth):
    """A formula of the given sort that is well-posed on every current row, with its values."""
    s, lo, hi = _formula(draw, info, sort, depth)
    for cand in (s, _fallback(sort, info)):
        try:
            ref = ref_values(cand, m.rows)
        except _Ill:
            continue
        vals = [ev.v for ev in ref]
        if any(abs(v) > FORMULA_CAP for v in vals) or (sort == 'pos' and any(v < 1e-6 for v in vals)):
            continue
        if cand is not s and sort == 'int':
            _, lo, hi = info['int'][0]
        return cand, vals, lo, hi
    return None, None, None, None


def _big_formula(draw, m, info):
    """Arithmetic on a column of large / tiny entries (a unit conversion, an offset, the difference to one
    of its entries, a sum with a small code): the derived column again holds distinct neighbouring numbers.
    Returns (formula, values) or (None, None)."""
    col = ['Var', draw(st.sampled_from(info['big']))]
    shape = draw(st.sampled_from(['times', 'times', 'plus', 'minus_entry', 'plus_code', 'divide', 'times_flag']))
    if shape == 'times':
        f = ['Times', col, ['Num', draw(st.sampled_from([10, 10.0, 2, -1, 0.5, 0.001, 1e-9, 1000, 0.1, 1e6]))]]
        if _p(draw, 0.3):
            f = ['Times', f[2], f[1]]
    elif shape == 'plus':
        f = ['Plus', col, ['Num', draw(st.sampled_from([1, -1, 0.5, 100, 0.001, 1e-9]))]]
    elif shape == 'minus_entry':
        f = ['Minus', col, ['Num', m.rows[draw(st.integers(0, 10 ** 6)) % m.n][col[1]]]]
    elif shape == 'plus_code':
        f = ['Plus', col, ['Var', draw(st.sampled_from([c[0] for c in info['int']] + info['bool']))]]
    elif shape == 'divide':
        f = ['Divide', col, ['Num', draw(st.sampled_from([1000, 8, 3, 1e6, 0.5]))]]
    else:
        f = ['Times', col, ['Var', draw(st.sampled_from(info['bool']))]]
    try:
        vals = [ev.v for ev in ref_values(f, m.rows)]
    except _Ill:
        return None, None
    if any(abs(v) > BIG_CAP for v in vals):
        return None, None
    return f, vals


def _condition(draw, m, info, want_some):
    """A removal condition; if `want_some`, one that deletes at least one row but not all."""
    cands = []
    allow_all = _p(draw, 0.1)
    if _p(draw, 0.06):
        cands.append(['Lit', draw(st.sampled_from([0, 1, 0.0, True, False]))])
    cands.append(_formula(draw, info, 'cond', draw(st.integers(1, 3)))[0])
    # targeted comparisons against the value of one row
    pool = info['real'] + info['pos'] + [c[0] for c in info['int']] + info['bool'] + info['big']
    col = draw(st.sampled_from(pool))
    pivot = m.rows[draw(st.integers(0, 10 ** 6)) % m.n][col]
    if pivot != math.floor(pivot):
        # inexact values are only compared with numbers they are clearly apart from (on the scale of the
        # column: a candidate that the reference semantics cannot decide is dropped below)
        if col not in info['big']:
            pivot += 2.0 ** -12
        elif abs(pivot) >= 1:
            pivot += 2.0 ** -4
        else:
            pivot *= 1.0 + 2.0 ** -4
    elif col in info['big'] and _p(draw, 0.3):
        pivot += draw(st.sampled_from([1, -1]))  # the neighbouring integer
    ops_ = draw(st.permutations(['Le', 'Ge', 'Lt', 'Gt', 'Eq', 'Ne']))
    for o in ops_:
        cands.append([o, ['Var', col], ['Num', pivot]])
    fallback = None
    good = []
    for c in cands:
        try:
            flags = ref_flags(c, m.rows)
        except _Ill:
            continue
        n_del = sum(flags)
        if fallback is None and n_del < m.n:
            fallback = (c, flags)
        if (0 < n_del < m.n) or (not want_some and (n_del == 0 or allow_all)):
            good.append((c, flags))
    if good:
        if _p(draw, 0.5):  # keep the table large: the candidate that deletes the fewest rows (but some)
            some = [g for g in good if sum(g[1])] or good
            return min(some, key=lambda g: sum(g[1]))
        return good[0]
    if fallback is None:
        c = ['Num', 0]
        return c, [False] * m.n
    return fallback


def _reads(formula):
    """Names of the columns a formula reads."""
    return sorted({n[1] for n in refsem.walk(formula) if n[0] == 'Var'})


def _note(state, formula, sort):
    """Remember that `formula` is handed to the library by the operation that is about to be appended
    (index len(ops)), so that later steps can evaluate the very same formula again."""
    if formula[0] in ('Lit', 'Num'):
        return
    key = json.dumps(formula)
    for s in state['seen']:
        if s['key'] == key:
            s['last'] = len(state['ops'])
            return
    state['seen'].append(dict(key=key, f=formula, sort=sort, reads=_reads(formula), last=len(state['ops'])))


def _repeat(draw, state, sorts):
    """An earlier formula of the history (of one of the sorts) to be evaluated again on the table as it
    is now, with its values, or (None, None, None).  Formulas whose columns were changed in place, or whose
    rows changed, since they were evaluated last are preferred: that is where a repetition can differ."""
    m = state['m']
    menu = []
    for k, s in enumerate(state['seen']):
        if s['sort'] not in sorts:
            continue
        w = 1
        if state['rows_stamp'] > s['last']:
            w = 2
        if any(state['col_stamp'].get(c, -1) > s['last'] for c in s['reads']):
            w = 4
        menu += [k] * w
    if not menu:
        return None, None, None
    s = state['seen'][draw(st.sampled_from(menu))]
    try:
        vals = [ev.v for ev in ref_values(s['f'], m.rows)]
    except _Ill:
        return None, None, None
    if any(abs(v) > (BIG_CAP if s['sort'] == 'big' else FORMULA_CAP) for v in vals):
        return None, None, None
    return s['f'], vals, s['sort']


def _how(draw):
    """Is the Expression object of the earlier evaluation handed over again, or is the formula rebuilt?"""
    return ['same'] if _p(draw, 0.4) else []


@st.composite
def _step(draw, state):
    """One more operation (appended to state['ops']), or the end of the history.  One step =
    one draw, so that the shrinker can delete a step as a whole."""
    m, info, focus, ops, new_names = state['m'], state['info'], state['focus'], state['ops'], state['names']
    weights = WEIGHTS[focus]
    step = state['steps']
    state['steps'] += 1
    if step >= 3 and draw(_STOP) == 0:  # shrinks towards "stop here"
        state['over'] = True
        return None
    menu = ['noop']  # simplest choice: lets the shrinker drop any of the first steps as well
    for kind, w in weights.items():
        if kind in ('sample_individuals', 'flat') and m.panel is None:
            # only as a rare documented refusal
            menu += [kind] * (1 if (w and focus == 'history' and step % 4 == 3) else 0)
            continue
        if kind in ('sample_individuals', 'flat') and focus == 'history':
            w = 3  # panel mode is rare in this sub-check: use it
        if kind == 'panel' and m.panel is not None:
            w = min(w, 1)
        if kind == 'sample_individuals' and focus != 'panel' and state['stale']:
            continue  # bootstrap of individuals after a removal in panel mode: 'panel' sub-check
        if kind == 'panel' and focus == 'panel' and m.panel is None:
            w = w + 2 * step  # get there
        menu += [kind] * w
    if step == 0 and focus not in ('panel', 'reeval') and draw(_SLOTS) >= 40:
        kind = 'remove'
    else:
        kind = draw(st.sampled_from(menu))
    if kind == 'noop':
        return None

    if kind == 'remove':
        cond, flags = _condition(draw, m, info, want_some=_p(draw, 0.8))
        _note(state, cond, 'cond')
        ops.append(['remove', cond])
        state['rows_stamp'] = len(ops) - 1
        n_del = sum(flags)
        if n_del and m.panel is not None:
            state['stale'] = True
        m.rows = [r for r, f in zip(m.rows, flags) if not f]
        m.labels = [x for x, f in zip(m.labels, flags) if not f]
        m.removed += n_del
    elif kind in ('add_column', 'define_variable'):
        if _p(draw, 0.04):
            name = draw(st.sampled_from(m.cols))
            ops.append([kind, name, _fallback('real', info)])
            return None
        f, how = None, []
        if state['seen'] and _p(draw, REPEAT[focus] * 0.6):
            # the formula of an earlier step once more, under a new name, on the table as it is now
            f, vals, sort = _repeat(draw, state, ('real', 'pos', 'int', 'bool', 'big'))
            if f is not None:
                how = _how(draw)
                lo = hi = None
                # the typing of the new column follows the values the formula takes now
                if sort == 'pos' and any(v < 1e-6 for v in vals):
                    sort = 'real'
                if sort == 'bool' and any(v not in (0.0, 1.0) for v in vals):
                    sort = 'real'
                if sort == 'int':
                    if all(v == math.floor(v) for v in vals):
                        lo, hi = int(min(vals)), int(max(vals))
                    else:
                        sort = 'real'
        if f is None:
            sort = draw(st.sampled_from(['real', 'real', 'pos', 'int', 'bool'] + (['big', 'big'] if info['big'] else [])))
            if sort == 'big':
                f, vals = _big_formula(draw, m, info)
                lo = hi = None
            else:
                f, vals, lo, hi = _typed_formula(draw, m, info, sort, draw(st.integers(1, 3)))
        if f is None:
            return None
        name = new_names.pop(draw(st.integers(0, len(new_names) - 1))) if new_names else None
        if name is None:
            return None
        _note(state, f, sort)
        ops.append([kind, name, f] + how)
        m.cols = m.cols + [name]
        for r, v in zip(m.rows, vals):
            r[name] = v
        if sort == 'int':
            info['int'].append([name, lo, hi])
        else:
            info[sort].append(name)
    elif kind == 'values':
        f, how = None, []
        if state['seen'] and _p(draw, REPEAT[focus]):
            # an earlier formula of the history (evaluated, stored as a column or used as a condition) again
            f, vals, sort = _repeat(draw, state, ('real', 'pos', 'int', 'bool', 'big', 'cond'))
            if f is not None:
                how = _how(draw)
        if f is None:
            sort = draw(st.sampled_from(['real', 'real', 'real', 'pos', 'int', 'bool']
                                        + (['big'] if info['big'] else [])))
            if sort == 'big':
                f, vals = _big_formula(draw, m, info)
            else:
                f, vals, _, _ = _typed_formula(draw, m, info, sort, draw(st.integers(1, 3)))
        if f is not None:
            _note(state, f, sort)
            ops.append(['values', f] + how)
    elif kind == 'scale':
        ids = set(info['id']) | {m.panel}
        which = draw(st.sampled_from(['real', 'real', 'pos', 'int'] + (['big', 'big'] if info['big'] else [])))
        # half of the time a column that a formula of an earlier step reads (if there is one that may be scaled)
        pool_of = {c: 'real' for c in info['real']}
        pool_of.update({c: 'pos' for c in info['pos']})
        pool_of.update({c[0]: 'int' for c in info['int']})
        pool_of.update({c: 'big' for c in info['big']})
        read = sorted({c for s_ in state['seen'] for c in s_['reads'] if c in pool_of and c not in ids})
        target = draw(st.sampled_from(read)) if (read and _p(draw, 0.5)) else None
        if target is not None:
            which = pool_of[target]
        cap = 1e6
        if which == 'big':
            # unit conversions of large / tiny entries: the neighbours stay different numbers
            col = target or draw(st.sampled_from(info['big']))
            if col in ids:
                return None
            s = draw(st.sampled_from([1e-9, 1e-6, 0.001, 10, 2, -1, 0.5, 1000, 1, 1000.0, 0.1, 3]))
            cap = BIG_CAP
        elif which == 'int':
            cands = [c for c in info['int'] if c[0] not in ids and target in (None, c[0])]
            if not cands:
                return None
            entry = draw(st.sampled_from(cands))
            s = draw(st.sampled_from([2, 3, -1, 10, 1]))
            a, b_ = sorted([entry[1] * s, entry[2] * s])
            if max(abs(a), abs(b_)) > 10 ** 6:
                return None
            entry[1], entry[2] = a, b_
            col = entry[0]
        elif which == 'pos':
            col = target or draw(st.sampled_from(info['pos']))
            s = draw(st.sampled_from([0.5, 2, 2.0, 100, 0.01, 1, 0.1, 3]))
        else:
            col = target or draw(st.sampled_from(info['real']))
            if col == m.panel:
                return None
            s = draw(st.sampled_from([0.5, 2, -1, 100, 0.01, 1, 0, -2.5, 0.1, 1000.0, 1e-9, 1e-6, 1e-12]))
        peak = max(abs(r[col]) for r in m.rows) * abs(s)
        if peak > cap or (which == 'pos' and min(r[col] for r in m.rows) * s < 1e-6):
            return None
        ops.append(['scale', col, s])
        state['col_stamp'][col] = len(ops) - 1
        for r in m.rows:
            r[col] = r[col] * float(s)
        if col not in state['touched']:
            state['touched'].append(col)
    elif kind == 'count':
        # every column, with more weight on those whose entries are large, tiny, scaled or derived
        col = draw(st.sampled_from(m.cols + (info['big'] + state['touched']) * 2))
        how = draw(st.sampled_from(['pos'] * 5 + ['near'] * 3 + ['val'] * 2))
        if how == 'pos':
            ops.append(['count', col, ['pos', draw(st.integers(0, 10 ** 6))]])
        elif how == 'near':
            ops.append(['count', col, ['near', draw(st.integers(0, 10 ** 6)), draw(st.sampled_from(COUNT_MODES))]])
        else:
            ops.append(['count', col, ['val', draw(st.sampled_from(
                [0, 1, 2, -1, 0.5, 99, 0.0, 1e-9, 1e-8, -1e-9, 120000, 26010431, 1e9, 2 ** 31]))]])
    elif kind == 'extract':
        kinds = ['list', 'list', 'range', 'range', 'tuple', 'array', 'oob', 'empty']
        if focus == 'extract':
            kinds += ['iter', 'list', 'range', 'array']
        how = draw(st.sampled_from(kinds))
        ints = draw(st.lists(st.integers(0, 10 ** 6), min_size=3 if how == 'range' else 1,
                             max_size=3 if how == 'range' else 6))
        ops.append(['extract', how, ints])
    elif kind == 'sample':
        size = None if _p(draw, 0.4) else draw(st.integers(1, 2 * m.n + 1))
        ops.append(['sample', size])
    elif kind == 'resample':
        size = None if _p(draw, 0.5) else draw(st.integers(2, m.n + 3))
        # the same stream as the child (seeded with np_seed + step index): only to keep the generator's
        # picture of the table close to the real one; the oracle follows the observed sample
        pick = np.random.RandomState((state['np_seed'] + len(ops)) % (2 ** 32)).randint(
            0, m.n, size=m.n if size is None else size)
        ops.append(['resample', size])
        state['rows_stamp'] = len(ops) - 1
        m.rows = [dict(m.rows[j]) for j in pick]
        m.labels = [m.labels[j] for j in pick]
        m.panel = None
        state['stale'] = False
    elif kind == 'reextract':
        ints = draw(st.lists(st.integers(0, 10 ** 6), min_size=2, max_size=m.n + 2))
        ops.append(['reextract', ints])
        state['rows_stamp'] = len(ops) - 1
        pos = [p % m.n for p in ints]
        m.rows = [dict(m.rows[j]) for j in pos]
        m.labels = [m.labels[j] for j in pos]
        m.panel = None
        state['stale'] = False
    elif kind == 'split':
        k = draw(st.one_of(st.integers(2, 5), st.integers(2, m.n + 2)))
        if _p(draw, 0.03):
            k = draw(st.sampled_from([0, 1, -1]))
        pool = info['id'] * 3 + [c[0] for c in info['int']] + info['bool'] + info['const'] + info['big']
        if m.panel is not None:
            groups = None if _p(draw, 0.6) else (m.panel if _p(draw, 0.85) else draw(st.sampled_from(pool)))
        else:
            groups = None if _p(draw, 0.4) else draw(st.sampled_from(pool))
        ops.append(['split', k, groups])
    elif kind == 'panel':
        if _p(draw, 0.92):
            col = info['id'][0]
        else:
            col = draw(st.sampled_from([c[0] for c in info['int']] + info['bool'] + info['const']))
            if focus != 'panel' and m.contiguous(col) and m.column(col) != sorted(m.column(col)):
                col = info['id'][0]  # identifiers in arbitrary order belong to the 'panel' sub-check
        ops.append(['panel', col])
        if not m.contiguous(col):
            state['over'] = True
            return None
        state['rows_stamp'] = len(ops) - 1
        order = sorted(range(m.n), key=lambda p: m.rows[p][col])
        m.rows = [m.rows[p] for p in order]
        m.labels = list(range(m.n))
        m.panel = col
        state['stale'] = False
    elif kind == 'sample_individuals':
        n_ind = len(m.individuals(m.panel)) if m.panel is not None else 2
        size = None if _p(draw, 0.4) else draw(st.integers(1, 2 * n_ind + 1))
        ops.append(['sample_individuals', size])
    elif kind == 'flat':
        if m.panel is None or _p(draw, 0.5):
            ops.append(['flat', None])
        else:
            same = [c for c in m.cols if c != m.panel and m.identical_within(c, m.panel)]
            chosen = [c for c in same if _p(draw, 0.6)]
            if _p(draw, 0.2):
                chosen.append(m.panel)
            ops.append(['flat', chosen])
    return None


@st.composite
def histories(draw, tier, focus):
    big = tier == 'thorough'
    table, info = draw(_table(focus, big))
    np_seed = draw(st.integers(0, 2 ** 31 - 1))
    overloads = draw(st.booleans())
    state = dict(m=Model(table), info=info, focus=focus, ops=[], names=list(NEW_NAMES), over=False, steps=0, stale=False,
                 np_seed=np_seed, touched=[], seen=[], rows_stamp=-1, col_stamp={})
    limit = 25 if big else 12
    for _ in range(2 * limit):
        if state['over'] or state['m'].n == 0 or len(state['ops']) >= limit:
            break
        draw(_step(state))
    return dict(table=table, ops=state['ops'], np_seed=np_seed, overloads=overloads)


# ---------------------------------------------------------------------------------------------
# the flattening tool itself (pure pandas: runs in-process)

ROW_NAMES = ['Item3', 'Item4', 'Item7', 'a', 'b', 'home']


def _flatten_frame(spec):
    import pandas as pd

    data = {'ID': np.array(spec['ids'], dtype=np.int64)}
    for name, dtype, values in spec['cols']:
        data[name] = np.array(values, dtype=np.int64 if dtype == 'int' else np.float64)
    if spec['names'] is not None:
        data['Name'] = list(spec['names'])
    df = pd.DataFrame(data)
    if spec['drop']:
        df = df.drop(index=sorted(set(spec['drop'])))  # leaves gaps in the row index
    return df


def judge_flatten(spec) -> Outcome:
    import pandas as pd
    from biogeme.tools.database import count_number_of_groups, flatten_database

    out = Outcome()
    df = _flatten_frame(spec)
    before = df.copy()
    columns = [c for c in df.columns if c != 'ID']
    rows = df.to_dict('records')
    groups = {}
    for r in rows:
        groups.setdefault(r['ID'], []).append(r)
    row_name = 'Name' if (spec['use_row_name'] and spec['names'] is not None) else None
    identical = spec['identical']
    gapped = list(df.index) != list(range(len(df)))
    out.nontrivial = gapped and len(groups) >= 2 and any(len(g) >= 2 for g in groups.values())
    out.classes += ['flatten:row_name' if row_name else 'flatten:numbered',
                    'flatten:auto' if identical is None else 'flatten:explicit',
                    'flatten:gapped' if gapped else 'flatten:dense',
                    'flatten:contiguous' if len(groups) == 1 + sum(
                        1 for a, b_ in zip(rows, rows[1:]) if a['ID'] != b_['ID']) else 'flatten:interleaved']

    def same_in_groups(c):
        return all(len({r[c] for r in g}) == 1 for g in groups.values())

    # number of runs of equal values, on the identifier and on the first other column
    for col in ['ID'] + columns[:1]:
        vals = [r[col] for r in rows]
        want = 1 + sum(1 for a, b_ in zip(vals, vals[1:]) if a != b_)
        try:
            got = count_number_of_groups(df, col)
        except Exception as e:  # noqa
            out.fail(f'count_number_of_groups:raises:{type(e).__name__}', f'{vals}: {e!r}')
            return out
        if got != want:
            out.fail('count_number_of_groups:value' + (':after_gap' if gapped else ''),
                     f'count_number_of_groups({vals}) = {got}, expected {want} (row labels {list(df.index)})')
        if not df.equals(before):
            out.fail('count_number_of_groups:frame_changed', f'the frame was modified: columns {list(df.columns)}')
            return out

    if identical is not None and any(c not in columns or not same_in_groups(c) for c in identical):
        out.skipped = 'identical_columns names a column that varies'
        return out
    if identical is None:
        common = [c for c in columns if same_in_groups(c)]
    else:
        common = [c for c in columns if c in identical]
    varying = [c for c in columns if c not in common]
    duplicates = row_name is not None and any(
        len({r['Name'] for r in g}) != len(g) for g in groups.values())
    name_constant = row_name is not None and row_name in common
    if name_constant:
        out.classes.append('flatten:row_name_constant_within_groups')
    try:
        flat = flatten_database(df, 'ID', row_name=row_name, identical_columns=identical)
        exc = None
    except Exception as e:  # noqa: judged below
        flat, exc = None, e
    if not df.equals(before):
        out.fail('flatten_database:frame_changed', 'the input frame was modified')
    if name_constant and duplicates:
        out.classes.append('flatten:constant_and_duplicate_names')
        return out  # a refusal is documented, and the corner below decides which one is raised
    if name_constant and isinstance(exc, KeyError):
        out.fail('flatten_database:row_name_constant_within_groups',
                 f'flatten_database(row_name="Name") with automatic detection raised KeyError({exc}) on '
                 f'{df.to_dict("list")}: the naming column is constant inside every group, is classified as '
                 f'"identical" and is then missing when the rows are named')
        return out
    if duplicates:
        out.classes.append('flatten:duplicate_names')
        if exc is None or type(exc).__name__ != 'BiogemeError':
            out.fail('flatten_database:duplicate_names_accepted',
                     f'names are not unique inside a group, got {exc!r} instead of BiogemeError')
        return out
    if exc is not None:
        out.fail(f'flatten_database:raises:{type(exc).__name__}',
                 f'flatten_database({df.to_dict("list")}, row_name={row_name!r}, identical_columns={identical!r}) '
                 f'raised {exc!r}')
        return out
    if name_constant:
        return out  # layout not specified by the documentation in this corner
    want = {}
    for ident, g in groups.items():
        row = {c: g[0][c] for c in common}
        for k, r in enumerate(g, start=1):
            label = r['Name'] if row_name else str(k)
            for c in varying:
                if c != row_name:
                    row[f'{label}_{c}'] = r[c]
        want[ident] = row
    want_cols = sorted({c for row in want.values() for c in row})
    key = 'flatten_database:%s' + (':after_gap' if gapped else '')
    if sorted(map(str, flat.columns)) != want_cols:
        out.fail(key % 'columns', f'columns {sorted(map(str, flat.columns))}, expected {want_cols} for '
                                  f'{df.to_dict("list")} (row_name={row_name!r}, identical={identical!r})')
        return out
    if sorted(flat.index) != sorted(want) or flat.index.name != 'ID':
        out.fail(key % 'index', f'index {list(flat.index)} named {flat.index.name!r}, expected {sorted(want)} named ID')
        return out
    for ident, row in want.items():
        for c in want_cols:
            got = flat.loc[ident, c]
            exp = row.get(c, math.nan)
            if not (got == exp or (pd.isna(got) and isinstance(exp, float) and math.isnan(exp))):
                out.fail(key % 'values', f'group {ident}, column {c!r}: {got!r} instead of {exp!r} for '
                                         f'{df.to_dict("list")} (row_name={row_name!r}, identical={identical!r})')
                return out
    return out


@st.composite
def strat_flatten(draw, tier):
    import random

    big = tier == 'thorough'
    n = draw(st.integers(3, 24 if big else 10))
    n_ind = min(n, draw(st.sampled_from([1, 2, 2, 3, 3, 4])))
    interleaved = _p(draw, 0.35)
    n_const = draw(st.integers(0, 2))
    n_var = draw(st.integers(1, 3))
    with_names = _p(draw, 0.7)
    use_row_name = with_names and _p(draw, 0.6)
    dup_names = _p(draw, 0.06)
    n_drop = 0 if _p(draw, 0.2) else draw(st.integers(1, max(1, n // 3)))
    rnd = random.Random(draw(st.integers(0, 2 ** 31 - 1)))
    id_base = rnd.choice(BIG_BASES) if rnd.random() < 0.25 else 0
    idents = [id_base + k for k in rnd.sample(range(1, 40), n_ind)]
    ids = [idents[0]] * n if n_ind == 1 else idents + [rnd.choice(idents) for _ in range(n - n_ind)]
    if interleaved:
        rnd.shuffle(ids)
    else:
        ids = [i for ident in idents for i in ids if i == ident]
    cols = []
    pool = rnd.sample(['Age', 'Cost', 'tt', 'x', 'Zone', 'q'], n_const + n_var)
    for name in pool[:n_const]:
        if rnd.random() < 0.25:  # neighbouring large numbers: equal inside a group, merely close across groups
            cbase = rnd.choice(BIG_BASES)
            per = {i: cbase + rnd.randint(-1, 1) for i in idents}
        else:
            per = {i: rnd.choice([rnd.randint(18, 21), rnd.randint(1, 40) / 8]) for i in idents}
        vals = [per[i] for i in ids]
        cols.append([name, 'int' if all(isinstance(v, int) for v in vals) else 'float', vals])
    for name in pool[n_const:]:
        shape = rnd.random()
        if shape < 0.4:
            cols.append([name, 'int', [rnd.randint(0, 3) for _ in range(n)]])
        elif shape < 0.8:
            cols.append([name, 'float', [rnd.randint(-16, 16) / 8 for _ in range(n)]])
        elif shape < 0.9:  # close but different inside a group: must not be taken for identical
            cbase = rnd.choice(BIG_BASES)
            cols.append([name, 'int', [cbase + rnd.randint(-1, 1) for _ in range(n)]])
        else:
            unit = rnd.choice(TINY_UNITS)
            cols.append([name, 'float', [rnd.randint(0, 3) * unit for _ in range(n)]])
    rnd.shuffle(cols)
    drop = sorted(rnd.sample(range(n), n_drop))
    names = None
    if with_names:
        names = [None] * n
        for ident in idents:
            where = [k for k in range(n) if ids[k] == ident]
            labels = rnd.sample(ROW_NAMES, min(len(where), len(ROW_NAMES)))
            for j, k in enumerate(where):
                names[k] = labels[j % len(labels)]
        if dup_names and n >= 2:
            names[rnd.randrange(n)] = names[rnd.randrange(n)]
    kept = [k for k in range(n) if k not in set(drop)]
    identical = None
    if _p(draw, 0.45):
        truly = [c[0] for c in cols
                 if all(len({c[2][k] for k in kept if ids[k] == ident}) <= 1 for ident in idents)]
        identical = [c for c in truly if rnd.random() < 0.7]
    return dict(ids=ids, cols=cols, names=names, use_row_name=use_row_name, identical=identical, drop=drop)


def render_flatten(spec):
    return (f"flatten_database(ID={spec['ids']}, columns={[c[0] for c in spec['cols']]}, "
            f"names={spec['names']}, row_name={'Name' if spec['use_row_name'] else None}, "
            f"identical_columns={spec['identical']}, rows dropped first: {spec['drop']})")


def render(spec):
    cols = spec['table']['columns']
    head = ', '.join(f'{c[0]}:{c[1]}' for c in cols)
    n = len(cols[0][2])
    if spec['table'].get('index') is not None:
        head += f'; row labels {spec["table"]["index"]}'
    return f'table[{n} rows; {head}] -> ' + ' ; '.join(_describe(op) for op in spec['ops'])[:900]


def _strategy(focus):
    return lambda tier: histories(tier, focus)


FOLLOW_ALL = ('add_column', 'define_variable', 'split')

SUBCHECKS = [
    SubCheck('history', _strategy('history'), functools.partial(judge_history, follow=FOLLOW_ALL), render,
             dict(quick=1400, thorough=40000),
             'random table (identifier column with contiguous, ascending groups; row labels default, stacked '
             'waves = repeated labels, offset or shuffled) x 3-12 interleaved operations (remove, add_column, '
             'define_variable, values_from_database, scale_column, count, extract_rows, sample_with_replacement, '
             'split, panel, sample_individual_map, flat panel, Database rebuilt from a bootstrap sample or from '
             'extract_rows with repeated positions), on columns of moderate values plus columns of large '
             'neighbouring values (around 1e5 .. 1e12, one unit or 1/8 apart; the identifier too) or tiny '
             'values (multiples of 1e-7 .. 1e-12, also produced by scale_column and add_column); count() of a '
             'stored entry, of a number next to one (one unit, relative 1e-6, one ulp, 1e-9) or of a constant '
             'must be the exact number of rows holding that value; table compared with the '
             'model after every step (identifiers in arbitrary order and the bootstrap of individuals after a '
             'removal in panel mode are left to the panel sub-check); non-trivial: >= 3 operations and a removal '
             'that deleted >= 1 row followed by add_column/define_variable/split', max_skip_fraction=0.1),
    SubCheck('panel', _strategy('panel'),
             functools.partial(judge_history, follow=('panel', 'flat', 'sample_individuals', 'split',
                                                      'add_column')), render,
             dict(quick=900, thorough=25000),
             'identifier groups contiguous but in any order; panel() interleaved with remove/add_column/scale, '
             'then flat data frame (automatic and explicit identical columns) against an independent '
             're-implementation of the documented layout, individual-map bootstrap, grouped split; non-trivial: '
             '>= 3 operations, a removal that deleted >= 1 row followed by panel/flat/sample/split/add_column',
             max_skip_fraction=0.1),
    SubCheck('folds', _strategy('folds'), functools.partial(judge_history, follow=('split',)), render,
             dict(quick=900, thorough=25000),
             'split(k, groups) for k from 2 to rows+2 and every kind of group column, mostly after removals, on '
             'tables with repeated row labels in about half of the cases (stacked waves, bootstrap rebuild): '
             'validation parts disjoint and covering, estimation = complement, groups kept together, k folds; '
             'non-trivial: >= 3 operations, a removal that deleted >= 1 row followed by split',
             max_skip_fraction=0.1),
    SubCheck('extract', _strategy('extract'),
             functools.partial(judge_history, follow=('extract', 'count', 'sample', 'add_column',
                                                      'define_variable')), render,
             dict(quick=700, thorough=20000),
             'extract_rows with every kind of iterable (list, tuple, range, array, one-shot iterator, out of '
             'range, empty), count (exact equality, also among large neighbouring values and tiny values after '
             'scaling) and row bootstrap on a table with gaps; non-trivial: >= 3 operations, a '
             'removal that deleted >= 1 row followed by extract/count/sample/add_column',
             max_skip_fraction=0.1),
    SubCheck('reeval', _strategy('reeval'),
             functools.partial(judge_history, follow=('values', 'add_column', 'define_variable'), need='reeval'),
             render, dict(quick=900, thorough=25000),
             'histories that REPEAT an evaluation: a formula that an earlier step handed to the library '
             '(values_from_database, add_column, define_variable, or the condition of a remove) is evaluated '
             'again - through values_from_database, or stored under a new name by add_column / define_variable; '
             'rebuilt from its spec or as the very same Expression object - after later operations of every kind '
             '(scale_column, preferably of a column the formula reads, add_column, define_variable, remove, panel, '
             'Database rebuilt from a bootstrap sample / from extract_rows, and the read-only ones), and must '
             'each time be worth what the reference semantics gives on the rows of the model table as they are '
             'then (C01 tolerance); the other sub-checks repeat earlier formulas in half of their evaluations as '
             'well; non-trivial: >= 3 operations and a repeated evaluation with >= 1 table-changing operation '
             'since the previous evaluation of that formula', max_skip_fraction=0.1),
    SubCheck('flatten', strat_flatten, judge_flatten, render_flatten, dict(quick=800, thorough=20000),
             'biogeme.tools.database.flatten_database and count_number_of_groups called directly on frames '
             'whose row index has gaps: numbered and named rows (row_name), automatic and explicit identical '
             'columns, contiguous and interleaved groups, against the layout of the docstring; non-trivial: '
             'gapped index, >= 2 groups, one group with >= 2 rows', max_skip_fraction=0.1),
]
RULE = ' | '.join(f'{s.name}: {s.rule}' for s in SUBCHECKS)
