"""C19 Sampled choice sets follow the protocol; full sampling equals the full model."""
from __future__ import annotations

import math
import os
import shutil
import tempfile

import numpy as np
import pandas as _pd
from hypothesis import strategies as st
from scipy.stats import binom

from .. import build, isolate, refsem
from ..runner import Outcome, SubCheck

# imported eagerly so that the forked children do not pay for the imports
import biogeme.biogeme as _bio  # noqa: E402
import biogeme.exceptions as _bioexc  # noqa: E402
import biogeme.nests as _nests  # noqa: E402
import biogeme.parameters as _parameters  # noqa: E402
import biogeme.partition as _partition  # noqa: E402
import biogeme.sampling_of_alternatives as _soa  # noqa: E402

PROPERTY = 'C19'
LEVEL = 'exploration'
ASSUMPTIONS = [
    'reference semantics (vlib/refsem.py) for the combined variables and the utility functions; cases whose '
    'forward error bound is not small are counted as not judged',
    'logit / nested logit / cross-nested logit probabilities on the full choice set are coded here from '
    'their textbook formulas (log-sum-exp in numpy), independently of biogeme.models',
    'numpy.random is seeded from the spec right before sample_and_merge; nothing is assumed about which '
    'alternatives are drawn, only the protocol (and, in sub-check uniformity, binomial inclusion '
    'frequencies with a 1e-12 two-sided tail)',
    'the row labels (pandas index) of the tables of individuals and of alternatives are arbitrary: default, '
    'permuted, with gaps, offset, duplicated, strings, floats, mixed (the unchanged library accepts them all); '
    'the oracle pairs the p-th generated row with the p-th individual BY POSITION and never reads labels',
    'column names are plain identifiers that do not end in _<digits> and individuals/alternatives do not '
    'share names (the flattening scheme <column>_<position> cannot tell them apart otherwise)',
    'identifiers of alternatives are integers below 2**24 (set membership in the engine is float32)',
    'nested and cross-nested models are used with a second (MEV) sample whose strata cover the nests, '
    'as in the documentation examples',
]
BUDGETS = dict(quick=dict(shards=8), thorough=dict(shards=16))

MEV_PREFIX = '_MEV_'
LOG_PROBA = '_log_proba'
MEV_WEIGHT = '_mev_weight'
CNL_PREFIX = '_CNL_'

LL_RTOL = 1e-9
MISSING_DATA = 99999  # the engine refuses this value in any column (documented convention)

# ---------------------------------------------------------------------------------------------
# generators

ALT_NAMES = ['cost', 'tt', 'x', 'X', 'dist', 'rating', 'price', 'Q', 'w', 'lat', 'rest_lon', 'z9', 'Asian']
IND_NAMES = ['age', 'inc', 'u', 'U', 'hh', 'lon', 'y', 'Y', 'm', 'user_lat', 'k']
ID_NAMES = ['alt_id', 'ID', 'id', 'alt']
CHOICE_NAMES = ['choice', 'CHOICE', 'chosen', 'logit_4']
COMBINED_NAMES = ['cv', 'log_dist', 'agett', 'K', 'inter', 'cross_v']
BETA_NAMES = ['B_COST', 'b_tt', 'beta', 'asc', 'B1', 'b_x', 'beta_log_dist']
NEST_NAMES = ['n1', 'N2', 'asian', 'down town', 'n_3']


def _dy(lo, hi, denom=8):
    return st.integers(int(lo * denom), int(hi * denom)).map(lambda k: k / denom)


def _real_values():
    return st.one_of(_dy(-3, 3), st.floats(-3, 3).map(lambda x: round(x, 3)))


def _pos_values():
    return st.one_of(_dy(0.125, 5), st.floats(0.125, 5).map(lambda x: round(x, 3)))


def _id_values():
    return st.one_of(st.integers(1, 40), st.integers(1, 40), st.integers(-3, 0),
                     st.sampled_from([100, 101, 999, 1000, 4096, 65535, 100000]))


def _attribute_columns(draw, names, n_rows, n_cols):
    """[(name, dtype, values)], leaves = dict(real=[...], pos=[...], int=[...])."""
    cols, leaves = [], dict(real=[], pos=[], int=[])
    for name in names[:n_cols]:
        sort = draw(st.sampled_from(['real', 'pos', 'pos', 'int']))
        if sort == 'real':
            vals = draw(st.lists(_real_values(), min_size=n_rows, max_size=n_rows))
            cols.append([name, 'float', vals])
        elif sort == 'pos':
            vals = draw(st.lists(_pos_values(), min_size=n_rows, max_size=n_rows))
            cols.append([name, 'float', vals])
        else:
            vals = draw(st.lists(st.integers(-2, 4), min_size=n_rows, max_size=n_rows))
            cols.append([name, draw(st.sampled_from(['int', 'float'])), vals])
        leaves[sort].append(name)
    return cols, leaves


# --- row labels (pandas index) of the two tables ------------------------------------------------
# The library is handed data frames; nothing in its documentation asks for the default RangeIndex, and a
# table that has been sorted, filtered, shuffled, concatenated or indexed by a survey identifier does not
# have it. The labels are part of the spec (None = default index); every clause of the oracle is
# stated by POSITION (p-th generated row <-> p-th individual), never by label.

INDEX_KINDS = ['default', 'default', 'default', 'permuted', 'permuted', 'permuted', 'gaps', 'gaps',
               'gaps_shuffled', 'offset', 'offset', 'duplicated', 'duplicated', 'constant',
               'strings', 'floats', 'mixed']
LABEL_STRINGS = ['a', 'b', 'c', 'd', 'e', 'f', 'g', 'h', 'r1', 'r2', 'r10', 'id 7', '0', '1', '2', '3',
                 'A', 'B', 'x_0', 'x_1', 'obs', 'choice', 'p-4', 'Z']


def _index_labels(draw, n):
    """None (default index) or a list of n JSON-serialisable row labels."""
    kind = draw(st.sampled_from(INDEX_KINDS))
    if kind == 'default':
        return None
    if kind == 'permuted':  # a sorted / shuffled table: every label 0..n-1 once, elsewhere
        return list(draw(st.permutations(list(range(n)))))
    if kind in ('gaps', 'gaps_shuffled'):  # a filtered table: some labels of a larger table
        labels = draw(st.lists(st.integers(0, 3 * n + 2), min_size=n, max_size=n, unique=True))
        return sorted(labels) if kind == 'gaps' else labels
    if kind == 'offset':  # 1-based, or a slice of a larger table
        first = draw(st.sampled_from([1, 1, 2, n - 1, n, 10, 1000, -1, -n]))
        return list(range(first, first + n))
    if kind == 'duplicated':  # concatenated tables: labels repeat (and collide with positions)
        return draw(st.lists(st.integers(0, max(0, n - 1)), min_size=n, max_size=n))
    if kind == 'constant':
        return [draw(st.integers(0, n))] * n
    if kind == 'strings':
        return draw(st.lists(st.sampled_from(LABEL_STRINGS), min_size=n, max_size=n, unique=draw(st.booleans())))
    if kind == 'floats':
        return draw(st.lists(_dy(-2, 20, 2), min_size=n, max_size=n, unique=draw(st.booleans())))
    return draw(st.lists(st.one_of(st.integers(-2, n + 2), st.sampled_from(LABEL_STRINGS), _dy(0, 8, 2)),
                         min_size=n, max_size=n))


def _index_class(labels):
    """Class of a list of row labels, derived from the spec (so that it survives shrinking)."""
    if labels is None:
        return 'default'
    n = len(labels)
    if all(isinstance(x, int) and not isinstance(x, bool) for x in labels):
        if list(labels) == list(range(n)):
            return 'range_0..n-1'
        if len(set(labels)) < n:
            return 'duplicated_int'
        if sorted(labels) == list(range(n)):
            return 'permuted'
        lo = min(labels)
        if list(labels) == list(range(lo, lo + n)):
            return 'offset'
        return 'gaps' if sorted(labels) == list(labels) else 'gaps_unsorted'
    if all(isinstance(x, str) for x in labels):
        return 'strings' if len(set(labels)) == n else 'duplicated_strings'
    if all(isinstance(x, float) for x in labels):
        return 'floats' if len(set(labels)) == n else 'duplicated_floats'
    return 'mixed'


def _positions_differ_from_labels(labels):
    """True if looking a row up by its position as a label gives another row, several rows, or none."""
    if labels is None:
        return False
    return any(sum(1 for x in labels if x == p) != 1 or labels[p] != p for p in range(len(labels)))


def _frame(table, labels):
    frame = build.build_dataframe(table)
    if labels is not None:
        frame.index = _pd.Index(list(labels), dtype=object) if any(isinstance(x, str) for x in labels) \
            else _pd.Index(list(labels))
    return frame


def _split(draw, members, max_parts):
    """Random partition of a list into 1..max_parts non-empty parts."""
    members = list(draw(st.permutations(members)))
    n = len(members)
    s = min(draw(st.sampled_from([1, 2, 2, 3, 3, 4])), max(1, min(max_parts, n)))
    cuts = sorted(draw(st.lists(st.integers(1, n - 1), min_size=s - 1, max_size=s - 1, unique=True))) if s > 1 else []
    parts, prev = [], 0
    for c in cuts + [n]:
        parts.append(sorted(members[prev:c]))
        prev = c
    return parts


def _sizes(draw, strata, full):
    if full:
        return [len(s) for s in strata]
    out = []
    for s in strata:
        n = len(s)
        out.append(draw(st.one_of(st.integers(1, n), st.integers(max(1, n // 2), n))))
    return out


# --- small typed formulas over the columns ----------------------------------------------------


class _Formulas:
    def __init__(self, draw, leaves):
        self.draw = draw
        self.real = leaves['real'] + leaves['pos'] + leaves['int']
        self.pos = leaves['pos']
        self.int = leaves['int']

    def _pick(self, options):
        return self.draw(st.sampled_from(options))

    def leaf(self, sort):
        if sort == 'pos':
            if self.pos and self.draw(st.integers(0, 3)) > 0:
                return ['Var', self._pick(self.pos)]
            return ['Num', self.draw(_dy(0.25, 4))]
        if self.real and self.draw(st.integers(0, 4)) > 0:
            return ['Var', self._pick(self.real)]
        return ['Num', self.draw(_dy(-3, 3))]

    def linear(self):
        k = self._pick(['leaf', 'minus', 'neg', 'plus'])
        if k == 'leaf':
            return self.leaf('real')
        if k == 'minus':
            return ['Minus', self.leaf('real'), self.leaf('real')]
        if k == 'neg':
            return ['Neg', self.leaf('pos')]
        return ['Plus', self.leaf('real'), self.leaf('real')]

    def tree(self, sort, depth):
        if depth <= 0 or self.draw(st.integers(0, 4)) == 0:
            return self.leaf(sort)
        d = depth - 1
        if sort == 'pos':
            k = self._pick(['Plus', 'Times', 'Divide', 'exp', 'sq', 'sqrt', 'Max'])
            if k in ('Plus', 'Times', 'Divide'):
                return [k, self.tree('pos', d), self.tree('pos', d)]
            if k == 'exp':
                return ['exp', self.linear()]
            if k == 'sq':
                return ['Plus', ['PowC', self.tree('real', d), 2.0], ['Num', self.draw(_dy(0.25, 2))]]
            if k == 'sqrt':
                return ['PowC', self.tree('pos', d), 0.5]
            return ['Max', self.tree('pos', d), self.tree('real', d)]
        k = self._pick(['Plus', 'Minus', 'Times', 'Times', 'Neg', 'Min', 'Max', 'Divide', 'log', 'cmp',
                        'pos', 'pos'])
        if k in ('Plus', 'Minus', 'Times', 'Min', 'Max'):
            return [k, self.tree('real', d), self.tree('real', d)]
        if k == 'Neg':
            return ['Neg', self.tree('real', d)]
        if k == 'Divide':
            return ['Divide', self.tree('real', d), self.tree('pos', d)]
        if k == 'log':
            return ['log', self.tree('pos', d)]
        if k == 'cmp':
            op = self._pick(['Gt', 'Lt', 'Ge', 'Le'])
            # thresholds off the grid of the data (multiples of 1/16 that are not multiples of 1/8 are
            # still hit by the 3-decimal values only by accident; the reference then declines the case)
            return [op, self.leaf('real'), ['Num', self.draw(st.integers(-24, 24)) / 8 + 0.0625]]
        return self.tree('pos', depth)


def _has_var(f, names):
    return any(n[0] == 'Var' and n[1] in names for n in refsem.walk(f))


def _value_or_none(f, row):
    try:
        return refsem.evaluate(f, refsem.Env(row=row), refsem.EVAlg()).v
    except (refsem.IllPosed, OverflowError, ZeroDivisionError, ValueError):
        return None


@st.composite
def _config(draw, tier, full=False, mev='optional', n_combined=(0, 2), min_alts=3):
    """The part every sub-check shares: tables, partition, sizes, formulas, seed."""
    big = tier == 'thorough'
    n_alt = draw(st.integers(min_alts, 16 if big else 12))
    if draw(st.integers(0, 3)) == 0:
        ids = list(draw(st.permutations(list(range(1, n_alt + 1)))))
    else:
        ids = draw(st.lists(_id_values(), min_size=n_alt, max_size=n_alt, unique=True))

    names = draw(st.permutations(ALT_NAMES))
    alt_cols, alt_leaves = _attribute_columns(draw, list(names), n_alt, draw(st.integers(1, 3)))
    id_column = draw(st.sampled_from(ID_NAMES))
    alt_cols.insert(draw(st.integers(0, len(alt_cols))),
                    [id_column, draw(st.sampled_from(['int', 'int', 'float'])), ids])

    n_ind = draw(st.integers(1, 12 if big else 8))
    names = draw(st.permutations(IND_NAMES))
    ind_cols, ind_leaves = _attribute_columns(draw, list(names), n_ind, draw(st.integers(1, 3)))
    choice_column = draw(st.sampled_from(CHOICE_NAMES))
    choices = draw(st.lists(st.sampled_from(ids), min_size=n_ind, max_size=n_ind))
    ind_cols.insert(draw(st.integers(0, len(ind_cols))),
                    [choice_column, draw(st.sampled_from(['int', 'int', 'float'])), choices])

    strata = _split(draw, ids, 4)
    sizes = _sizes(draw, strata, full)
    cfg = dict(
        alts=dict(columns=alt_cols), id_column=id_column,
        inds=dict(columns=ind_cols), choice_column=choice_column,
        alt_index=_index_labels(draw, n_alt), ind_index=_index_labels(draw, n_ind),
        strata=strata, sizes=sizes, full_set=draw(st.booleans()),
        mev=None, combined=[], utility=None, np_seed=draw(st.integers(0, 2**31 - 1)),
    )
    if mev == 'required' or (mev == 'optional' and draw(st.integers(0, 2)) == 0):
        m = draw(st.integers(1, n_alt))
        members = list(draw(st.permutations(ids)))[:m]
        mstrata = _split(draw, members, 3)
        cfg['mev'] = dict(strata=mstrata, sizes=_sizes(draw, mstrata, full), full_set=draw(st.booleans()))

    # combined variables: one tree over the individual's and the alternative's attributes
    leaves = dict(real=alt_leaves['real'] + ind_leaves['real'], pos=alt_leaves['pos'] + ind_leaves['pos'],
                  int=alt_leaves['int'] + ind_leaves['int'] + [id_column])
    alt_names = [c[0] for c in alt_cols]
    ind_attr_names = [c[0] for c in ind_cols if c[0] != choice_column]
    fg = _Formulas(draw, leaves)
    cnames = draw(st.permutations(COMBINED_NAMES))
    for i in range(draw(st.integers(*n_combined))):
        f = fg.tree(draw(st.sampled_from(['real', 'pos'])), draw(st.integers(1, 3)))
        if not _has_var(f, alt_names) or not _has_var(f, ind_attr_names):
            a = ['Var', draw(st.sampled_from([n for n in alt_names if n != id_column] or alt_names))]
            b = ['Var', draw(st.sampled_from(ind_attr_names))]
            f = [draw(st.sampled_from(['Plus', 'Minus', 'Times'])), f,
                 [draw(st.sampled_from(['Times', 'Minus', 'Plus'])), b, a]]
        cfg['combined'].append([cnames[i], f])
    cfg['utility'] = _utility(draw, cfg, alt_leaves, ind_attr_names)
    return cfg


def _utility(draw, cfg, alt_leaves, ind_attr_names):
    """Linear-in-parameters utility; every term is scaled so that it stays within [-2, 2]."""
    alt_attr = alt_leaves['real'] + alt_leaves['pos'] + alt_leaves['int']
    ids = [c for c in cfg['alts']['columns'] if c[0] == cfg['id_column']][0][2]
    kinds = ['alt', 'alt', 'inter', 'asc', 'sq', 'ind']
    if alt_leaves['pos']:
        kinds.append('logpos')
    terms = [['Var', c[0]] for c in cfg['combined']]
    for _ in range(draw(st.integers(1 if terms else 2, 3))):
        k = draw(st.sampled_from(kinds))
        if k == 'alt':
            terms.append(['Var', draw(st.sampled_from(alt_attr))])
        elif k == 'inter':
            terms.append(['Times', ['Var', draw(st.sampled_from(ind_attr_names))],
                          ['Var', draw(st.sampled_from(alt_attr))]])
        elif k == 'asc':
            terms.append(['Eq', ['Var', cfg['id_column']], ['Num', draw(st.sampled_from(ids))]])
        elif k == 'sq':
            terms.append(['PowC', ['Var', draw(st.sampled_from(alt_attr))], 2.0])
        elif k == 'ind':
            terms.append(['Var', draw(st.sampled_from(ind_attr_names))])
        else:
            terms.append(['log', ['Var', draw(st.sampled_from(alt_leaves['pos']))]])
    if not any(_has_var(t, alt_attr + [c[0] for c in cfg['combined']]) for t in terms):
        terms.append(['Var', draw(st.sampled_from(alt_attr))])
    # magnitude of every term over all (individual, alternative) pairs
    defs = {n: f for n, f in cfg['combined']}
    alt_rows = build.table_rows(cfg['alts'])
    ind_rows = build.table_rows(cfg['inds'])
    bnames = draw(st.permutations(BETA_NAMES))
    out = []
    for i, t in enumerate(terms):
        full_t = _subst(t, defs)
        big = 1.0
        for ir in ind_rows:
            for ar in alt_rows:
                v = _value_or_none(full_t, {**ir, **ar})
                if v is not None:
                    big = max(big, abs(v))
        scale = 2.0 ** math.ceil(math.log2(big))
        c = draw(st.integers(-16, 16).filter(lambda z: z != 0)) / 8
        status = 0 if i == 0 else draw(st.sampled_from([0, 0, 1]))
        out.append(['Times', ['Beta', bnames[i % len(bnames)] + (str(i) if i >= len(bnames) else ''),
                              c / scale, None, None, status], t])
    if draw(st.booleans()):
        return ['MultSum', out] if len(out) > 1 else out[0]
    acc = out[0]
    for t in out[1:]:
        acc = ['Plus', acc, t]
    return acc


def _subst(f, defs):
    """Replace references to combined variables by their defining formulas."""
    if not isinstance(f, list):
        return f
    if f and f[0] == 'Var':
        return defs.get(f[1], f)
    if f and f[0] in ('Num', 'Lit', 'Beta'):
        return f
    return [_subst(c, defs) for c in f]


# ---------------------------------------------------------------------------------------------
# observation (forked child)


def _silence():
    """tqdm progress bars of the library go to fd 2."""
    try:
        fd = os.open(os.devnull, os.O_WRONLY)
        os.dup2(fd, 2)
    except OSError:
        pass


def _lib_error(stage, e):
    return dict(stage=stage, type=type(e).__name__, module=type(e).__module__, msg=str(e)[:400])


def _make_partition(strata, full_set):
    segs = [set(s) for s in strata]
    if full_set:
        return _partition.Partition(segs, full_set=set().union(*segs))
    return _partition.Partition(segs)


def _nest_param(mu, name, as_beta):
    from biogeme.expressions import Beta

    return Beta(name, mu, 1.0, None, 0) if as_beta else float(mu)


def _make_context(spec, file_name):
    b = build.Builder([], overloads=spec.get('overloads', True))
    kw = {}
    if spec.get('mev'):
        kw['mev_partition'] = _make_partition(spec['mev']['strata'], spec['mev']['full_set'])
        kw['mev_sample_sizes'] = list(spec['mev']['sizes'])
    ids = [c for c in spec['alts']['columns'] if c[0] == spec['id_column']][0][2]
    if spec.get('cnl'):
        nests = tuple(
            _nests.OneNestForCrossNestedLogit(
                nest_param=_nest_param(mu, f'mu_{i}', as_beta),
                dict_of_alpha={int(a): float(v) for a, v in alphas}, name=name)
            for i, (name, mu, as_beta, alphas) in enumerate(spec['cnl']))
        kw['cnl_nests'] = _nests.NestsForCrossNestedLogit(choice_set=list(ids), tuple_of_nests=nests)
    return _soa.SamplingContext(
        the_partition=_make_partition(spec['strata'], spec['full_set']),
        sample_sizes=list(spec['sizes']),
        individuals=_frame(spec['inds'], spec.get('ind_index')),
        choice_column=spec['choice_column'],
        alternatives=_frame(spec['alts'], spec.get('alt_index')),
        id_column=spec['id_column'],
        biogeme_file_name=file_name,
        utility_function=b.build(spec['utility']),
        combined_variables=[_soa.CrossVariableTuple(name, b.build(f)) for name, f in spec['combined']],
        **kw,
    )


def _evaluate_model(res, label, make_expression, database):
    """Rows through the expression API, total through BIOGEME. Stops at the first library error."""
    try:
        expression = make_expression()
    except Exception as e:  # noqa: reported to the judge
        res['errors'].append(_lib_error(label + ':build', e))
        return
    try:
        rows = expression.get_value_c(database=database, aggregation=False, prepare_ids=True)
        res[label + ':rows'] = [float(x) for x in np.asarray(rows, dtype=float).ravel()]
    except Exception as e:  # noqa
        res['errors'].append(_lib_error(label + ':rows', e))
        return
    try:
        the = _bio.BIOGEME(database, expression, parameters=_parameters.Parameters())
        the.modelName = 'verif_c19'
        the.generate_html = False
        the.generate_pickle = False
        the.save_iterations = False
        res[label + ':total'] = float(the.calculate_init_likelihood())
    except Exception as e:  # noqa
        res['errors'].append(_lib_error(label + ':total', e))


def _observe(spec):
    _silence()
    tmp = tempfile.mkdtemp(prefix='c19_')
    cwd = os.getcwd()
    res = dict(errors=[])
    try:
        os.chdir(tmp)
        try:
            context = _make_context(spec, os.path.join(tmp, 'merged.csv'))
            generator = _soa.ChoiceSetsGeneration(context)
            model = _soa.GenerateModel(context)
        except Exception as e:  # noqa
            res['errors'].append(_lib_error('context', e))
            return res
        res['total_sample_size'] = int(context.total_sample_size)
        res['second_sample_size'] = (None if context.second_sample_size is None
                                     else int(context.second_sample_size))
        np.random.seed(spec['np_seed'])
        try:
            database = generator.sample_and_merge(recycle=False)
        except Exception as e:  # noqa
            res['errors'].append(_lib_error('sample', e))
            return res
        frame = database.data
        res['columns'] = [str(c) for c in frame.columns]
        res['index'] = [repr(i) for i in frame.index]
        res['data'] = [[float(x) for x in np.asarray(frame.iloc[:, i], dtype=float)]
                       for i in range(frame.shape[1])]
        res['file_written'] = os.path.exists(os.path.join(tmp, 'merged.csv'))
        for m in spec.get('models', ['logit']):
            if m == 'logit':
                _evaluate_model(res, 'logit', model.get_logit, database)
            elif m == 'nested':
                ids = [c for c in spec['alts']['columns'] if c[0] == spec['id_column']][0][2]

                def make_nested():
                    nests = _nests.NestsForNestedLogit(
                        choice_set=list(ids),
                        tuple_of_nests=tuple(
                            _nests.OneNestForNestedLogit(
                                nest_param=_nest_param(mu, f'mu_{i}', as_beta),
                                list_of_alternatives=list(members), name=name)
                            for i, (name, mu, as_beta, members) in enumerate(spec['nests'])))
                    return model.get_nested_logit(nests)

                _evaluate_model(res, 'nested', make_nested, database)
            elif m == 'cnl':
                _evaluate_model(res, 'cnl', model.get_cross_nested_logit, database)
        return res
    finally:
        os.chdir(cwd)
        shutil.rmtree(tmp, ignore_errors=True)


# ---------------------------------------------------------------------------------------------
# reference side


class _Ref:
    """Everything the oracle derives from the spec alone."""

    def __init__(self, spec):
        self.spec = spec
        self.id_column = spec['id_column']
        self.alt_rows = build.table_rows(spec['alts'])
        self.ind_rows = build.table_rows(spec['inds'])
        self.alt_cols = [c[0] for c in spec['alts']['columns']]
        self.ind_cols = [c[0] for c in spec['inds']['columns']]
        self.ids = [int(r[self.id_column]) for r in self.alt_rows]
        self.by_id = {int(r[self.id_column]): r for r in self.alt_rows}
        self.stratum_of = {}
        for s, members in enumerate(spec['strata']):
            for a in members:
                self.stratum_of[int(a)] = s
        self.log_proba = [math.log(k / len(m)) for k, m in zip(spec['sizes'], spec['strata'])]
        self.J = sum(spec['sizes'])
        self.mev = spec.get('mev')
        if self.mev:
            self.mev_stratum_of = {}
            for s, members in enumerate(self.mev['strata']):
                for a in members:
                    self.mev_stratum_of[int(a)] = s
            self.mev_weight = [len(m) / k for k, m in zip(self.mev['sizes'], self.mev['strata'])]
            self.J2 = sum(self.mev['sizes'])
        self.cnl_alpha = {}
        if spec.get('cnl'):
            for name, _, _, alphas in spec['cnl']:
                self.cnl_alpha[name] = {int(a): float(v) for a, v in alphas}
            # columns the library appends to the table of alternatives
            for name in self.cnl_alpha:
                self.alt_cols.append(CNL_PREFIX + name)
                for a, r in self.by_id.items():
                    r[CNL_PREFIX + name] = self.cnl_alpha[name].get(a, 0.0)
        self.defs = {n: f for n, f in spec['combined']}
        self.full_utility = _subst(spec['utility'], self.defs)
        self._u = {}

    def ev(self, formula, ind, alt_id):
        row = {**self.ind_rows[ind], **self.by_id[alt_id]}
        v = refsem.evaluate(formula, refsem.Env(row=row), refsem.EVAlg())
        if v.e > 1e-10 * (1 + abs(v.v)):
            raise refsem.IllPosed('error bound too large')
        return v

    def utility(self, ind, alt_id):
        key = (ind, alt_id)
        if key not in self._u:
            self._u[key] = self.ev(self.full_utility, ind, alt_id).v
        return self._u[key]

    def check_well_posed(self):
        for i in range(len(self.ind_rows)):
            for a in self.ids:
                self.utility(i, a)
                for _, f in self.spec['combined']:
                    if self.ev(f, i, a).v == MISSING_DATA:
                        raise refsem.OutOfDomain('a column takes the missing-data code 99999')
        for r in self.alt_rows + self.ind_rows:
            if any(v == MISSING_DATA for v in r.values()):
                raise refsem.OutOfDomain('a column takes the missing-data code 99999')

    # --- probabilities -------------------------------------------------------------------
    @staticmethod
    def _log_share(w, position):
        w = np.asarray(w, dtype=float)
        m = float(np.max(w))
        return float(w[position] - m - math.log(float(np.sum(np.exp(w - m)))))

    def logit_full(self, ind):
        chosen = int(self.ind_rows[ind][self.spec['choice_column']])
        w = [self.utility(ind, a) for a in self.ids]
        return self._log_share(w, self.ids.index(chosen))

    def logit_sampled(self, ind, sample_ids):
        w = [self.utility(ind, a) - self.log_proba[self.stratum_of[a]] for a in sample_ids]
        return self._log_share(w, 0)

    def _nested_terms(self, ind, alt_ids, mev_ids, mev_weights):
        """ln G_i of the nested logit (scale 1) for the listed alternatives, the sums over each
        nest being taken over (mev_ids, mev_weights). None if a needed sum is empty."""
        out = [0.0] * len(alt_ids)
        for _, mu, _, members in self.spec['nests']:
            members = set(members)
            if not any(a in members for a in alt_ids):
                continue
            s = sum(w * math.exp(mu * self.utility(ind, a)) for a, w in zip(mev_ids, mev_weights)
                    if a in members)
            if s <= 0:
                return None
            for p, a in enumerate(alt_ids):
                if a in members:
                    out[p] += (mu - 1.0) * self.utility(ind, a) + (1.0 / mu - 1.0) * math.log(s)
        return out

    def nested_full(self, ind):
        chosen = int(self.ind_rows[ind][self.spec['choice_column']])
        terms = self._nested_terms(ind, self.ids, self.ids, [1.0] * len(self.ids))
        w = [self.utility(ind, a) + t for a, t in zip(self.ids, terms)]
        return self._log_share(w, self.ids.index(chosen))

    def nested_sampled(self, ind, sample_ids, mev_ids):
        weights = [self.mev_weight[self.mev_stratum_of[a]] for a in mev_ids]
        terms = self._nested_terms(ind, sample_ids, mev_ids, weights)
        if terms is None:
            return None
        w = [self.utility(ind, a) - self.log_proba[self.stratum_of[a]] + t
             for a, t in zip(sample_ids, terms)]
        return self._log_share(w, 0)

    def _cnl_terms(self, ind, alt_ids, alpha_ids, mev_ids, mev_weights):
        """ln G_i of the cross-nested logit; alpha_ids[p] is the alternative whose membership
        degrees are used for position p (== alt_ids[p] in a correct implementation)."""
        g = [0.0] * len(alt_ids)
        for name, mu, _, _ in self.spec['cnl']:
            alpha = self.cnl_alpha[name]
            if not any(alpha.get(a, 0.0) != 0.0 for a in alpha_ids):
                continue
            s = sum(w * alpha[a] ** mu * math.exp(mu * self.utility(ind, a))
                    for a, w in zip(mev_ids, mev_weights) if alpha.get(a, 0.0) != 0.0)
            if s <= 0:
                return None
            for p, (a, aa) in enumerate(zip(alt_ids, alpha_ids)):
                al = alpha.get(aa, 0.0)
                if al != 0.0:
                    g[p] += al ** mu * math.exp((mu - 1.0) * self.utility(ind, a)) * s ** (1.0 / mu - 1.0)
        return [math.log(x) if x > 0 else 0.0 for x in g]

    def cnl_full(self, ind):
        chosen = int(self.ind_rows[ind][self.spec['choice_column']])
        terms = self._cnl_terms(ind, self.ids, self.ids, self.ids, [1.0] * len(self.ids))
        w = [self.utility(ind, a) + t for a, t in zip(self.ids, terms)]
        return self._log_share(w, self.ids.index(chosen))

    def cnl_sampled(self, ind, sample_ids, mev_ids, alpha_ids=None):
        weights = [self.mev_weight[self.mev_stratum_of[a]] for a in mev_ids]
        terms = self._cnl_terms(ind, sample_ids, alpha_ids or sample_ids, mev_ids, weights)
        if terms is None:
            return None
        w = [self.utility(ind, a) - self.log_proba[self.stratum_of[a]] + t
             for a, t in zip(sample_ids, terms)]
        return self._log_share(w, 0)


def _close(a, b, rtol=LL_RTOL):
    return math.isfinite(a) and abs(a - b) <= rtol * (1 + abs(b))


def _is_full(spec):
    full = all(k == len(m) for k, m in zip(spec['sizes'], spec['strata']))
    if spec.get('mev'):
        full = full and all(k == len(m) for k, m in zip(spec['mev']['sizes'], spec['mev']['strata']))
    return full


def _ev_tol(ev):
    return 16 * ev.e + 1e-12 * (1 + abs(ev.v))


def _check_data(out, spec, ref, obs):
    """Protocol invariants of the merged table. Returns (first-sample ids, MEV ids) per row, or
    None for rows that cannot be used further."""
    cols = obs['columns']
    data = dict(zip(cols, obs['data']))
    if len(set(cols)) != len(cols):
        out.fail('data:duplicate_columns', f'duplicate column names in the merged data: {cols}')
        return None
    n_ind = len(ref.ind_rows)
    if any(len(v) != n_ind for v in obs['data']):
        out.fail('data:rows', f'{len(obs["data"][0])} rows for {n_ind} individuals')
        return None
    J = ref.J
    if obs['total_sample_size'] != J:
        out.fail('data:total_sample_size', f'context.total_sample_size {obs["total_sample_size"]} != sum of sizes {J}')
    # size of the choice set actually delivered
    j_obs = 0
    while f'{ref.id_column}_{j_obs}' in data:
        j_obs += 1
    if j_obs != J:
        out.fail('protocol:choice_set_size',
                 f'the merged data list {j_obs} alternatives per individual, requested sizes {spec["sizes"]} sum to {J}')
        if j_obs == 0 or any(f'{LOG_PROBA}_{j}' not in data for j in range(j_obs)):
            return None
        J = j_obs
    expected = list(ref.ind_cols)
    for j in range(min(J, ref.J)):
        expected += [f'{c}_{j}' for c in ref.alt_cols] + [f'{LOG_PROBA}_{j}']
        expected += [f'{n}_{j}' for n in ref.defs]
    if ref.mev:
        for j in range(ref.J2):
            expected += [f'{MEV_PREFIX}{c}_{j}' for c in ref.alt_cols] + [f'{MEV_PREFIX}{MEV_WEIGHT}_{j}']
            expected += [f'{MEV_PREFIX}{n}_{j}' for n in ref.defs]
    missing = sorted(set(expected) - set(cols))
    extra = sorted(set(cols) - set(expected))
    if missing:
        out.fail('data:columns:missing', f'columns missing from the merged data: {missing[:8]}')
        return None
    if extra and J == ref.J:
        out.fail('data:columns:unexpected', f'unexpected columns in the merged data: {extra[:8]}')

    samples = []
    for r in range(n_ind):
        ind_row = ref.ind_rows[r]
        usable = True
        # by POSITION: the r-th generated row describes the r-th row of the table of individuals,
        # whatever the labels of that table are
        for c in ref.ind_cols:
            if data[c][r] != ind_row[c]:
                got_row = {k: data[k][r] for k in ref.ind_cols}
                whose = [q for q, other in enumerate(ref.ind_rows) if q != r and other == got_row]
                labels = spec.get('ind_index')
                if labels is not None:  # several identical individuals: name the one whose LABEL is r first
                    whose.sort(key=lambda q: labels[q] != r)
                why = ''
                if whose:
                    why = f' (the row carries the attributes of the individual at position {whose[0]}'
                    if labels is not None:
                        why += f', labelled {labels[whose[0]]!r}; this one is labelled {labels[r]!r}'
                    why += ')'
                elif labels is not None:
                    why = f' (row labels of the table of individuals: {labels[:12]})'
                out.fail('data:individual_attribute',
                         f'row {r}: column {c!r} is {data[c][r]!r}, the individual at position {r} has '
                         f'{ind_row[c]!r}{why}')
                break
        chosen = int(ind_row[spec['choice_column']])
        raw = [data[f'{ref.id_column}_{j}'][r] for j in range(J)]
        if any((not math.isfinite(x)) or x != int(x) or int(x) not in ref.by_id for x in raw):
            out.fail('protocol:unknown_alternative', f'row {r}: sampled identifiers {raw} are not all alternatives')
            samples.append(None)
            continue
        ids = [int(x) for x in raw]
        if ids[0] != chosen:
            out.fail('protocol:chosen_first', f'row {r}: first alternative is {ids[0]}, the choice is {chosen}')
            usable = False
        if len(set(ids)) != len(ids):
            out.fail('protocol:duplicates', f'row {r}: choice set {ids} lists an alternative twice')
            usable = False
        outside = [a for a in ids if a not in ref.stratum_of]
        if outside:
            out.fail('protocol:outside_partition', f'row {r}: {outside} belong to no stratum')
            usable = False
        else:
            counts = [0] * len(spec['strata'])
            for a in ids:
                counts[ref.stratum_of[a]] += 1
            if counts != list(spec['sizes']):
                out.fail('protocol:stratum_counts',
                         f'row {r}: {counts} alternatives per stratum in {ids}, requested {spec["sizes"]} '
                         f'from strata {spec["strata"]}')
                usable = False
            for j, a in enumerate(ids):
                got = data[f'{LOG_PROBA}_{j}'][r]
                want = ref.log_proba[ref.stratum_of[a]]
                if not (math.isfinite(got) and abs(got - want) <= 1e-12):
                    k, n = spec['sizes'][ref.stratum_of[a]], len(spec['strata'][ref.stratum_of[a]])
                    out.fail('protocol:correction',
                             f'row {r}: correction of alternative {a} (position {j}) is {got!r}, '
                             f'expected ln({k}/{n}) = {want!r}')
                    usable = False
        _check_attributes(out, ref, data, r, ids, '', 'protocol')
        _check_combined(out, ref, data, r, ids, '')

        mev_ids = None
        if ref.mev:
            raw = [data[f'{MEV_PREFIX}{ref.id_column}_{j}'][r] for j in range(ref.J2)]
            if any((not math.isfinite(x)) or x != int(x) or int(x) not in ref.by_id for x in raw):
                out.fail('mev:unknown_alternative', f'row {r}: second sample {raw} are not all alternatives')
                usable = False
            else:
                mev_ids = [int(x) for x in raw]
                if len(set(mev_ids)) != len(mev_ids):
                    out.fail('mev:duplicates', f'row {r}: second sample {mev_ids} lists an alternative twice')
                    usable = False
                outside = [a for a in mev_ids if a not in ref.mev_stratum_of]
                if outside:
                    out.fail('mev:outside_partition', f'row {r}: {outside} belong to no stratum of the second partition')
                    usable = False
                else:
                    counts = [0] * len(ref.mev['strata'])
                    for a in mev_ids:
                        counts[ref.mev_stratum_of[a]] += 1
                    if counts != list(ref.mev['sizes']):
                        out.fail('mev:stratum_counts',
                                 f'row {r}: {counts} alternatives per stratum in second sample {mev_ids}, '
                                 f'requested {ref.mev["sizes"]} from {ref.mev["strata"]}')
                        usable = False
                    for j, a in enumerate(mev_ids):
                        got = data[f'{MEV_PREFIX}{MEV_WEIGHT}_{j}'][r]
                        want = ref.mev_weight[ref.mev_stratum_of[a]]
                        if not (math.isfinite(got) and abs(got - want) <= 1e-12 * want):
                            out.fail('mev:weight',
                                     f'row {r}: weight of alternative {a} in the second sample is {got!r}, '
                                     f'expected n/k = {want!r}')
                            usable = False
                _check_attributes(out, ref, data, r, mev_ids, MEV_PREFIX, 'mev')
                _check_combined(out, ref, data, r, mev_ids, MEV_PREFIX)
        samples.append((ids, mev_ids) if usable else None)
    return samples


def _check_attributes(out, ref, data, r, ids, prefix, family):
    for j, a in enumerate(ids):
        for c in ref.alt_cols:
            got, want = data[f'{prefix}{c}_{j}'][r], ref.by_id[a][c]
            if got != want:
                kind = 'cnl_alpha' if c.startswith(CNL_PREFIX) else 'attribute'
                out.fail(f'{family}:{kind}',
                         f'row {r}: column {prefix}{c}_{j} is {got!r}, alternative {a} has {c} = {want!r}')
                return


def _check_combined(out, ref, data, r, ids, prefix):
    for name, f in ref.spec['combined']:
        for j, a in enumerate(ids):
            ev = ref.ev(f, r, a)
            got = data[f'{prefix}{name}_{j}'][r]
            if not (math.isfinite(got) and abs(got - ev.v) <= _ev_tol(ev)):
                # which wrong pairing, if any, explains the number?
                why = ''
                for r2 in range(len(ref.ind_rows)):
                    for a2 in ref.ids:
                        if (r2, a2) != (r, a):
                            try:
                                if abs(ref.ev(f, r2, a2).v - got) <= _ev_tol(ev):
                                    why = f' (it is the value for individual {r2}, alternative {a2})'
                            except refsem.IllPosed:
                                pass
                out.fail('combined:value' if not prefix else 'combined:mev_value',
                         f'row {r}: {prefix}{name}_{j} is {got!r}, expected {ev.v!r} from '
                         f'{refsem.render(f)} with the individual\'s attributes and those of alternative {a}{why}')
                return


def _report_errors(out, obs, allowed_prefixes=()):
    """Library exceptions on valid input are failures."""
    bad = False
    for e in obs['errors']:
        if any(e['stage'].startswith(p) for p in allowed_prefixes):
            continue
        out.fail(f'raises:{e["stage"]}:{e["type"]}',
                 f'valid configuration: stage {e["stage"]} raised {e["module"]}.{e["type"]}: {e["msg"][:300]}')
        bad = True
    return bad


def _compare_model(out, label, obs, rows_ref, key_rows, what):
    """rows_ref: list of reference values (None = row not usable)."""
    if label + ':rows' not in obs:
        return
    got = obs[label + ':rows']
    if len(got) != len(rows_ref):
        out.fail(f'{label}:rows_length', f'{len(got)} log likelihood values for {len(rows_ref)} individuals')
        return
    ok = True
    for r, (g, want) in enumerate(zip(got, rows_ref)):
        if want is None:
            ok = False
            continue
        if not _close(g, want):
            out.fail(key_rows, f'{what}: individual {r}: log likelihood {g!r}, reference {want!r}')
            return
    if ok and label + ':total' in obs:
        total = sum(rows_ref)
        if not _close(obs[label + ':total'], total, LL_RTOL * max(1, len(rows_ref))):
            out.fail(f'{label}:biogeme_total',
                     f'{what}: BIOGEME.calculate_init_likelihood {obs[label + ":total"]!r}, '
                     f'sum of reference rows {total!r}')


def _common_classes(out, spec, ref):
    out.classes.append(f'strata={len(spec["strata"])}')
    out.classes.append('second_sample' if spec.get('mev') else 'no_second_sample')
    out.classes.append('full_sampling' if _is_full(spec) else 'partial_sampling')
    out.classes.append(f'combined={len(spec["combined"])}')
    id_dtype = [c[1] for c in spec['alts']['columns'] if c[0] == spec['id_column']][0]
    ch_dtype = [c[1] for c in spec['inds']['columns'] if c[0] == spec['choice_column']][0]
    out.classes.append(f'id_{id_dtype}/choice_{ch_dtype}')
    if sorted(ref.ids) != list(range(1, len(ref.ids) + 1)):
        out.classes.append('ids_not_1..n')
    chosen = [int(r[spec['choice_column']]) for r in ref.ind_rows]
    if any(len(spec['strata'][ref.stratum_of[c]]) == 1 for c in chosen):
        out.classes.append('chosen_alone_in_stratum')
    if any(spec['sizes'][ref.stratum_of[c]] == 1 and len(spec['strata'][ref.stratum_of[c]]) > 1 for c in chosen):
        out.classes.append('chosen_stratum_k=1')
    if ref.mev and set(ref.mev_stratum_of) != set(ref.ids):
        out.classes.append('second_partition_subset')
    _index_classes(out, spec)


def _index_classes(out, spec):
    out.classes.append('individuals_index=' + _index_class(spec.get('ind_index')))
    out.classes.append('alternatives_index=' + _index_class(spec.get('alt_index')))
    if _positions_differ_from_labels(spec.get('ind_index')):
        rows = build.table_rows(spec['inds'])
        out.classes.append('individuals_label!=position' + ('' if len({tuple(sorted(r.items())) for r in rows}) > 1
                                                              else '(identical_rows)'))
    if _positions_differ_from_labels(spec.get('alt_index')):
        out.classes.append('alternatives_label!=position')


def _different_ratios(spec):
    ratios = {(k * 1.0) / len(m) for k, m in zip(spec['sizes'], spec['strata'])}
    return len(ratios) >= 2


def _chosen_not_first(spec, ref):
    for r in ref.ind_rows:
        c = int(r[spec['choice_column']])
        members = set(spec['strata'][ref.stratum_of[c]])
        first = [a for a in ref.ids if a in members][0]
        if first != c:
            return True
    return False


def _prepare(spec, out):
    ref = _Ref(spec)
    try:
        ref.check_well_posed()
    except (refsem.IllPosed, OverflowError, ZeroDivisionError) as e:
        out.skipped = 'ill-posed formula: ' + str(e)[:50]
        return None
    return ref


# ---------------------------------------------------------------------------------------------
# sub-check 1 and 2: the protocol, and the logit on the sample


def judge_protocol(spec) -> Outcome:
    out = Outcome()
    ref = _prepare(spec, out)
    if ref is None:
        return out
    _common_classes(out, spec, ref)
    full = _is_full(spec)
    if spec.get('expect_full'):
        out.nontrivial = full and len(ref.ids) >= 4 and (len(spec['combined']) >= 1 or len(spec['strata']) >= 2)
    else:
        out.nontrivial = _different_ratios(spec) and _chosen_not_first(spec, ref)
    res = isolate.call(_observe, spec)
    if not res['ok']:
        out.fail(f'raises:child:{res["exc_type"]}',
                 f'valid configuration raised {res["exc_module"]}.{res["exc_type"]}: {res["exc_msg"][:300]}')
        return out
    obs = res['value']
    if _report_errors(out, obs) and 'data' not in obs:
        return out
    samples = _check_data(out, spec, ref, obs)
    if samples is None:
        return out
    if not obs.get('file_written'):
        out.fail('data:file', 'sample_and_merge did not write the data file it announces')
    # the likelihood built on the sample: utilities corrected by -ln(k/n), chosen alternative first
    rows_ref = [None if s is None else ref.logit_sampled(r, s[0]) for r, s in enumerate(samples)]
    _compare_model(out, 'logit', obs, rows_ref, 'logit:sampled_loglike',
                   'logit on the sampled choice set (utilities minus ln(k/n))')
    if full:
        rows_full = [ref.logit_full(r) for r in range(len(ref.ind_rows))]
        _compare_model(out, 'logit', obs, rows_full, 'logit:full_loglike',
                       'every stratum sampled completely: logit on the full choice set')
    return out


@st.composite
def strat_protocol(draw, tier):
    spec = draw(_config(tier, full=False, mev='optional', n_combined=(0, 3)))
    spec['models'] = ['logit']
    spec['overloads'] = draw(st.booleans())
    return spec


@st.composite
def strat_full(draw, tier):
    spec = draw(_config(tier, full=True, mev='optional', n_combined=(0, 2)))
    spec['models'] = ['logit']
    spec['expect_full'] = True
    spec['overloads'] = draw(st.booleans())
    return spec


# ---------------------------------------------------------------------------------------------
# sub-check 3 and 4: the MEV models on the two samples


def _mev_from_groups(draw, groups, extra, full):
    """Second partition whose strata refine the given groups (so that each group is sampled)."""
    strata = []
    for g in groups:
        strata += _split(draw, g, 2)
    if extra:
        strata += _split(draw, extra, 1)
    return dict(strata=strata, sizes=_sizes(draw, strata, full), full_set=draw(st.booleans()))


@st.composite
def strat_nested(draw, tier):
    full = draw(st.booleans())
    spec = draw(_config(tier, full=full, mev='none', n_combined=(0, 1), min_alts=4))
    ids = [c for c in spec['alts']['columns'] if c[0] == spec['id_column']][0][2]
    perm = list(draw(st.permutations(ids)))
    n_nests = draw(st.integers(1, 2))
    covered = draw(st.integers(max(2, n_nests), len(ids)))
    parts = _split(draw, perm[:covered], n_nests)
    names = draw(st.permutations(NEST_NAMES))
    spec['nests'] = [[names[i], draw(st.sampled_from([1.0, 1.25, 1.5, 2.0, 3.0])), draw(st.booleans()), p]
                     for i, p in enumerate(parts)]
    rest = perm[covered:]
    extra = rest if (rest and draw(st.booleans())) else []
    spec['mev'] = _mev_from_groups(draw, parts, extra, full)
    spec['models'] = ['nested']
    spec['overloads'] = True
    return spec


def judge_nested(spec) -> Outcome:
    return _judge_mev_model(spec, 'nested')


@st.composite
def strat_cnl(draw, tier):
    full = draw(st.booleans())
    spec = draw(_config(tier, full=full, mev='none', n_combined=(0, 1), min_alts=4))
    ids = [c for c in spec['alts']['columns'] if c[0] == spec['id_column']][0][2]
    perm = list(draw(st.permutations(ids)))
    covered = draw(st.integers(3, len(ids)))
    members = perm[:covered]
    n_nests = draw(st.integers(2, 3))
    names = draw(st.permutations(NEST_NAMES))
    alphas = [[] for _ in range(n_nests)]
    for pos, a in enumerate(members):
        # the first alternatives make sure that every nest has a member of its own
        if pos < n_nests:
            alphas[pos].append([a, 1.0])
            continue
        pair = draw(st.lists(st.integers(0, n_nests - 1), min_size=1, max_size=2, unique=True))
        if len(pair) == 1:
            alphas[pair[0]].append([a, 1.0])
        else:
            share = draw(st.sampled_from([0.5, 0.25, 0.75, 0.125]))
            alphas[pair[0]].append([a, share])
            alphas[pair[1]].append([a, 1.0 - share])
    spec['cnl'] = [[names[i], draw(st.sampled_from([1.0, 1.25, 1.5, 2.0, 3.0])), draw(st.booleans()), al]
                   for i, al in enumerate(alphas)]
    # strata of the second partition: groups of alternatives with the same membership pattern would be
    # the finest choice; one group per nest "core" plus the rest keeps every nest represented
    groups = [[members[i]] for i in range(n_nests)]
    rest = members[n_nests:]
    spec['mev'] = _mev_from_groups(draw, groups, rest, full)
    spec['models'] = ['cnl']
    spec['overloads'] = True
    return spec


def judge_cnl(spec) -> Outcome:
    return _judge_mev_model(spec, 'cnl')


CNL_DEFECT_KEY = 'cnl:first_sample_alpha_read_from_second_sample'


def _judge_mev_model(spec, label) -> Outcome:
    out = Outcome()
    ref = _prepare(spec, out)
    if ref is None:
        return out
    _common_classes(out, spec, ref)
    full = _is_full(spec)
    chosen = {int(r[spec['choice_column']]) for r in ref.ind_rows}
    if label == 'nested':
        out.nontrivial = any(mu != 1.0 and len(m) >= 2 and (chosen & set(m)) for _, mu, _, m in spec['nests'])
        out.classes.append(f'nests={len(spec["nests"])}')
        if set().union(*[set(m) for _, _, _, m in spec['nests']]) != set(ref.ids):
            out.classes.append('alternatives_outside_nests')
    else:
        shared = set()
        seen = set()
        for _, _, _, al in spec['cnl']:
            for a, _ in al:
                (shared if a in seen else seen).add(a)
        out.nontrivial = bool(shared) and any(mu != 1.0 for _, mu, _, _ in spec['cnl'])
        out.classes.append(f'nests={len(spec["cnl"])}')
        if shared & chosen:
            out.classes.append('chosen_in_two_nests')
        if seen != set(ref.ids):
            out.classes.append('alternatives_outside_nests')
    res = isolate.call(_observe, spec)
    if not res['ok']:
        out.fail(f'raises:child:{res["exc_type"]}',
                 f'valid configuration raised {res["exc_module"]}.{res["exc_type"]}: {res["exc_msg"][:300]}')
        return out
    obs = res['value']
    if 'data' not in obs:
        _report_errors(out, obs)
        return out
    samples = _check_data(out, spec, ref, obs)
    if samples is None:
        _report_errors(out, obs)
        return out
    n_ind = len(ref.ind_rows)

    if label == 'cnl':
        # Recognise exactly one root cause: the membership degrees of the alternatives of the FIRST
        # sample being read from the columns of the SECOND sample (same position).
        model_errors = [e for e in obs['errors'] if e['stage'].startswith('cnl:')]
        if model_errors and ref.J > ref.J2 and all(
                f'{MEV_PREFIX}{CNL_PREFIX}' in e['msg'] for e in model_errors):
            out.classes.append('cnl_defect_manifests_as_exception')
            out.fail(CNL_DEFECT_KEY,
                     f'first sample of {ref.J} alternatives, second sample of {ref.J2}: the model asks for '
                     f'a column of the second sample that cannot exist: {model_errors[0]["type"]}: '
                     f'{model_errors[0]["msg"][:200]}')
            _report_errors(out, obs, allowed_prefixes=('cnl:',))
            return out
    if _report_errors(out, obs):
        return out

    sampled_fn = ref.nested_sampled if label == 'nested' else ref.cnl_sampled
    full_fn = ref.nested_full if label == 'nested' else ref.cnl_full
    try:
        rows_ref = [None if s is None else sampled_fn(r, s[0], s[1]) for r, s in enumerate(samples)]
    except (OverflowError, ZeroDivisionError):
        out.skipped = 'ill-posed: overflow in the reference'
        return out
    if any(s is not None and v is None for s, v in zip(samples, rows_ref)):
        out.skipped = 'second sample misses a nest needed by the first sample'
        return out
    if label == 'cnl' and label + ':rows' in obs and all(s is not None for s in samples) and ref.J <= ref.J2:
        got = obs['cnl:rows']
        right = all(_close(g, w) for g, w in zip(got, rows_ref))
        if not right:
            try:
                wrong = [ref.cnl_sampled(r, s[0], s[1], alpha_ids=s[1][:ref.J]) for r, s in enumerate(samples)]
            except (OverflowError, ZeroDivisionError, ValueError):
                wrong = None
            if wrong is not None and all(w is not None and _close(g, w) for g, w in zip(got, wrong)):
                r = [i for i, (g, w) in enumerate(zip(got, rows_ref)) if not _close(g, w)][0]
                out.classes.append('cnl_defect_manifests_as_wrong_value')
                out.fail(CNL_DEFECT_KEY,
                         f'individual {r}: log likelihood {got[r]!r}, reference {rows_ref[r]!r}; the number is '
                         f'reproduced exactly when the membership degrees of the alternatives of the first '
                         f'sample {samples[r][0]} are replaced by those of the second sample '
                         f'{samples[r][1][:ref.J]} at the same positions')
                return out
    _compare_model(out, label, obs, rows_ref, f'{label}:sampled_loglike',
                   f'{label} on the two samples (corrections ln(k/n), sums expanded by n/k)')
    if full:
        rows_full = [full_fn(r) for r in range(n_ind)]
        _compare_model(out, label, obs, rows_full, f'{label}:full_loglike',
                       f'every stratum sampled completely: {label} on the full choice set')
    return out


# ---------------------------------------------------------------------------------------------
# sub-check 5: inclusion frequencies over many random samplings (pure pandas, no engine)

P_TAIL = 1e-12


def judge_uniformity(spec) -> Outcome:
    out = Outcome()
    ref = _Ref(spec)
    reps = spec['repetitions']
    chosen = int(spec['chosen'])
    out.evaluations = reps
    try:
        context = _make_context(spec, os.path.join(tempfile.gettempdir(), 'c19_unused.csv'))
        sampler = _soa.SamplingOfAlternatives(context)
    except Exception as e:  # noqa
        out.fail(f'raises:context:{type(e).__name__}', f'valid configuration raised {e!r}')
        return out
    counts = {a: 0 for a in ref.ids}
    mev_counts = {a: 0 for a in ref.ids}
    np.random.seed(spec['np_seed'])
    try:
        for _ in range(reps):
            s = sampler.sample_alternatives(chosen=chosen)
            for a in s[ref.id_column]:
                counts[int(a)] += 1
            if ref.mev:
                s2 = sampler.sample_mev_alternatives()
                for a in s2[ref.id_column]:
                    mev_counts[int(a)] += 1
    except Exception as e:  # noqa
        out.fail(f'raises:sample:{type(e).__name__}', f'valid configuration raised {e!r}')
        return out
    interior = False

    def test(a, c, p, what, key):
        nonlocal interior
        if p <= 0.0 or p >= 1.0:
            want = reps if p >= 1.0 else 0
            if c != want:
                out.fail(key + ':certain', f'{what} {a}: drawn {c} times out of {reps}, must be {want}')
            return
        interior = True
        tail = 2 * min(binom.cdf(c, reps, p), binom.sf(c - 1, reps, p))
        if tail < P_TAIL and not any(f.key == key for f in out.failures):
            out.fail(key, f'{what} {a}: drawn {c} times out of {reps} with inclusion probability {p:.4f} '
                          f'(two-sided binomial tail {tail:.2e})')

    for a in ref.ids:
        s = ref.stratum_of[a]
        k, n = spec['sizes'][s], len(spec['strata'][s])
        if a == chosen:
            p = 1.0
        elif ref.stratum_of[chosen] == s:
            p = (k - 1) / (n - 1)
        else:
            p = k / n
        test(a, counts[a], p, f'alternative (choice {chosen})', 'uniformity:first_sample')
        if ref.mev:
            if a in ref.mev_stratum_of:
                s2 = ref.mev_stratum_of[a]
                p2 = ref.mev['sizes'][s2] / len(ref.mev['strata'][s2])
            else:
                p2 = 0.0
            test(a, mev_counts[a], p2, 'second-sample alternative', 'uniformity:second_sample')
    out.nontrivial = interior
    out.classes.append('some_stratum_partially_sampled' if interior else 'all_certain')
    _index_classes(out, spec)
    return out


@st.composite
def strat_uniformity(draw, tier):
    spec = draw(_config(tier, full=False, mev='optional', n_combined=(0, 0)))
    ids = [c for c in spec['alts']['columns'] if c[0] == spec['id_column']][0][2]
    spec['chosen'] = draw(st.sampled_from(ids))
    spec['repetitions'] = 400 if tier == 'thorough' else 250
    return spec


# ---------------------------------------------------------------------------------------------
# sub-check 6: what Partition and SamplingContext document to refuse

MUTATIONS = ['valid', 'k_too_large', 'k_zero', 'unknown_alternative_in_partition', 'unknown_choice',
             'uncovered_choice', 'overlap', 'empty_segment', 'full_set_mismatch', 'non_integer_member',
             'second_partition_without_sizes', 'second_sizes_without_partition', 'unknown_variable']


def judge_validation(spec) -> Outcome:
    out = Outcome()
    mutation = spec['mutation']
    out.classes.append(f'mutation={mutation}')
    out.nontrivial = mutation != 'valid'
    s = spec['stratum'] % len(spec['strata'])
    strata = [list(m) for m in spec['strata']]
    sizes = list(spec['sizes'])
    ids = [c for c in spec['alts']['columns'] if c[0] == spec['id_column']][0][2]
    unknown = max(ids) + 1 + spec['offset']
    base = dict(spec)
    base['mev'] = None
    BiogemeError = _bioexc.BiogemeError

    def expect(exc_type, where, fn):
        """fn must raise exc_type (documented refusal)."""
        try:
            fn()
        except exc_type:
            return True
        except Exception as e:  # noqa
            out.fail(f'validation:{mutation}:{type(e).__name__}',
                     f'{where}: documented to raise {exc_type.__name__}, raised {type(e).__name__}: {e}')
            return False
        out.fail(f'validation:{mutation}:accepted', f'{where}: documented to raise {exc_type.__name__}, accepted')
        return False

    # ---- Partition itself
    if mutation in ('overlap', 'empty_segment', 'full_set_mismatch', 'non_integer_member'):
        segs = [set(m) for m in strata]
        full_set = None
        if mutation == 'overlap':
            if len(segs) < 2:
                segs.append({strata[0][0]})
            else:
                segs[(s + 1) % len(segs)].add(strata[s][0])
        elif mutation == 'empty_segment':
            segs.insert(s, set())
        elif mutation == 'full_set_mismatch':
            full_set = set(ids) | {unknown}
        else:
            segs[s] = set(segs[s]) | {spec['bad_member']}
        expect(ValueError, f'Partition({segs}, full_set={full_set})',
               lambda: _partition.Partition(segs, full_set=full_set))
        return out

    if mutation == 'valid':
        try:
            p = _make_partition(strata, spec['full_set'])
            context = _make_context(base, 'unused.csv')
        except Exception as e:  # noqa
            out.fail(f'validation:valid:{type(e).__name__}', f'valid configuration refused: {e!r}')
            return out
        if p.full_set != set(ids) or p.number_of_segments() != len(strata) or \
                [set(x) for x in p] != [set(m) for m in strata]:
            out.fail('validation:valid:partition_content', 'Partition does not hand back its segments / full set')
        if context.total_sample_size != sum(sizes):
            out.fail('validation:valid:total_sample_size',
                     f'total_sample_size {context.total_sample_size} != {sum(sizes)}')
        return out

    where = mutation
    if mutation == 'k_too_large':
        sizes[s] = len(strata[s]) + 1 + spec['offset']
    elif mutation == 'k_zero':
        sizes[s] = 0
    elif mutation == 'unknown_alternative_in_partition':
        strata[s].append(unknown)
    elif mutation == 'unknown_variable':
        base['utility'] = ['Plus', spec['utility'], ['Var', 'no_such_column']]
    base['strata'], base['sizes'] = strata, sizes
    if mutation == 'second_partition_without_sizes':
        def build_it():
            c = _make_kwargs(base)
            c['mev_partition'] = _make_partition(spec['strata'], True)
            return _soa.SamplingContext(**c)
        expect(BiogemeError, 'SamplingContext(mev_partition given, mev_sample_sizes=None)', build_it)
        return out
    if mutation == 'second_sizes_without_partition':
        def build_it():
            c = _make_kwargs(base)
            c['mev_sample_sizes'] = list(spec['sizes'])
            return _soa.SamplingContext(**c)
        expect(BiogemeError, 'SamplingContext(mev_sample_sizes given, mev_partition=None)', build_it)
        return out
    if mutation in ('k_too_large', 'k_zero', 'unknown_alternative_in_partition', 'unknown_variable'):
        expect(BiogemeError, f'SamplingContext with {where} (strata {strata}, sizes {sizes})',
               lambda: _make_context(base, 'unused.csv'))
        return out
    if mutation == 'unknown_choice':
        try:
            context = _make_context(base, 'unused.csv')
            sampler = _soa.SamplingOfAlternatives(context)
        except Exception as e:  # noqa
            out.fail(f'validation:valid:{type(e).__name__}', f'valid configuration refused: {e!r}')
            return out
        np.random.seed(spec['np_seed'])
        expect(BiogemeError, f'sample_alternatives(chosen={unknown}) with alternatives {ids}',
               lambda: sampler.sample_alternatives(chosen=unknown))
        return out
    if mutation == 'uncovered_choice':
        # A "partition" that leaves out the stratum of somebody's choice: no correction exists for
        # that chosen alternative, so no likelihood can be meant. Asserted here (weakest sound form):
        # no finite log likelihood comes out silently. (check_partition's docstring promises a
        # BiogemeError for a union that does not match; that check does not exist - reported, not asserted.)
        if len(strata) < 2:
            out.skipped = 'needs two strata'
            return out
        choice = [c for c in spec['inds']['columns'] if c[0] == spec['choice_column']][0][2][0]
        drop = [i for i, m in enumerate(strata) if choice in m][0]
        base['strata'] = [m for i, m in enumerate(strata) if i != drop]
        base['sizes'] = [k for i, k in enumerate(sizes) if i != drop]
        base['full_set'] = False
        base['models'] = ['logit']
        res = isolate.call(_observe, base)
        if not res['ok']:
            out.fail(f'validation:uncovered_choice:{res["exc_type"]}',
                     f'choice {choice} outside every stratum: raised {res["exc_type"]}: {res["exc_msg"][:200]}')
            return out
        obs = res['value']
        if obs['errors']:
            out.classes.append(f'uncovered_choice_refused_at:{obs["errors"][0]["stage"]}:{obs["errors"][0]["type"]}')
        else:
            values = obs.get('logit:rows', []) + [obs.get('logit:total', float('nan'))]
            if all(math.isfinite(v) for v in values):
                out.fail('validation:uncovered_choice:likelihood_produced',
                         f'choice {choice} belongs to no stratum of {base["strata"]}, yet a log likelihood '
                         f'{obs.get("logit:total")!r} is produced without any error')
        return out
    raise AssertionError(mutation)


def _make_kwargs(spec):
    b = build.Builder([], overloads=True)
    return dict(
        the_partition=_make_partition(spec['strata'], spec['full_set']),
        sample_sizes=list(spec['sizes']),
        individuals=_frame(spec['inds'], spec.get('ind_index')),
        choice_column=spec['choice_column'],
        alternatives=_frame(spec['alts'], spec.get('alt_index')),
        id_column=spec['id_column'],
        biogeme_file_name='unused.csv',
        utility_function=b.build(spec['utility']),
        combined_variables=[_soa.CrossVariableTuple(name, b.build(f)) for name, f in spec['combined']],
    )


@st.composite
def strat_validation(draw, tier):
    spec = draw(_config(tier, full=False, mev='none', n_combined=(0, 1)))
    spec['mutation'] = draw(st.sampled_from(MUTATIONS + ['k_too_large', 'k_too_large', 'k_zero']))
    if spec['mutation'] == 'uncovered_choice' and len(spec['strata']) < 2:
        spec['mutation'] = 'k_zero'
    spec['stratum'] = draw(st.integers(0, 3))
    spec['offset'] = draw(st.sampled_from([0, 0, 0, 1, 3]))  # mostly the boundary k = n + 1
    spec['bad_member'] = draw(st.sampled_from([2.5, 'a', 7.5]))
    return spec


# ---------------------------------------------------------------------------------------------


def render(spec):
    ids = [c for c in spec['alts']['columns'] if c[0] == spec['id_column']][0][2]
    ch = [c for c in spec['inds']['columns'] if c[0] == spec['choice_column']][0][2]
    txt = (f'{len(ids)} alternatives {ids}, strata {spec["strata"]} sizes {spec["sizes"]}, '
           f'choices {ch}')
    if spec.get('ind_index') is not None:
        txt += f', row labels of the individuals {spec["ind_index"]}'
    if spec.get('alt_index') is not None:
        txt += f', row labels of the alternatives {spec["alt_index"]}'
    if spec.get('mev'):
        txt += f', second partition {spec["mev"]["strata"]} sizes {spec["mev"]["sizes"]}'
    if spec.get('combined'):
        txt += ', combined ' + '; '.join(f'{n}={refsem.render(f)}' for n, f in spec['combined'])
    if spec.get('utility'):
        txt += f', V={refsem.render(spec["utility"])}'
    if spec.get('nests'):
        txt += f', nests {[(n, mu, m) for n, mu, _, m in spec["nests"]]}'
    if spec.get('cnl'):
        txt += f', cnl {[(n, mu, al) for n, mu, _, al in spec["cnl"]]}'
    if spec.get('mutation'):
        txt += f', mutation {spec["mutation"]}'
    return (txt + f', numpy seed {spec["np_seed"]}')[:900]


SUBCHECKS = [
    SubCheck('protocol', strat_protocol, judge_protocol, render, dict(quick=320, thorough=12000),
             'random tables/partitions/sizes/choices/combined variables/optional second sample, tables of '
             'individuals and alternatives with arbitrary row labels (default, permuted, gaps, offset, duplicated, '
             'non-integer): every merged row, BY POSITION, carries the attributes and choice of the individual at '
             'that position, keeps the protocol, combined variables recomputed from that individual and the sampled '
             'alternative, sampled logit likelihood recomputed; '
             'non-trivial: >= 2 strata with different k/n and a chosen alternative that is not the first of its stratum',
             max_skip_fraction=0.25),
    SubCheck('full_logit', strat_full, judge_protocol, render, dict(quick=160, thorough=6000),
             'k = n in every stratum: get_logit on the merged data == independently coded logit on the full '
             'choice set (rows via get_value_c, total via BIOGEME.calculate_init_likelihood); non-trivial: >= 4 '
             'alternatives and (>= 2 strata or a combined variable)', max_skip_fraction=0.25),
    SubCheck('nested', strat_nested, judge_nested, render, dict(quick=128, thorough=5000),
             'get_nested_logit with a second sample refining the nests; half of the cases fully sampled '
             '(== nested logit on the full choice set); non-trivial: a nest with mu != 1, >= 2 members, holding a choice',
             max_skip_fraction=0.25),
    SubCheck('cnl', strat_cnl, judge_cnl, render, dict(quick=128, thorough=5000),
             'get_cross_nested_logit with a second sample over the nested alternatives; half fully sampled '
             '(== cross-nested logit on the full choice set); non-trivial: an alternative in two nests and a mu != 1',
             max_skip_fraction=0.35),
    SubCheck('uniformity', strat_uniformity, judge_uniformity, render, dict(quick=48, thorough=1600),
             '250-400 repeated samplings of one configuration: inclusion counts vs k/n, (k-1)/(n-1) next to the '
             'choice, 1 for the choice, 0 outside (binomial tail 1e-12); non-trivial: some inclusion probability '
             'strictly between 0 and 1'),
    SubCheck('validation', strat_validation, judge_validation, render, dict(quick=240, thorough=6000),
             'documented refusals of Partition (ValueError) and SamplingContext / sample_alternatives '
             '(BiogemeError); non-trivial: an invalid configuration', max_skip_fraction=0.3),
]
RULE = ' | '.join(f'{s.name}: {s.rule}' for s in SUBCHECKS)
