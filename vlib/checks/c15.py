"""C15 The saved-iteration file is always a sound restart point."""
from __future__ import annotations

import math
import os
import shutil
import tempfile

import numpy as np
from hypothesis import strategies as st

from .. import build, gen, isolate
from .. import estimation_common as ec
from ..runner import Outcome, SubCheck

PROPERTY = 'C15'
LEVEL = 'fault_enumeration'
ASSUMPTIONS = [
    'crash points are enumerated at the granularity visible from Python inside the saving code: after the file is '
    'opened (truncated / created), after every write call (flushed to the OS), after close, and around a rename if the '
    'code uses one; the process is stopped with os._exit there. Loss of data below write(2) (page cache, fsync) is not '
    'modelled',
    'the harness model of "best so far" is the largest log likelihood among the evaluations with a finite gradient '
    'since the object was created or the estimation started; ties may keep either point',
    'likelihoods are concave multinomial-logit problems (vlib/estimation_common.py); a parameter with a pole (log of a '
    'parameter evaluated at 0) provides evaluations with non-finite derivatives',
]
BUDGETS = dict(quick=dict(shards=8), thorough=dict(shards=16))
MODEL_NAMES = ['m', 'my model', 'logit_01', 'b01.v2', 'Modèle']


@st.composite
def strat(draw, tier):
    big = tier == 'thorough'
    spec = draw(ec.logit_problems(tier, min_free=1, max_free=3, n_rows=draw(st.integers(8, 20)), allow_fixed=True))
    ref = ec.Reference(spec)
    k = len(ref.free_names)
    n_calls = draw(st.integers(1, 15 if big else 8))
    vals = st.one_of(gen.dyadic(-2, 2, 8), st.floats(-3, 3), st.sampled_from([0.0, -0.0, 1e-300, 0.1 + 0.2, 1 / 3, 1e15 / 7]))
    points = []
    for _ in range(n_calls):
        mode = draw(st.sampled_from(['random', 'random', 'repeat', 'near_best']))
        if mode == 'repeat' and points:
            points.append(list(draw(st.sampled_from(points))))
        else:
            points.append([draw(vals) for _ in range(k)])
    spec['points'] = points
    spec['pole'] = draw(st.sampled_from([None, None, 'P_pole']))  # extra parameter with log(P) in the likelihood
    spec['pole_values'] = [draw(st.sampled_from([1.0, 2.5, 0.5, 0.0])) for _ in range(n_calls)]
    spec['flags'] = [[draw(st.booleans()), draw(st.booleans())] for _ in range(n_calls)]
    # some callers ask for the value per observation (scaled=True): the best point is still the one with the best likelihood
    spec['scaled'] = [draw(st.sampled_from([False, False, False, True])) for _ in range(n_calls)]
    spec['model_name'] = draw(st.sampled_from(MODEL_NAMES))
    spec['then_estimate'] = draw(st.booleans())
    spec['max_crash_points'] = 400 if big else 60
    spec['flush_writes'] = draw(st.booleans())
    return spec


def _build(spec, save=True):
    import biogeme.biogeme as bio
    from biogeme.expressions import Beta, log
    from biogeme.parameters import Parameters

    loglike, weight = ec.build_model(spec)
    if spec.get('pole'):
        # contributes log(P)/N per observation: a pole at P = 0
        loglike = loglike + log(Beta(spec['pole'], 1.0, None, None, 0)) / float(spec['n_rows'])
    formulas = {'log_like': loglike}
    if weight is not None:
        formulas['weight'] = weight
    params = Parameters()
    params.set_value(name='number_of_threads', value=1)
    params.set_value(name='save_iterations', value=bool(save))
    params.set_value(name='optimization_algorithm', value='simple_bounds_newton')
    params.set_value(name='max_iterations', value=60)
    the = bio.BIOGEME(build.build_database(ec.table_of(spec)), formulas, parameters=params)
    the.modelName = spec['model_name']
    the.generate_html = False
    the.generate_pickle = False
    return the


class _Killer:
    """Counts the harness-visible steps of every save and stops the process at a chosen one."""

    def __init__(self, kill_at, flush_writes=True):
        self.kill_at = kill_at  # (save_index, event_index) or None
        # buffer policy: every write reaches the disk at once (a partial file becomes visible), or nothing
        # reaches it before the library flushes / closes (what is still buffered at the stop is lost)
        self.flush_writes = flush_writes
        self.saves = []  # number of events of each save
        self.current = None

    def event(self, fileobj=None):
        self.saves[-1] += 1
        if self.kill_at is not None and (len(self.saves) - 1, self.saves[-1] - 1) == tuple(self.kill_at):
            if fileobj is not None and self.flush_writes:
                try:
                    fileobj.flush()
                except Exception:
                    pass
            os._exit(17)


def _install(killer):
    """Wrap open / os.replace / os.rename as seen by biogeme.biogeme (module-level names only)."""
    import builtins
    import biogeme.biogeme as bb

    class Proxy:
        def __init__(self, f):
            self._f = f

        def write(self, text):
            n = self._f.write(text)
            if killer.flush_writes:
                self._f.flush()
            killer.event(self._f)
            return n

        def __getattr__(self, name):
            return getattr(self._f, name)

        def __enter__(self):
            return self

        def __exit__(self, *a):
            self._f.close()
            killer.event()
            return False

        def close(self):
            self._f.close()
            killer.event()

    def my_open(file, mode='r', *a, **kw):
        f = builtins.open(file, mode, *a, **kw)
        if 'w' in mode or 'a' in mode or 'x' in mode:
            if not killer.saves or killer.closed_last:
                pass
            killer.saves.append(0)
            killer.event(f)
            return Proxy(f)
        return f

    killer.closed_last = True
    bb.open = my_open
    real_os = bb.os if hasattr(bb, 'os') else None

    class OsProxy:
        def __getattr__(self, name):
            return getattr(os, name)

        def replace(self, a, b):
            killer.event()
            os.replace(a, b)
            killer.event()

        def rename(self, a, b):
            killer.event()
            os.rename(a, b)
            killer.event()
    if real_os is not None:
        bb.os = OsProxy()
    # tempfile-based implementations go through os.fdopen / NamedTemporaryFile: cover the common spellings
    try:
        import tempfile as _tf
        if hasattr(bb, 'tempfile'):
            pass
    except Exception:
        pass


def _read_file(name):
    try:
        with open(name, encoding='utf-8') as f:
            return f.read()
    except OSError:
        return None


def _run_history(spec, workdir, kill_at):
    os.chdir(workdir)
    killer = _Killer(kill_at, flush_writes=spec.get('flush_writes', True))
    _install(killer)
    the = _build(spec)
    names = list(the.free_beta_names)
    fname = the._save_iterations_file_name()
    log = []
    scaled_flags = spec.get('scaled') or [False] * len(spec['points'])
    n_obs = float(the.database.get_sample_size())
    for t, (pt, pv, (hs, bh)) in enumerate(zip(spec['points'], spec['pole_values'], spec['flags'])):
        x = []
        it = iter(pt)
        for n in names:
            x.append(pv if n == spec.get('pole') else next(it))
        n_saves_before = len(killer.saves)
        try:
            r = the.calculate_likelihood_and_derivatives(x, scaled=bool(scaled_flags[t]), hessian=hs, bhhh=bh)
            f = float(r.function) * (n_obs if scaled_flags[t] else 1.0)
            finite = bool(np.isfinite(np.linalg.norm(np.asarray(r.gradient, dtype=float))))
            err = None
        except RuntimeError as e:  # engine refusal (e.g. log of zero): no evaluation took place
            f, finite, err = None, False, str(e)[:100]
        log.append(dict(x=[float(v) for v in x], f=f, finite=finite, err=err, saved=len(killer.saves) > n_saves_before,
                        file=_read_file(fname)))
        if err is not None:
            break
    return dict(names=names, fname=fname, log=log, events=list(killer.saves))


def _restart(spec, workdir):
    """A later estimation of the same model in the same directory."""
    os.chdir(workdir)
    import biogeme.biogeme as bb

    the = _build(spec)
    fname = the._save_iterations_file_name()
    before = _read_file(fname)
    seen = []
    orig = the.calculate_likelihood

    def spy(x, scaled, batch=None):
        seen.append([float(v) for v in x])
        return orig(x, scaled=scaled, batch=batch)
    the.calculate_likelihood = spy
    r = the.estimate()
    return dict(names=list(the.free_beta_names), file_before=before, first_point=seen[0] if seen else None,
                init_loglike=None if r.data.initLogLike is None else float(r.data.initLogLike),
                final=float(r.data.logLike), file_after=_read_file(fname))


def parse_iteration_file(text, names):
    """None if `text` is not exactly one complete `name = value` line per free parameter."""
    if text is None or not text.endswith('\n'):
        return None
    lines = text.split('\n')[:-1]
    if len(lines) != len(names):
        return None
    out = {}
    for ln in lines:
        if ln.count('=') != 1:
            return None
        n, v = ln.split('=')
        try:
            out[n.strip()] = float(v)
        except ValueError:
            return None
    if sorted(out) != sorted(names):
        return None
    return [out[n] for n in names]


def _same_bits(a, b):
    return len(a) == len(b) and all(np.float64(x).tobytes() == np.float64(y).tobytes() for x, y in zip(a, b))


def judge(spec) -> Outcome:
    out = Outcome()
    workdir = tempfile.mkdtemp(prefix='verif_c15_')
    try:
        res = isolate.call(_run_history, spec, workdir, None)
        if not res['ok']:
            out.fail(f'history:raises:{res["exc_type"]}', f'{res["exc_type"]}: {res["exc_msg"][:300]}')
            return out
        h = res['value']
        names = h['names']
        log = h['log']
        # ---- (1) after every call the file holds the best finite evaluation so far, bit for bit
        best_f, best_pts = None, []
        worsened_after_improvement = False
        improved = False
        for t, e in enumerate(log):
            if e['f'] is not None and e['finite']:
                if best_f is None or e['f'] > best_f:
                    if best_f is not None:
                        improved = True
                    best_f, best_pts = e['f'], [e['x']]
                elif e['f'] == best_f:
                    best_pts.append(e['x'])
                elif improved or best_f is not None:
                    worsened_after_improvement = worsened_after_improvement or improved
            if best_f is None:
                if e['file'] is not None and parse_iteration_file(e['file'], names) is None:
                    out.fail('file:malformed', f'after call {t + 1} the file is not one complete line per parameter: {e["file"]!r}')
                    break
                continue
            vec = parse_iteration_file(e['file'], names)
            if vec is None:
                out.fail('file:malformed' if e['file'] is not None else 'file:missing',
                         f'after call {t + 1} (f = {e["f"]}) the iteration file is {e["file"]!r}; expected one line per '
                         f'parameter {names}')
                break
            if not any(_same_bits(vec, p) for p in best_pts):
                evaluated = [p['x'] for p in log[: t + 1] if p['f'] is not None]
                which = 'an evaluated point' if any(_same_bits(vec, p) for p in evaluated) else 'NOT an evaluated point'
                fs = [p['f'] for p in log[: t + 1]]
                key = 'file:not_best_so_far' if which == 'an evaluated point' else 'file:values_not_bit_exact'
                out.fail(key, f'after call {t + 1} the file holds {vec} ({which}); log likelihoods so far {fs}, finite '
                              f'{[p["finite"] for p in log[: t + 1]]}; the best point is {best_pts[0]} (f = {best_f})')
                break
        n_saves = len(h['events'])
        out.classes += [f'calls={len(log)}', f'saves={min(n_saves, 9)}', 'pole' if spec.get('pole') else 'no_pole',
                        'non_finite_seen' if any(not e['finite'] for e in log) else 'all_finite']
        # ---- (2) a later estimation of the same model starts from the saved values
        if not out.failures and best_f is not None and spec['then_estimate']:
            res2 = isolate.call(_restart, spec, workdir)
            if not res2['ok']:
                out.fail(f'restart:raises:{res2["exc_type"]}', f'restart raised {res2["exc_type"]}: {res2["exc_msg"][:300]}')
            else:
                r2 = res2['value']
                vec = parse_iteration_file(r2['file_before'], names)
                if vec is not None and r2['first_point'] is not None and not _same_bits(vec, r2['first_point']):
                    out.fail('restart:starting_point', f'the file holds {vec} but the next estimation starts from {r2["first_point"]}')
                if r2['init_loglike'] is not None and r2['init_loglike'] < best_f - 1e-9 * (1 + abs(best_f)):
                    out.fail('restart:below_saved_point', f'restart begins at log likelihood {r2["init_loglike"]!r}, below the best saved one {best_f!r}')
                vec_after = parse_iteration_file(r2['file_after'], names)
                if vec_after is None:
                    out.fail('restart:file_after_estimation', f'after the estimation the file is {r2["file_after"]!r}')
            out.evaluations += 1
        # ---- (3) crash points: every harness-visible step of every save
        crash_points = [(s, k) for s, n_ev in enumerate(h['events']) for k in range(n_ev)]
        inside = [cp for cp in crash_points if 0 <= cp[1] < h['events'][cp[0]] - 1]
        if len(crash_points) > spec['max_crash_points']:
            step = len(crash_points) / spec['max_crash_points']
            crash_points = [crash_points[int(i * step)] for i in range(spec['max_crash_points'])]
        evaluated = [e['x'] for e in log if e['f'] is not None and e['finite']]
        n_crash = 0
        if not out.failures:
            for cp in crash_points:
                shutil.rmtree(workdir, ignore_errors=True)
                os.makedirs(workdir)
                resk = isolate.call(_run_history, spec, workdir, list(cp))
                n_crash += 1
                if resk['ok'] or resk['exc_type'] != 'ChildCrashed':
                    # the kill point was not reached (fewer events this time): harness inconsistency
                    continue
                text = _read_file(os.path.join(workdir, h['fname']))
                if text is not None:
                    vec = parse_iteration_file(text, names)
                    if vec is None:
                        out.fail('crash:partial_file',
                                 f'process stopped at step {cp[1] + 1}/{h["events"][cp[0]]} of save {cp[0] + 1}: the file is '
                                 f'left as {text!r} (neither absent nor one complete line per parameter {names})')
                        break
                    if not any(_same_bits(vec, p) for p in evaluated):
                        out.fail('crash:file_not_an_evaluated_point', f'after a stop at {cp} the file holds {vec}')
                        break
                res3 = isolate.call(_restart, spec, workdir)
                if not res3['ok']:
                    out.fail(f'crash:restart_raises:{res3["exc_type"]}',
                             f'after a stop at step {cp[1] + 1}/{h["events"][cp[0]]} of save {cp[0] + 1} (file {text!r}) the '
                             f'restart raised {res3["exc_type"]}: {res3["exc_msg"][:200]}')
                    break
        out.evaluations += n_crash
        out.classes.append(f'crash_points={min(len(crash_points) // 10 * 10, 60)}+')
        out.classes.append('mixed_scaled_calls' if len(set((spec.get('scaled') or [False])[:len(log)])) > 1 else 'one_scaling')
        out.classes.append('writes_flushed_at_once' if spec.get('flush_writes', True) else 'writes_buffered_until_close')
        out.nontrivial = worsened_after_improvement and bool(inside)
    finally:
        shutil.rmtree(workdir, ignore_errors=True)
    return out


# ---------------------------------------------------------------------------------------------
# the same object estimated twice: the "best so far" starts again with every estimation


@st.composite
def strat_same_object(draw, tier):
    spec = draw(ec.logit_problems(tier, min_free=1, max_free=3, n_rows=draw(st.integers(10, 25)), allow_fixed=True))
    k = len(ec.Reference(spec).free_names)
    spec['pole'] = None
    spec['model_name'], spec['second_name'] = draw(st.permutations(MODEL_NAMES))[:2]
    spec['poor_point'] = [draw(st.sampled_from([-3.0, -2.5, 2.5, 3.0, 2.0, -2.0])) for _ in range(k)]
    spec['second_max_iter'] = draw(st.integers(1, 3))
    spec['first'] = draw(st.sampled_from(['estimate', 'estimate', 'evaluations']))
    return spec


def _run_same_object(spec, workdir):
    os.chdir(workdir)
    the = _build(spec)
    names = list(the.free_beta_names)
    ref = ec.Reference(spec)
    if spec['first'] == 'estimate':
        first = float(the.estimate().data.logLike)
    else:
        first = float(the.calculate_likelihood_and_derivatives(list(ref.solve()), scaled=False, hessian=False, bhhh=False).function)
    # an earlier, interrupted run of the model under its other name left its iteration file
    other = _build(dict(spec, model_name=spec['second_name']))
    other.calculate_likelihood_and_derivatives(list(spec['poor_point']), scaled=False, hessian=False, bhhh=False)
    the.modelName = spec['second_name']
    fname = the._save_iterations_file_name()
    before = _read_file(fname)
    the.max_iterations = int(spec['second_max_iter'])
    log = []
    orig = the.calculate_likelihood_and_derivatives

    def spy(x, scaled, hessian=False, bhhh=False, batch=None):
        r = orig(x, scaled=scaled, hessian=hessian, bhhh=bhhh, batch=batch)
        f = float(r.function) * (float(the.database.get_sample_size()) if scaled else 1.0)
        log.append(dict(x=[float(v) for v in x], f=f, scaled=bool(scaled),
                        finite=bool(np.isfinite(np.linalg.norm(np.asarray(r.gradient, dtype=float)))), file=_read_file(fname)))
        return r
    the.calculate_likelihood_and_derivatives = spy
    r2 = the.estimate()
    return dict(names=names, fname=fname, first=first, before=before, log=log, after=_read_file(fname),
                init=float(r2.data.initLogLike), final=float(r2.data.logLike))


def judge_same_object(spec) -> Outcome:
    out = Outcome()
    workdir = tempfile.mkdtemp(prefix='verif_c15s_')
    try:
        res = isolate.call(_run_same_object, spec, workdir, timeout=300)
        if not res['ok']:
            out.fail(f'same_object:raises:{res["exc_type"]}', f'{res["exc_type"]}: {res["exc_msg"][:300]}')
            return out
        o = res['value']
        names = o['names']
        ref = ec.Reference(spec)
        where = (f' [object first {spec["first"]}d as {spec["model_name"]!r} (log likelihood {o["first"]!r}), then estimated as '
                 f'{spec["second_name"]!r} whose file held {spec["poor_point"]}, at most {spec["second_max_iter"]} iterations]')
        vec0 = parse_iteration_file(o['before'], names)
        if vec0 is None or not _same_bits(vec0, spec['poor_point']):
            out.fail('same_object:setup', f'file before the second estimation: {o["before"]!r}' + where)
            return out
        if o['log'] and not _same_bits(o['log'][0]['x'], spec['poor_point']):
            out.fail('same_object:starting_point', f'the second estimation starts at {o["log"][0]["x"]}, the file held {spec["poor_point"]}' + where)
            return out
        best_f, best_pts = None, []
        for t, e in enumerate(o['log']):
            f = ref.loglike(np.array(e['x']))  # the value of the stated likelihood at the evaluated point
            if e['finite']:
                if best_f is None or f > best_f + 1e-9 * (1 + abs(f)):
                    best_f, best_pts = f, [e['x']]
                elif abs(f - best_f) <= 1e-9 * (1 + abs(f)):
                    best_pts.append(e['x'])
            vec = parse_iteration_file(e['file'], names)
            if vec is None:
                out.fail('same_object:file_malformed', f'after evaluation {t + 1} of the second estimation the file is {e["file"]!r}' + where)
                return out
            if best_pts and not any(_same_bits(vec, p) for p in best_pts):
                out.fail('same_object:not_best_of_this_estimation',
                         f'after evaluation {t + 1} of the second estimation the file holds {vec}; the best point evaluated since '
                         f'that estimation started is {best_pts[0]} (log likelihood {best_f!r})' + where)
                return out
        improved = best_f is not None and best_f > ref.loglike(np.array(spec['poor_point'])) + 1e-6
        below_first = best_f is not None and best_f < o['first'] - 1e-6
        out.classes += [f'first={spec["first"]}', f'max_iter={spec["second_max_iter"]}', f'evaluations={min(len(o["log"]), 6)}',
                        'improved' if improved else 'not_improved', 'below_first' if below_first else 'reached_first']
        out.nontrivial = improved and below_first
    finally:
        shutil.rmtree(workdir, ignore_errors=True)
    return out


def render(spec):
    return (f'model {spec["model_name"]!r}: params {[p[0] for p in spec["params"]]} pole {spec["pole"]}, '
            f'{len(spec["points"])} evaluations at {spec["points"][:3]}..., then_estimate={spec["then_estimate"]}')[:500]


SUBCHECKS = [
    SubCheck('histories', strat, judge, render, dict(quick=120, thorough=3000),
             'sequences of 1-8 (thorough 15) likelihood+derivative evaluations at generated points (improving, worsening, '
             'repeated, adversarial floats such as -0.0, 1e-300, 0.1+0.2, optional pole giving non-finite derivatives) with '
             'save_iterations on; the file is inspected after every call; then a later estimation of the same model; then the '
             'history is re-run once per harness-visible step of every save with the process stopped there, followed by a '
             'restart; non-trivial: a worsening step after an improvement and a crash point strictly inside a save',
             max_skip_fraction=0.2),
    SubCheck('same_object', strat_same_object, judge_same_object,
             lambda c: f"object {c['first']}d as {c['model_name']!r}, then estimated as {c['second_name']!r} from {c['poor_point']} with {c['second_max_iter']} iterations",
             dict(quick=120, thorough=2500),
             'ONE object: estimated (or evaluated at the maximum) under one model name, then renamed to a name whose iteration file '
             '(left by another object) holds a poor point, and estimated again with 1-3 iterations; every evaluation of the second '
             'estimation is intercepted and the file read after it: it must hold the best point evaluated since that estimation '
             'started; non-trivial: the second estimation improves on the poor point and stays below the first result',
             max_skip_fraction=0.2),
]
RULE = ' | '.join(f'{s.name}: {s.rule}' for s in SUBCHECKS)
