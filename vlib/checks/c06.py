"""C06 Model family is consistent: special cases and generating functions agree."""
from __future__ import annotations

import math

import numpy as np
from hypothesis import strategies as st

from .. import build, gen, isolate, refsem
from .. import models_common as mc
from ..runner import Outcome, SubCheck

PROPERTY = 'C06'
LEVEL = 'exploration'
ASSUMPTIONS = [
    'two model expressions are compared on the same rows and parameter values through the compiled engine '
    '(differential), tolerance 1e-10 relative + 1e-12 absolute on probabilities',
    'ln(dG/dy_i) is obtained from the engine gradient of get_mev_generating_for_nested with respect to free '
    'parameters V_i standing for the utilities (dG/dV_i = y_i G_i), and compared with get_mev_for_nested at 1e-8',
]
BUDGETS = dict(quick=dict(shards=8), thorough=dict(shards=16))
BETA_POOL = ['B_TIME', 'b_cost', 'ASC_1', 'asc_2', 'B_10', 'b_2']


@st.composite
def strat_reductions(draw, tier):
    big = tier == 'thorough'
    n_alts = draw(st.integers(2, 6 if big else 5))
    alts = draw(st.lists(st.integers(0, 40), min_size=n_alts, max_size=n_alts, unique=True))
    table, info = draw(gen.tables(max_rows=4 if big else 3, alts=alts, n_int=(1, 1), n_bool=(1, 1)))
    kind = draw(st.sampled_from(['nested_all_one', 'cnl_degenerate', 'nested_mu_one', 'cnl_mu_one',
                                 'nested_tuple', 'cnl_tuple', 'nested_mu_tuple']))
    case = dict(table=table, alts=alts, kind=kind, utils=draw(mc.utilities(info, alts, BETA_POOL)),
                av=draw(mc.availabilities(info, alts, table)), nests=None, mu=None, log_gi=None, np_seed=0)
    case['av_order'] = list(draw(st.permutations(alts))) if draw(st.booleans()) else None
    case['nest_names'] = draw(st.sampled_from(['indexed', 'indexed', 'none', 'same']))
    if kind == 'nested_all_one':
        case['nests'] = draw(mc.nested_structure(alts, force_all_one=True))
    elif kind in ('nested_mu_one', 'nested_tuple', 'nested_mu_tuple'):
        case['nests'] = draw(mc.nested_structure(alts, below_one=kind == 'nested_tuple' and draw(st.booleans())))
    elif kind == 'cnl_degenerate':
        case['nests'] = draw(mc.cross_nested_structure(alts, degenerate=True, below_one=draw(st.booleans())))
    else:
        case['nests'] = draw(mc.cross_nested_structure(alts))
    if kind in ('nested_mu_one', 'cnl_mu_one'):
        case['mu'] = draw(st.sampled_from([['Lit', 1], ['Lit', 1.0], ['Num', 1.0], ['Beta', 'MU', 1.0, None, None, 1],
                                           ['Beta', 'MU', 1.0, 1.0, None, 0]]))
    if kind == 'nested_mu_tuple':
        mus = [mc._pv(m) for m, _ in case['nests']]
        case['mu'] = draw(mc.param_or_number(draw(gen.dyadic(1.0, max(1.0, min(mus)), 8)), 'MU'))
    return case


def _pair(case):
    """(model A, kwargs A, model B, kwargs B, nests for B) of the two sides to compare."""
    k = case['kind']
    if k == 'nested_all_one':
        return ('nested', {}), ('logit', {})
    if k == 'cnl_degenerate':
        return ('cnl', {}), ('nested', {'as_nested': True})
    if k == 'nested_mu_one':
        return ('nested_mu', {}), ('nested', {})
    if k == 'cnl_mu_one':
        return ('cnlmu', {}), ('cnl', {})
    if k == 'nested_tuple':
        return ('nested', {'tuple_syntax': True}), ('nested', {})
    if k == 'cnl_tuple':
        return ('cnl', {'tuple_syntax': True}), ('cnl', {})
    if k == 'nested_mu_tuple':
        return ('nested_mu', {'tuple_syntax': True}), ('nested_mu', {})
    raise ValueError(k)


def _num(x):
    return np.asarray(x, dtype=float).tolist()


def _observe_reductions(case):
    import biogeme.expressions as ex

    database = build.build_database(case['table'])
    (ma, ka), (mb, kb) = _pair(case)
    res = {'A': {}, 'B': {}, 'logA': {}, 'logB': {}}
    case_b = case
    if kb.get('as_nested'):
        # the same nests written as a nested-logit structure (alphas dropped)
        case_b = dict(case, nests=[[mu, [a for a, _ in alphas]] for mu, alphas in case['nests']])
    for a in case['alts']:
        ea = mc.model_expression(case, ma, ex.Numeric(a), tuple_syntax=ka.get('tuple_syntax', False))
        eb = mc.model_expression(case_b, mb, ex.Numeric(a), tuple_syntax=kb.get('tuple_syntax', False))
        res['A'][a] = _num(ea.get_value_c(database=database, betas=mc.evaluation_betas(case), prepare_ids=True))
        res['B'][a] = _num(eb.get_value_c(database=database, betas=mc.evaluation_betas(case), prepare_ids=True))
    return res


def judge_reductions(case) -> Outcome:
    out = Outcome()
    rows = build.table_rows(case['table'])
    alts = case['alts']
    kind = case['kind']
    try:
        avail = [mc.row_availability(case, r) for r in rows]
        for r in rows:
            V = mc.row_utilities(case, r)
            if max(abs(v) for v in V.values()) > 60:
                raise refsem.IllPosed('utilities too large')
    except (refsem.IllPosed, OverflowError) as e:
        out.skipped = 'ill-posed: ' + str(e)[:40]
        return out
    nested_alts = {(m[0] if isinstance(m, list) else m) for _, mem in case['nests'] for m in mem}
    alone = any(a not in nested_alts for a in alts)
    some_unavailable = any(not av[a] for av in avail for a in alts)
    out.nontrivial = (alone or some_unavailable) and len(case['nests']) >= 2
    out.classes += [f'kind={kind}', 'alone' if alone else 'all_nested',
                    'some_unavailable' if some_unavailable else 'all_available']
    res = isolate.call(_observe_reductions, case)
    if not res['ok']:
        out.fail(f'reduction:{kind}:raises:{res["exc_type"]}', f'{kind} raised {res["exc_type"]}: '
                                                              f'{res["exc_msg"][:300]} for {render(case)}')
        return out
    o = res['value']
    (ma, _), (mb, _) = _pair(case)
    for a in alts:
        pa, pb = o['A'][a], o['B'][a]
        for i, (x, y) in enumerate(zip(pa, pb)):
            if not (math.isfinite(x) and math.isfinite(y) and abs(x - y) <= 1e-10 * (abs(x) + abs(y)) + 1e-12):
                out.fail(f'reduction:{kind}', f'row {i}, alternative {a}: {ma} gives {x!r}, {mb} gives {y!r} for {render(case)}')
                return out
    return out


def render(case):
    u = '; '.join(f'{a}: {refsem.render(s)}' for a, s in case['utils'])
    av = 'full' if case['av'] is None else '; '.join(f'{a}: {refsem.render(s)}' for a, s in case['av'])
    return (f'{case.get("kind")}: V={{{u[:300]}}}, av={{{av[:150]}}}, nests={case["nests"]}, mu={case.get("mu")} '
            f'on {len(case["table"]["columns"][0][2])} rows')


# ---------------------------------------------------------------------------------------------
# generating function vs published ln dG/dy_i


@st.composite
def strat_generating(draw, tier):
    n_alts = draw(st.integers(2, 6))
    alts = draw(st.lists(st.integers(0, 40), min_size=n_alts, max_size=n_alts, unique=True))
    table, info = draw(gen.tables(max_rows=3, alts=alts, n_int=(1, 1), n_bool=(1, 1)))
    values = [draw(st.one_of(gen.dyadic(-2, 2), st.floats(-2, 2).map(lambda v: round(v, 3)))) for _ in alts]
    names = draw(st.permutations(['V_a', 'v_b', 'V_10', 'V_2', 'util_u', 'W_x'][:n_alts]))
    nests = draw(mc.nested_structure(alts))
    # nest parameters as plain numbers here: the utilities are the only free parameters
    nests = [[['Lit', mc._pv(mu)] if mu[0] == 'Beta' else mu, g] for mu, g in nests]
    return dict(table=table, alts=alts, names=list(names), values=values, nests=nests,
                av=draw(mc.availabilities(info, alts, table)), tuple_syntax=draw(st.booleans()), np_seed=0,
                nest_names=draw(st.sampled_from(['indexed', 'none', 'same'])))


def _observe_generating(case):
    import biogeme.models as models
    from biogeme.expressions import Beta

    database = build.build_database(case['table'])
    util = {a: Beta(n, v, None, None, 0) for a, n, v in zip(case['alts'], case['names'], case['values'])}
    av = mc.build_av(case)
    fake = dict(case, nests=case['nests'])
    nests = mc.build_nests(fake, 'nested', case['tuple_syntax'])
    G = models.get_mev_generating_for_nested(util, av, nests)
    r = G.get_value_and_derivatives(database=database, gradient=True, hessian=False, bhhh=False,
                                    aggregation=False, prepare_ids=True, named_results=True)
    res = {'G': _num(r.functions), 'dG': [{k: float(v) for k, v in g.items()} for g in r.gradients]}
    util2 = {a: Beta(n, v, None, None, 0) for a, n, v in zip(case['alts'], case['names'], case['values'])}
    nests2 = mc.build_nests(fake, 'nested', case['tuple_syntax'])
    log_gi = models.get_mev_for_nested(util2, mc.build_av(case), nests2)
    res['log_gi'] = {a: _num(e.get_value_c(database=database, betas=mc.evaluation_betas(case), prepare_ids=True)) for a, e in log_gi.items()}
    return res


def judge_generating(case) -> Outcome:
    out = Outcome()
    rows = build.table_rows(case['table'])
    alts = case['alts']
    fake = dict(case, utils=[[a, ['Num', v]] for a, v in zip(alts, case['values'])])
    avail = [mc.row_availability(fake, r) for r in rows]
    nested_alts = {a for _, g in case['nests'] for a in g}
    alone = [a for a in alts if a not in nested_alts]
    some_unavailable = any(not av[a] for av in avail for a in alts)
    out.nontrivial = bool(alone) or some_unavailable
    out.classes += ['alone' if alone else 'all_nested', 'some_unavailable' if some_unavailable else 'all_available']
    res = isolate.call(_observe_generating, case)
    if not res['ok']:
        out.fail(f'generating:raises:{res["exc_type"]}', f'generating function raised {res["exc_type"]}: '
                                                         f'{res["exc_msg"][:300]}')
        return out
    o = res['value']
    name_of = dict(zip(alts, case['names']))
    V = dict(zip(alts, case['values']))
    for i in range(len(rows)):
        # reference G from the definition
        g_ref = 0.0
        for mu_m, members in case['nests']:
            m = mc._pv(mu_m)
            s = sum(math.exp(m * V[a]) for a in members if avail[i][a])
            if s > 0:
                g_ref += s ** (1.0 / m)
        g_ref += sum(math.exp(V[a]) for a in alone)
        if not abs(o['G'][i] - g_ref) <= 1e-9 * (1 + abs(g_ref)):
            key = 'generating:value:alone' if alone else 'generating:value'
            out.fail(key, f'row {i}: G = {o["G"][i]!r} but sum_m (sum_j exp(mu_m V_j))^(1/mu_m) '
                          f'[+ sum_alone exp(V)] = {g_ref!r}; nests {case["nests"]}, alone {alone}, V {V}')
            return out
        for a in alts:
            if not avail[i][a]:
                continue
            dg = o['dG'][i].get(name_of[a])
            lg = o['log_gi'][a][i]
            if dg is None or not dg > 0:
                out.fail('generating:derivative_sign', f'row {i}: dG/dV_{a} = {dg!r}')
                return out
            want = math.log(dg) - V[a]  # dG/dV_i = y_i dG/dy_i
            if not abs(lg - want) <= 1e-8 * (1 + abs(want)):
                key = 'generating:log_derivative:alone' if a in alone else 'generating:log_derivative'
                out.fail(key, f'row {i}, alternative {a}: published ln G_i = {lg!r} but ln(dG/dV_i) - V_i = {want!r}; '
                              f'nests {case["nests"]}, alone {alone}, V {V}')
                return out
    return out


SUBCHECKS = [
    SubCheck('reductions', strat_reductions, judge_reductions, render, dict(quick=900, thorough=30000),
             'nested(all mu_m = 1) vs logit; CNL(disjoint nests, alpha = 1) vs nested; *_mu(mu = 1) vs unscaled; legacy tuple '
             'syntax vs nest objects; non-trivial: an alone or unavailable alternative and >= 2 nests', max_skip_fraction=0.2),
    SubCheck('generating', strat_generating, judge_generating,
             lambda c: f"G for nests {c['nests']} over alternatives {c['alts']} with V={c['values']}, av={'full' if c['av'] is None else 'columns'}",
             dict(quick=700, thorough=20000),
             'get_mev_generating_for_nested with utilities as free parameters: value vs definition, ln(dG/dV_i) - V_i vs '
             'get_mev_for_nested; non-trivial: an alone or unavailable alternative', max_skip_fraction=0.2),
]
RULE = ' | '.join(f'{s.name}: {s.rule}' for s in SUBCHECKS)
