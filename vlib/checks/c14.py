"""C14 What is written to disk reads back unchanged and never overwrites earlier output.

Five sub-checks

* ``pickle``   synthetic results objects -> write_pickle -> bioResults(pickle_file=...) (and the
  documented ``estimate(recycle=True)`` route): identical tables, statistics and reports.
* ``toml``     every admissible value of every configuration parameter: dump_file -> read_file gives
  ``==`` values of the same type, also after hand edits the reader documents (boolean spellings, removed
  entries) and after repeated dump/read cycles.
* ``tomlhist`` histories of one parameter object: created by reading a *hand-written* file (a generated
  subset of sections / entries, any order, comments, other spellings and layouts), then generated
  set_value / dump_file / read_file / add_parameter steps; after every dump a fresh object reads the file
  and must hold, for EVERY parameter (mentioned or not in any earlier file), the value of the dumping object,
  which in turn must be the value last set / last read / the default (reference model in the judge).
* ``reports``  HTML, LaTeX, F12 and the printed form are *read back* (table rows, fixed columns) and
  must show every estimated parameter with its value.
* ``history``  sequences of output-generating operations in one scratch directory that already
  contains files named like future outputs (names plain, in a sub-directory, './name', absolute): no
  pre-existing file is touched, every reported output name was free.

All file work happens in a private ``tempfile.mkdtemp()`` inside a forked child.
"""
from __future__ import annotations

import datetime
import hashlib
import math
import os
import re
import shutil
import tempfile
import tomllib
import traceback
import types

import numpy as np
import pandas as pd
import pandas.io.formats.style  # noqa: F401  (jinja2 templates are loaded here, once, not in every child)
import tomlkit.items as tki
from hypothesis import strategies as st

# heavy imports at module level: every forked child inherits them
import biogeme.biogeme as bio
import biogeme.check_parameters as bcp
import biogeme.database as bdb
import biogeme.exceptions as excep
import biogeme.filenames as bfn
import biogeme.optimization as bopt
import biogeme.parameters as bpar
import biogeme.results as bres
import biogeme.tools.files as bfiles
from biogeme import models as bmodels
from biogeme.default_parameters import ParameterTuple, all_parameters_tuple
from biogeme.expressions import Beta, Variable
from biogeme.function_output import BiogemeFunctionOutput

from .. import isolate
from ..runner import Outcome, SubCheck

PROPERTY = 'C14'
LEVEL = 'exploration'
ASSUMPTIONS = [
    'results objects are built by the library itself (RawResults + bioResults) from a stub model that '
    'carries the attributes RawResults reads; Hessians are symmetric, BHHH matrices are Gram matrices, '
    'log likelihoods are negative, a bootstrap sample needs >= 2 parameters (K=1 with bootstrap cannot '
    'be constructed: np.cov returns a 0-d array)',
    'admissible configuration values = type-correct by the declared type and accepted by the '
    'parameter\'s own check functions (NaN excluded: it cannot be ==); read-back type means the same '
    'python base class (bool/int/float/str), tomlkit returns subclasses',
    'if the installed tomlkit rejects multi-line comments (recorded as a finding of its own) the round '
    'trip is continued with Item.comment of tomlkit<0.13 (stores the text unchanged), biogeme code untouched',
    'hand-written parameter files are valid TOML 1.0 (each generated text is first read with the independent '
    'parser tomllib and must give the intended content: otherwise the harness stops with exit 2); booleans are '
    'written as the quoted spellings the reader documents; a file read into an object that already holds '
    'non-default values leaves a parameter it does not mention at the held value (or resets it to the default: '
    'both accepted, the model follows the object); entries of unknown names / of another section are ignored',
    'a report shows a value if the cell/field read back as a number agrees to 3 significant digits '
    '(HTML, LaTeX, printed form) or 1e-11 relative (F12); F12 labels are the first 10 characters',
    'file names may carry a directory part inside the scratch directory (sub/name, ./name, absolute); snapshot = '
    'sha256 + size of every regular file below the scratch directory, names compared after normalisation',
    'a model named X~NN is indistinguishable from the NN-th later file of model X by design: such pairs are '
    'not generated for the recycle scenarios',
]
BUDGETS = dict(quick=dict(shards=8), thorough=dict(shards=16))


def _lib():
    return types.SimpleNamespace(res=bres, par=bpar, bf=bfn, tf=bfiles, db=bdb)


_WARM = []


def _warm_up():
    """Run every report writer once in the calling process so that lazily imported pieces (pandas
    Styler, scipy.linalg kernels) are loaded before children are forked."""
    if _WARM:
        return
    _WARM.append(True)
    rs = dict(model='warm', dataname='d', names=['a', 'b'], values=[1.0, 2.0], bounds=[[None, None], [0.0, 5.0]],
              hessian_kind='negdef', hessian=[[-2.0, 0.5], [0.5, -3.0]], bhhh=[[2.0, 0.1], [0.1, 3.0]],
              bootstrap=[[1.0, 2.0], [1.1, 2.2], [0.9, 1.9]], loglike=-10.0, init_loglike=-12.0,
              null_loglike=-13.0, sample_size=10, observations=10, excluded=0, monte_carlo=False, draws=100,
              user_notes=None, converged=True, threads=1, threshold=None, gradient=[0.0, 0.0], messages=0)
    try:
        observables(make_results(_lib(), rs))
    except Exception:  # noqa: warming up only; the checks judge the same calls properly
        pass


# =============================================================================================
# synthetic results objects


BETA_NAMES = [
    'ASC_CAR', 'ASC_TRAIN', 'B_TIME', 'B_COST', 'B_TIME_S', 'beta1', 'beta2', 'MU', 'lambda',
    'B_HEADWAY_LONG_NAME', 'B_HEADWAY_LONG_NAME_2', 'b', 'B', 'sigma.1', 'coef 1', 'asc', 'ASC',
    'B_TIME_RND_STD', 'x10', 'x1',
]
MODEL_NAMES = ['m', 'm~00', 'my model', 'logit.v2', '01logit', 'b_dumped', 'nested_été']
GLOB_MODEL_NAMES = ['logit[1]', 'spec*', 'what?']
SIBLING_SUFFIXES = ['_bis', '2', '~', ' (2)', '.v2', '_1', 'x', '~bis', '-b']
DATA_NAMES = ['swissmetro', 'test', 'my data', 'm', 'd.2024']
USER_NOTES = [None, 'Example notes', 'first line; 50% of B_TIME, see <b>doc</b> & more']

_TS = re.compile(r'\d{4}-\d{2}-\d{2} \d{2}:\d{2}:\d{2}(\.\d+)?')


def _milli(lo, hi):
    return st.integers(int(lo * 1000), int(hi * 1000)).map(lambda i: i / 1000.0)


def _beta_values():
    powers = st.tuples(st.sampled_from([1.0, -1.0, 2.0, -5.0]), st.integers(-9, 9)).map(
        lambda t: t[0] * 10.0 ** t[1])
    # estimates of realistic magnitude: zero or 1e-12 <= |v| <= 1e15 (the F12 layout holds two-digit exponents)
    return st.one_of(
        st.integers(-10**9, 10**9).map(lambda i: i / 1e8),
        _milli(-5, 5),
        st.integers(-2000, 2000).map(float),
        powers,
        st.integers(-10**12, 10**12).map(lambda i: i / 1e6),
        st.sampled_from([0.0, 1e-12, -3.5e-7, 1e15, 123456.789, -0.0009996, 9.996, 99.95]),
    )


def _matmul_ldlt(L, d, scale):
    k = len(L)
    return [[-scale * sum(L[i][m] * d[m] * L[j][m] for m in range(k)) for j in range(k)]
            for i in range(k)]


@st.composite
def results_specs(draw, max_k=5, allow_none=True, model_names=None, glob_names=False):
    k = draw(st.integers(1, max_k))
    names = draw(st.lists(st.sampled_from(BETA_NAMES), min_size=k, max_size=k, unique=True))
    values = [draw(_beta_values()) for _ in range(k)]
    bounds = []
    for v in values:
        kind = draw(st.sampled_from(['none', 'none', 'both', 'lower_active', 'upper_active', 'lower_only']))
        w1, w2 = draw(_milli(0.5, 100)), draw(_milli(0.5, 100))
        bounds.append(dict(none=[None, None], both=[v - w1, v + w2], lower_active=[v, v + w2],
                           upper_active=[v - w1, v], lower_only=[v - w1, None])[kind])
    kinds = ['negdef'] * 6 + ['singular_zero', 'singular_dup', 'indefinite']
    if allow_none:
        kinds += ['none']
    hkind = draw(st.sampled_from(kinds))
    if k == 1 and hkind == 'singular_dup':
        hkind = 'singular_zero'
    hess = bhhh = None
    if hkind != 'none':
        L = [[(draw(_milli(-3, 3)) if j < i else (draw(_milli(0.5, 20)) if j == i else 0.0))
              for j in range(k)] for i in range(k)]
        d = [1.0] * k
        idx = draw(st.integers(0, k - 1))
        if hkind == 'singular_zero':
            L[idx] = [0.0] * k
        elif hkind == 'singular_dup':
            other = (idx + 1) % k
            L[idx] = list(L[other])
        elif hkind == 'indefinite':
            d[idx] = -1.0
        scale = draw(st.sampled_from([1.0, 1.0, 1.0, 1e-4, 1e4, 37.5]))
        hess = _matmul_ldlt(L, d, scale)
        n = draw(st.integers(1, 5))
        G = [[draw(_milli(-3, 3)) for _ in range(k)] for _ in range(n)]
        bhhh = [[scale * sum(G[r][i] * G[r][j] for r in range(n)) for j in range(k)] for i in range(k)]
    bootstrap = None
    if hkind != 'none' and k >= 2 and draw(st.integers(0, 2)) == 2:
        b = draw(st.integers(2, 5))
        bootstrap = [[values[j] + draw(_milli(-2, 2)) for j in range(k)] for _ in range(b)]
    loglike = -draw(st.one_of(_milli(0.01, 5000), st.floats(0.01, 1e6, allow_nan=False)))
    init = loglike - draw(_milli(0, 2000))
    null = None if draw(st.booleans()) else loglike - draw(_milli(0, 3000))
    sample = draw(st.one_of(st.integers(1, 50), st.integers(1, 100000)))
    extra = draw(st.sampled_from([0, 0, 1, 7, 1000]))
    pool = list(model_names or MODEL_NAMES)
    if glob_names:
        pool = pool * 2 + GLOB_MODEL_NAMES
    monte_carlo = draw(st.integers(0, 3)) == 3
    return dict(
        model=draw(st.sampled_from(pool)),
        dataname=draw(st.sampled_from(DATA_NAMES)),
        names=names, values=values, bounds=bounds,
        hessian_kind=hkind, hessian=hess, bhhh=bhhh, bootstrap=bootstrap,
        loglike=loglike, init_loglike=init, null_loglike=null,
        sample_size=sample, observations=sample + extra,
        excluded=draw(st.sampled_from([0, 0, 3, 120])),
        monte_carlo=monte_carlo,
        draws=draw(st.sampled_from([100, 2, 10000])),
        user_notes=draw(st.sampled_from(USER_NOTES)),
        converged=draw(st.sampled_from([True, True, True, False])),
        threads=draw(st.sampled_from([1, 4, 16])),
        threshold=draw(st.sampled_from([None, None, 1e-5, 1e-2, 10.0, 0.0])),
        gradient=[draw(_milli(-1, 1)) * 1e-3 for _ in range(k)] if hkind != 'none' else None,
        messages=draw(st.integers(0, 2)),
    )


class _StubDatabase:
    def __init__(self, rs):
        self.name = rs['dataname']
        self.typesOfDraws = {'xi_time': 'NORMAL_MLHS', 'xi cost': 'UNIFORMSYM'} if rs['monte_carlo'] else {}
        self.excludedData = rs['excluded']
        self._n, self._obs = rs['sample_size'], rs['observations']

    def get_sample_size(self):
        return self._n

    def get_number_of_observations(self):
        return self._obs


class _StubModel:
    """The attributes RawResults.__init__ reads from a BIOGEME object."""

    def __init__(self, rs):
        self.modelName = rs['model']
        self.user_notes = rs['user_notes']
        self.id_manager = types.SimpleNamespace(free_betas=types.SimpleNamespace(names=list(rs['names'])))
        self.initLogLike = rs['init_loglike'] if rs['hessian'] is not None else None
        self.nullLogLike = rs['null_loglike']
        self._bounds = {n: tuple(b) for n, b in zip(rs['names'], rs['bounds'])}
        self.database = _StubDatabase(rs)
        self.monte_carlo = rs['monte_carlo']
        self.number_of_draws = rs['draws']
        self.drawsProcessingTime = datetime.timedelta(microseconds=1234 if rs['monte_carlo'] else 9)
        msg = {
            'Relative gradient': np.float64(7.1579302902098e-05),
            'Cause of termination': 'Relative gradient = 7.2e-05 <= 0.00012',
            'Number of function evaluations': 7,
            'Number of iterations': 3,
            'Optimization time': datetime.timedelta(microseconds=21437),
        }
        if rs['messages'] >= 1:
            msg['Relative projected gradient'] = 3.14159265e-07
            msg['Algorithm'] = 'Newton with trust region for simple bound constraints'
        if rs['messages'] >= 2:
            msg['Relative change'] = np.float64(1.25e-09)
            msg['Proportion of Hessian calculation'] = '3/3 = 100.0%'
        self.optimizationMessages = msg
        self.convergence = rs['converged']
        self.number_of_threads = rs['threads']
        self.bootstrap_time = datetime.timedelta(microseconds=32182)

    def get_bounds_on_beta(self, name):
        return self._bounds[name]


def make_results(lib, rs):
    """bioResults built the way BIOGEME.estimate / quick_estimate build it."""
    if rs['hessian'] is None:
        fgh = BiogemeFunctionOutput(function=rs['loglike'], gradient=None, hessian=None, bhhh=None)
    else:
        fgh = BiogemeFunctionOutput(function=rs['loglike'], gradient=np.array(rs['gradient'], dtype=float),
                                    hessian=np.array(rs['hessian'], dtype=float),
                                    bhhh=np.array(rs['bhhh'], dtype=float))
    boot = None if rs['bootstrap'] is None else np.array(rs['bootstrap'], dtype=float)
    raw = lib.res.RawResults(_StubModel(rs), np.array(rs['values'], dtype=float), fgh, bootstrap=boot)
    return lib.res.bioResults(raw, identification_threshold=rs['threshold'])


def results_classes(rs):
    cl = [f'K={len(rs["names"])}', f'hessian={rs["hessian_kind"]}']
    if rs['bootstrap'] is not None:
        cl.append('bootstrap')
    if rs['null_loglike'] is not None:
        cl.append('null_loglike')
    if any(b[0] == v or b[1] == v for b, v in zip(rs['bounds'], rs['values'])):
        cl.append('active_bound')
    if rs['monte_carlo']:
        cl.append('monte_carlo')
    if rs['sample_size'] != rs['observations']:
        cl.append('panel')
    if not rs['converged']:
        cl.append('not_converged')
    return cl


def render_results(rs):
    est = ', '.join(f'{n}={v!r}' for n, v in zip(rs['names'], rs['values']))
    return (f"results(model={rs['model']!r}, K={len(rs['names'])}: {est}; hessian={rs['hessian_kind']}, "
            f"bootstrap={'%dx%d' % (len(rs['bootstrap']), len(rs['names'])) if rs['bootstrap'] else None}, "
            f"loglike={rs['loglike']!r}, null={rs['null_loglike']!r}, n={rs['sample_size']})")


# ---------------------------------------------------------------------------------------------
# canonical, comparable form of everything a results object shows


def _canon(o, depth=0):
    if depth > 8:
        return repr(o)
    if o is None or isinstance(o, (bool, str)):
        return o
    if isinstance(o, (int, np.integer)):
        return int(o)
    if isinstance(o, (float, np.floating)):
        f = float(o)
        return 'nan' if math.isnan(f) else f.hex()
    if isinstance(o, np.ndarray):
        return ['ndarray', list(o.shape), [_canon(x, depth + 1) for x in o.ravel().tolist()]]
    if isinstance(o, (list, tuple)):
        return [_canon(x, depth + 1) for x in o]
    if isinstance(o, dict):
        return [[_canon(k, depth + 1), _canon(v, depth + 1)] for k, v in o.items()]
    if isinstance(o, (datetime.timedelta, datetime.datetime)):
        return repr(o)
    if hasattr(o, '__dict__'):
        return [type(o).__name__, _canon(vars(o), depth + 1)]
    return repr(o)


def _frame(df):
    return [[str(c) for c in df.columns], [str(i) for i in df.index],
            [[_canon(x) for x in row] for row in df.values.tolist()]]


def _mask(text):
    return _TS.sub('<TIME>', text)


REPORT_KINDS = ['html:robust', 'html:all', 'latex:robust', 'latex:all', 'f12:robust', 'f12:plain', 'str']


def report_texts(r):
    """kind -> text, or ['!raises', type, message]."""
    calls = {
        'html:robust': lambda: r.get_html(only_robust=True),
        'html:all': lambda: r.get_html(only_robust=False),
        'latex:robust': lambda: r.get_latex(only_robust=True),
        'latex:all': lambda: r.get_latex(only_robust=False),
        'f12:robust': lambda: r.get_f12(robust_std_err=True),
        'f12:plain': lambda: r.get_f12(robust_std_err=False),
        'str': lambda: str(r),
    }
    out = {}
    for kind, fn in calls.items():
        try:
            out[kind] = fn()
        except Exception as e:  # noqa: judged by the caller
            out[kind] = ['!raises', type(e).__name__, str(e)[:200]]
    return out


def observables(r, light=False):
    """Everything a results object shows, in comparable form (light: the raw fields only)."""
    obs = {}

    def put(key, fn):
        try:
            obs[key] = fn()
        except Exception as e:  # noqa: compared like any other observable
            obs[key] = ['!raises', type(e).__name__, str(e)[:200]]

    for k, v in sorted(vars(r.data).items()):
        if k != 'pickleFileName':
            put('data:' + k, lambda v=v: _canon(v))
    if light:
        return obs
    put('table:estimated_parameters:robust', lambda: _frame(r.get_estimated_parameters(only_robust=True)))
    put('table:estimated_parameters:all', lambda: _frame(r.get_estimated_parameters(only_robust=False)))
    put('table:correlation', lambda: _frame(r.get_correlation_results()))
    put('table:var_covar', lambda: _frame(r.get_var_covar()))
    put('table:robust_var_covar', lambda: _frame(r.get_robust_var_covar()))
    put('table:bootstrap_var_covar',
        lambda: None if r.get_bootstrap_var_covar() is None else _frame(r.get_bootstrap_var_covar()))
    put('statistics:general', lambda: _canon({k: [v.value, v.format] for k, v in r.get_general_statistics().items()}))
    put('statistics:printed', lambda: r.print_general_statistics())
    put('statistics:beta_values', lambda: _canon(r.get_beta_values()))
    put('statistics:free_parameters', lambda: r.number_of_free_parameters())
    put('statistics:converged', lambda: bool(r.algorithm_has_converged()))
    put('statistics:varcovar_missing', lambda: bool(r.variance_covariance_missing()))
    put('report:short_summary', lambda: r.short_summary())
    for kind, text in report_texts(r).items():
        obs['report:' + kind] = _mask(text) if isinstance(text, str) else text
    return obs


# =============================================================================================
# sub-check 1: pickle round trip


def _tiny_biogeme(model_name, np_seed):
    """A real two-parameter logit with the given model name (for estimate / recycle)."""
    rng = np.random.RandomState(np_seed)
    n = 24
    df = pd.DataFrame({'x1': rng.randn(n), 'x2': rng.randn(n), 'ch': rng.randint(1, 3, size=n)})
    data = bdb.Database('tinydata', df)
    v = {1: Beta('b1', 0, None, None, 0) * Variable('x1'), 2: Beta('b2', 0, -5, 5, 0) * Variable('x2')}
    the = bio.BIOGEME(data, bmodels.loglogit(v, None, Variable('ch')), parameters=bpar.Parameters())
    the.modelName = model_name
    the.save_iterations = False
    return the


def _in_scratch(fn, *args):
    """Run fn(*args) with a fresh private directory as cwd; always remove it."""
    d = tempfile.mkdtemp(prefix='verif_c14_')
    old = os.getcwd()
    os.chdir(d)
    try:
        return fn(*args)
    finally:
        os.chdir(old)
        shutil.rmtree(d, ignore_errors=True)


def _observe_pickle(spec):
    return _in_scratch(_observe_pickle_here, spec)


def _observe_pickle_here(spec):
    lib = _lib()
    rs = spec['results']
    res = dict(stage='construct')
    r1 = make_results(lib, rs)
    siblings = spec.get('siblings') or []

    def save_siblings():
        saved = []
        for sib in siblings:
            rsib = make_results(lib, sib)
            saved.append(dict(model=sib['model'], file=rsib.write_pickle(), obs=observables(rsib, light=True)))
        res['siblings'] = saved

    if siblings and spec.get('siblings_first'):
        res['stage'] = 'siblings'
        save_siblings()
    res['stage'] = 'pre_writes'
    for w in spec['pre_writes']:
        dict(html=r1.write_html, latex=r1.write_latex, f12=r1.write_f12)[w]()
    res['obs0'] = observables(r1)
    res['stage'] = 'write_pickle'
    name = r1.write_pickle()
    res['name'] = name
    res['name_is_file'] = isinstance(name, str) and os.path.isfile(name)
    res['recorded_name'] = r1.data.pickleFileName
    res['obs_after_write'] = observables(r1, light=True)
    res['stage'] = 'load'
    r2 = lib.res.bioResults(pickle_file=name, identification_threshold=rs['threshold'])
    res['obs1'] = observables(r2)
    res['loaded_recorded_name'] = r2.data.pickleFileName
    if spec['generations'] >= 2:
        res['stage'] = 'write_pickle_2'
        name2 = r2.write_pickle()
        res['name2'] = name2
        res['stage'] = 'load_2'
        r3 = lib.res.bioResults(pickle_file=name2, identification_threshold=rs['threshold'])
        res['obs2'] = observables(r3)
    if siblings and not spec.get('siblings_first'):
        res['stage'] = 'siblings'
        save_siblings()
    if spec['recycle']:
        res['stage'] = 'recycle'
        before = sorted(os.listdir('.'))
        the = _tiny_biogeme(rs['model'], spec['np_seed'])
        the.generate_html = False
        the.generate_pickle = False
        if rs['threshold'] is not None:
            the.identification_threshold = rs['threshold']
        np.random.seed(spec['np_seed'])
        r4 = the.estimate(recycle=True)
        res['obs_recycle'] = observables(r4)
        for saved, sib in zip(res.get('siblings', []), siblings):
            res['stage'] = 'recycle_sibling'
            the = _tiny_biogeme(sib['model'], spec['np_seed'])
            the.generate_html = False
            the.generate_pickle = False
            if sib['threshold'] is not None:
                the.identification_threshold = sib['threshold']
            saved['obs_recycle'] = observables(the.estimate(recycle=True), light=True)
        res['recycle_new_files'] = sorted(set(os.listdir('.')) - set(before))
        res['files'] = sorted(os.listdir('.'))
    res['stage'] = 'done'
    return res


_RAW_INPUTS = ['data:betaNames', 'data:betaValues', 'data:H', 'data:bhhh', 'data:bootstrap', 'data:betas',
               'data:logLike', 'data:initLogLike', 'data:nullLogLike', 'data:sampleSize', 'data:nparam']


def _diff_obs(out, a, b, key_prefix, what):
    """One failure per comparison, keyed by the most upstream observable that differs (raw fields of
    the results first, then the remaining fields, tables, statistics, reports)."""
    names = list(a) + [k for k in b if k not in a]
    differing = [k for k in names if k not in a or k not in b or a[k] != b[k]]
    if not differing:
        return

    def rank(k):
        if k in _RAW_INPUTS:
            return (0, _RAW_INPUTS.index(k))
        return (1 + ['data', 'table', 'statistics', 'report'].index(k.split(':')[0]), 0)

    first = min(differing, key=rank)
    fam = ':'.join(first.split(':')[:2])
    if first not in b:
        out.fail(f'{key_prefix}:missing:{fam}', f'{what}: {first} is absent afterwards; differing: {differing[:12]}')
        return
    if first not in a:
        out.fail(f'{key_prefix}:extra:{fam}', f'{what}: {first} appears only afterwards; differing: {differing[:12]}')
        return
    sa, sb = str(a[first]), str(b[first])
    i = next((j for j in range(min(len(sa), len(sb))) if sa[j] != sb[j]), min(len(sa), len(sb)))
    out.fail(f'{key_prefix}:differs:{fam}',
             f'{what}: {first} differs: ...{sa[max(0, i - 60):i + 60]!r} vs ...{sb[max(0, i - 60):i + 60]!r}; '
             f'all differing observables: {differing[:12]}')


def judge_pickle(spec) -> Outcome:
    out = Outcome()
    rs = spec['results']
    out.classes += results_classes(rs)
    out.classes += [f'pre_writes={len(spec["pre_writes"])}', f'generations={spec["generations"]}']
    glob_name = any(c in rs['model'] for c in '[]*?')
    if spec['recycle']:
        out.classes.append('recycle' + (':glob_chars_in_name' if glob_name else ''))
    out.nontrivial = len(rs['names']) >= 2 and rs['hessian'] is not None
    _warm_up()
    res = isolate.call(_observe_pickle, spec)
    if not res['ok']:
        out.fail(f'pickle:raises:{res["exc_type"]}',
                 f'{render_results(rs)}: round trip raised {res["exc_type"]}: {res["exc_msg"][:300]}\n{res["tb"][-600:]}')
        return out
    v = res['value']
    what = render_results(rs)
    if not v['name_is_file']:
        out.fail('pickle:write:no_file', f'{what}: write_pickle returned {v["name"]!r}, which is not a file')
    if v['recorded_name'] != v['name'] or v['loaded_recorded_name'] != v['name']:
        out.fail('pickle:write:recorded_name',
                 f'{what}: file {v["name"]!r} but the object records {v["recorded_name"]!r} / the loaded one '
                 f'{v["loaded_recorded_name"]!r}')
    _diff_obs(out, {k: x for k, x in v['obs0'].items() if k.startswith('data:')}, v['obs_after_write'],
              'pickle:write_changes_object', what + ' [object after write_pickle]')
    _diff_obs(out, v['obs0'], v['obs1'], 'pickle:roundtrip', what + ' [loaded from ' + repr(v['name']) + ']')
    if 'obs2' in v:
        if v['name2'] == v['name']:
            out.fail('pickle:second_write:same_name', f'{what}: second write_pickle reused {v["name"]!r}')
        _diff_obs(out, v['obs0'], v['obs2'], 'pickle:roundtrip2', what + ' [second generation]')
    def recycle_compare(model, saved_obs, got_obs, file_name):
        """estimate(recycle=True) of `model` must give the results saved for that model."""
        probe_ = Outcome()
        _diff_obs(probe_, saved_obs, got_obs, 'pickle:recycle',
                  f'model {model!r} [estimate(recycle=True) with its own {file_name!r} among {v["files"]}]')
        if not probe_.failures:
            return
        loaded = got_obs.get('data:modelName')
        if isinstance(loaded, str) and loaded != model and loaded in [rs['model']] + [x['model'] for x in siblings]:
            # the results of another model saved in the same directory came back
            tag = 'tilde_suffix_name' if loaded.startswith(model + '~') else 'other_name'
            out.fail(f'pickle:recycle:loads_other_model:{tag}',
                     f'estimate(recycle=True) of model {model!r} returns the results saved for model {loaded!r} '
                     f'(files: {v["files"]}; its own results are in {file_name!r})')
        else:
            out.failures.extend(probe_.failures)

    siblings = spec.get('siblings') or []
    if siblings:
        out.classes.append('recycle:sibling_models=' + '+'.join(
            sorted({'suffix ' + repr(x['model'][len(rs['model']):]) if x['model'].startswith(rs['model'])
                    else 'prefix (target has suffix ' + repr(rs['model'][len(x['model']):]) + ')'
                    for x in siblings})))
    if 'obs_recycle' in v and siblings:
        recycle_compare(rs['model'], {k: x for k, x in v['obs0'].items()}, v['obs_recycle'], v['name'])
        for saved in v.get('siblings', []):
            if 'obs_recycle' in saved:
                recycle_compare(saved['model'], saved['obs'], saved['obs_recycle'], saved['file'])
    elif 'obs_recycle' in v:
        probe = Outcome()
        _diff_obs(probe, v['obs0'], v['obs_recycle'], 'pickle:recycle',
                  what + f' [estimate(recycle=True) with {v["name"]!r} present]')
        if probe.failures and glob_name:
            # one root cause, one key: the saved file is not found, the model is estimated again
            out.fail('pickle:recycle:glob_chars_in_name',
                     f'model name {rs["model"]!r}: estimate(recycle=True) does not load the saved {v["name"]!r} '
                     f'(files_of_type passes the name to glob unescaped) and estimates again; '
                     f'first difference: {probe.failures[0].msg[-300:]}')
        else:
            out.failures += probe.failures
    return out


@st.composite
def strat_pickle(draw, tier):
    recycle = draw(st.integers(0, 5)) >= 4
    rs = draw(results_specs(max_k=6 if tier == 'thorough' else 5, glob_names=recycle))
    pre = draw(st.lists(st.sampled_from(['html', 'latex', 'f12']), max_size=2, unique=True)) \
        if rs['hessian'] is not None else []
    siblings, first = [], False
    if recycle and draw(st.integers(0, 2)) >= 1:
        # other models saved in the same directory whose names extend this model's name, or the reverse
        # (not '~NN': that is the numbering of the model's own later files)
        suffixes = draw(st.lists(st.sampled_from(SIBLING_SUFFIXES), min_size=1, max_size=2, unique=True))
        base = rs['model']
        if draw(st.booleans()):
            rs['model'] = base + suffixes[0]       # the target carries the suffix, a sibling is its proper prefix
            names = [base] + [base + x for x in suffixes[1:]]
        else:
            names = [base + x for x in suffixes]
        for n in names:
            siblings.append(draw(results_specs(max_k=2, allow_none=False, model_names=[n])))
        first = draw(st.booleans())
    return dict(results=rs, pre_writes=pre, generations=draw(st.sampled_from([1, 1, 2])),
                recycle=recycle, siblings=siblings, siblings_first=first, np_seed=draw(st.integers(0, 2**31 - 1)))


# =============================================================================================
# sub-check 3: reports read back


def _sig3_close(shown: float, v: float) -> bool:
    if v == 0:
        return shown == 0
    if not math.isfinite(shown):
        return False
    e = math.floor(math.log10(abs(v)))
    return abs(shown - v) <= 0.5 * 10.0 ** (e - 2) * (1 + 1e-9) + 1e-300


def _to_float(s):
    try:
        return float(s)
    except (TypeError, ValueError):
        return None


def _unreadable_cause(cell):
    if re.fullmatch(r'-?\d(\.\d+)?e[+-]\d+\.0', cell.strip()):
        return 'exponent_dot0'
    return 'other'


def read_html_parameters(text):
    """name -> shown value cell of the 'Estimated parameters' table (None if no such table)."""
    m = re.search(r'<h1>Estimated parameters</h1>(.*?)</table>', text, re.S)
    if not m:
        return None
    rows = re.findall(r'<tr[^>]*>(.*?)</tr>', m.group(1), re.S)
    if not rows:
        return None
    header = re.findall(r'<th[^>]*>(.*?)</th>', rows[0], re.S)
    if 'Value' not in header:
        return None
    col = header.index('Value')
    shown = {}
    for row in rows[1:]:
        cells = re.findall(r'<td[^>]*>(.*?)</td>', row, re.S)
        if len(cells) > col:
            shown.setdefault(cells[0], []).append(cells[col])
    return shown


def read_latex_parameters(text):
    m = re.search(r'\\section\{Parameter estimates\}(.*?)\\section\{Correlation\}', text, re.S)
    if not m:
        return None
    lines = [ln for ln in m.group(1).splitlines() if '&' in ln]
    if not lines:
        return None

    def cells(ln):
        ln = ln.rstrip()
        if ln.endswith('\\\\'):
            ln = ln[:-2]
        return [c.strip() for c in ln.split('&')]

    header = cells(lines[0])
    if 'Value' not in header:
        return None
    col = header.index('Value')
    shown = {}
    for ln in lines[1:]:
        c = cells(ln)
        if len(c) > col:
            shown.setdefault(c[0], []).append(c[col])
    return shown


def read_f12_parameters(text, k):
    """list of (label field, value field) by the fixed columns the format prescribes."""
    lines = text.split('\n')
    if len(lines) < 4 + k or lines[2] != 'END':
        return None
    rows = lines[3:3 + k]
    if lines[3 + k].strip() != '-1':
        return None
    return [(ln[5:15], ln[18:38]) for ln in rows]


def read_printed_parameters(text):
    shown = {}
    for ln in text.splitlines():
        if ':' not in ln:
            continue
        head, _, tail = ln.partition(':')
        cell = tail.split('[')[0].strip()
        shown.setdefault(head.strip(), []).append(cell)
    return shown


def check_report_text(out, kind, text, names, values, what):
    """Read one report back and require every parameter name with its value."""
    fam = kind.split(':')[0]
    if fam == 'f12':
        rows = read_f12_parameters(text, len(names))
        if rows is None:
            out.fail('reports:f12:layout', f'{what}: {kind}: no block of {len(names)} coefficient lines '
                                           f'between END and -1:\n{text[:400]}')
            return
        for (label, cell), n, v in zip(rows, names, values):
            if label != f'{n[:10]:>10}':
                out.fail('reports:f12:missing_parameter',
                         f'{what}: {kind}: label field {label!r} where parameter {n!r} is expected')
                return
            shown = _to_float(cell)
            if shown is None:
                out.fail('reports:f12:value_unreadable', f'{what}: {kind}: value field {cell!r} of {n!r}')
                return
            if not (shown == v or abs(shown - v) <= 1e-11 * abs(v)):
                out.fail('reports:f12:value_mismatch', f'{what}: {kind}: {n!r} shown as {cell!r}, value {v!r}')
                return
        return
    shown_all = dict(html=read_html_parameters, latex=read_latex_parameters,
                     str=read_printed_parameters)[fam](text)
    if shown_all is None:
        out.fail(f'reports:{fam}:no_parameter_table', f'{what}: {kind}: no table of estimated parameters found')
        return
    for n, v in zip(names, values):
        cells = shown_all.get(n)
        if not cells:
            out.fail(f'reports:{fam}:missing_parameter',
                     f'{what}: {kind}: parameter {n!r} is not listed (listed: {sorted(shown_all)[:12]})')
            return
        if len(cells) > 1:
            out.fail(f'reports:{fam}:listed_twice', f'{what}: {kind}: parameter {n!r} listed {len(cells)} times')
            return
        shown = _to_float(cells[0])
        if shown is None:
            out.fail(f'reports:{fam}:value_unreadable:{_unreadable_cause(cells[0])}',
                     f'{what}: {kind}: value of {n!r} ({v!r}) is shown as {cells[0]!r}, which is not a number')
            return
        if not _sig3_close(shown, v):
            out.fail(f'reports:{fam}:value_mismatch',
                     f'{what}: {kind}: {n!r} shown as {cells[0]!r}, value {v!r}')
            return


def judge_reports(spec) -> Outcome:
    out = Outcome()
    lib = _lib()
    rs = spec['results']
    out.classes += results_classes(rs)
    names, values = rs['names'], rs['values']
    no_hessian = rs['hessian'] is None
    out.nontrivial = len(names) >= 2 and not no_hessian
    if any(re.fullmatch(r'-?\de[+-]\d+', f'{v:.3g}') for v in values):
        out.classes.append('value_prints_as_bare_exponent')
    what = render_results(rs)
    try:
        r = make_results(lib, rs)
    except Exception as e:  # noqa
        out.fail(f'reports:construct:raises:{type(e).__name__}', f'{what}: bioResults(...) raised {e!r}')
        return out
    texts = report_texts(r)
    for kind in REPORT_KINDS:
        text = texts[kind]
        fam = kind.split(':')[0]
        if not isinstance(text, str):
            if no_hessian:
                out.fail(f'reports:no_hessian:{fam}',
                         f'{what}: results without second derivatives (quick_estimate): {kind} report raises '
                         f'{text[1]}: {text[2]}')
            else:
                out.fail(f'reports:{fam}:raises:{text[1]}', f'{what}: {kind} report raises {text[1]}: {text[2]}')
            continue
        check_report_text(out, kind, text, names, values, what)
    return out


@st.composite
def strat_reports(draw, tier):
    return dict(results=draw(results_specs(max_k=7 if tier == 'thorough' else 5)))


# =============================================================================================
# sub-check 2: configuration file round trip

TRUE_SPELLINGS = ['True', 'true', 'Yes', 'yes']
FALSE_SPELLINGS = ['False', 'false', 'No', 'no']
TOML_FILE_NAMES = ['biogeme.toml', 'my params.toml', 'p.v2.toml', 'été.toml']

_INT_EXTREMES = [0, 1, 2, 2**31 - 1, 2**31, 2**53 + 1, 2**63 - 1, 2**63, 2**64, 10**30]
_FLOAT_EXTREMES = [5e-324, 2.2250738585072014e-308, 1.7976931348623157e308, 1e-5, 0.1, 1.0 / 3.0, 1e22,
                   1e16, 123456789.12345678, float('inf'), 1e-300, 0.30000000000000004]


def _catalogue():
    """(name, section, declared type name, names of the check functions, default) from the library."""
    return [(p.name, p.section, p.type.__name__, tuple(c.__name__ for c in (p.check or ())), p.value)
            for p in all_parameters_tuple()]


def _enc(v):
    if isinstance(v, bool):
        return ['b', v]
    if isinstance(v, int):
        return ['i', int(v)]
    if isinstance(v, float):
        return ['f', float(v).hex()]
    if isinstance(v, str):
        return ['s', str(v)]
    return ['?', type(v).__name__ + ':' + repr(v)]


def _dec(t):
    kind, payload = t
    if kind == 'f':
        return float.fromhex(payload)
    return payload


def _admissible_values(type_name, checks):
    """Strategy of encoded admissible values, from the declared type and the names of the checks."""
    if type_name == 'bool':
        return st.booleans().map(_enc)
    if type_name == 'str':
        if 'check_algo_name' in checks:
            return st.sampled_from(['automatic'] + list(bopt.algorithms.keys())).map(_enc)
        return st.one_of(st.text(max_size=30), st.sampled_from(
            ['3.2.14', '', 'True', 'no', 'a"b', "it's", 'back\\slash', 'two\nlines', 'tab\there', '# not a comment',
             'x = 1', '[Section]', 'é ü 日本', '\x00\x7f', "'''", '"""'])).map(_enc)
    lo_excl = 'is_positive' in checks
    lo = 0 if (lo_excl or 'is_non_negative' in checks or 'zero_one' in checks) else None
    hi = 1 if 'zero_one' in checks else None
    ints = st.one_of(st.sampled_from(_INT_EXTREMES), st.integers(0, 10**6), st.integers(0, 10**40))
    if lo is None:
        ints = st.one_of(ints, ints.map(lambda i: -i))
    if lo_excl:
        ints = ints.map(lambda i: max(i, 1))
    if hi is not None:
        ints = st.sampled_from([0, 1])
    if 'is_integer' in checks:
        return ints.map(_enc)
    floats = st.one_of(st.sampled_from(_FLOAT_EXTREMES), st.floats(min_value=0, allow_nan=False),
                       st.floats(min_value=0, max_value=1))
    if lo is None:
        floats = st.one_of(floats, floats.map(lambda x: -x))
    if hi is not None:
        floats = st.one_of(st.floats(min_value=0, max_value=1), st.sampled_from(
            [0.0, 1.0, 0.5, 5e-324, 1 - 2**-53, 1.0 / 3.0]))
    if lo_excl:
        floats = floats.filter(lambda x: x > 0)
    # a float-typed parameter also accepts integers (defaults such as initial_radius = 1 are integers)
    return st.one_of(floats, floats, floats, ints).map(_enc)


@st.composite
def strat_toml(draw, tier):
    cat = _catalogue()
    settings_ = []
    percent = draw(st.sampled_from([12, 50, 50, 95]))  # few, about half, nearly all parameters set
    for name, section, tname, checks, _default in cat:
        if draw(st.integers(0, 99)) >= 100 - percent:
            settings_.append([name, section, draw(_admissible_values(tname, checks))])
    bool_names = [c[0] for c in cat if c[2] == 'bool']
    respell = {n: draw(st.integers(1, 3)) for n in bool_names if draw(st.integers(0, 3)) == 3}
    drop = [c[0] for c in cat if draw(st.integers(0, 24)) == 24]
    return dict(settings=settings_, respell=respell, drop=drop, extras=draw(st.integers(0, 3)) == 3,
                cycles=draw(st.sampled_from([1, 1, 2, 3])),
                file_name=draw(st.sampled_from(TOML_FILE_NAMES)),
                use_section=draw(st.booleans()))


def _old_tomlkit_comment(self, comment):
    """Item.comment as in tomlkit < 0.13: the text is stored unchanged."""
    if not comment.strip().startswith('#'):
        comment = '# ' + comment
    self._trivia.comment_ws = ' '
    self._trivia.comment = comment
    return self


def _read_all(par_module, params):
    got = {}
    for key, tup in params.all_parameters_dict.items():
        got[f'{key.section}/{key.name}'] = _enc(params.get_value(key.name, key.section))
    return got


def _observe_toml(spec):
    return _in_scratch(_observe_toml_here, spec)


def _observe_toml_here(spec):
    lib = _lib()
    res = dict(stage='set', native_dump_error=None, inadmissible=None)
    p = lib.par.Parameters()
    defaults = _read_all(lib.par, p)
    for name, section, enc in spec['settings']:
        try:
            p.set_value(name, _dec(enc), section if spec['use_section'] else None)
        except excep.BiogemeError as e:
            res['inadmissible'] = f'{name}={_dec(enc)!r}: {e}'
            return res
    res['expected'] = _read_all(lib.par, p)
    res['defaults'] = defaults
    fname = spec['file_name']
    res['stage'] = 'dump'
    try:
        p.dump_file(fname)
    except ValueError as e:
        if 'line breaks' not in str(e):
            raise
        res['native_dump_error'] = f'{type(e).__name__}: {e}'
        tki.Item.comment = _old_tomlkit_comment  # child process only
        if os.path.exists(fname):
            os.remove(fname)
        p.dump_file(fname)
    res['expected_after_dump'] = _read_all(lib.par, p)
    # hand edits the reader documents: other spellings of a boolean, entries removed (default applies)
    with open(fname, encoding='utf-8') as f:
        text = f.read()
    res['edits_applied'] = 0
    for name, which in spec['respell'].items():
        def swap(m, which=which):
            table = TRUE_SPELLINGS if m.group(2) == 'True' else FALSE_SPELLINGS
            return f'{m.group(1)}"{table[which]}"'
        text, n = re.subn(rf'(?m)^({re.escape(name)} = )"(True|False)"', swap, text)
        res['edits_applied'] += n
    for name in spec['drop']:
        text, n = re.subn(rf'(?m)^{re.escape(name)} = [^\n]*\n', '', text, count=1)
        res['edits_applied'] += n
    if spec.get('extras'):
        # entries and sections the reader documents as ignored
        text, n = re.subn(r'(?m)^\[Estimation\]\n', '[Estimation]\nnot_a_biogeme_parameter = 12\n', text, count=1)
        res['edits_applied'] += n
        text += '\n[SomeOtherTool]\nnumber_of_draws = 7\ngenerate_html = "False"\n'
    with open(fname, 'w', encoding='utf-8') as f:
        f.write(text)
    res['file_text'] = text[:6000]
    res['reads'] = []
    current = fname
    for cycle in range(spec['cycles']):
        res['stage'] = f'read:{cycle}'
        q = lib.par.Parameters()
        q.read_file(current)
        res['reads'].append(_read_all(lib.par, q))
        if cycle + 1 < spec['cycles']:
            res['stage'] = f'redump:{cycle}'
            current = f'cycle{cycle + 1}_{fname}'
            q.dump_file(current)
    res['stage'] = 'done'
    return res


def judge_toml(spec) -> Outcome:
    out = Outcome()
    n_set = len(spec['settings'])
    kinds = sorted({e[2][0] for e in spec['settings']})
    out.classes += [f'set:{k}' for k in kinds]
    out.classes.append(f'cycles={spec["cycles"]}')
    if spec['respell']:
        out.classes.append('boolean_respelled')
    if spec['drop']:
        out.classes.append('entries_removed')
    if spec.get('extras'):
        out.classes.append('unknown_entries_added')
    for name, section, enc in spec['settings']:
        v = _dec(enc)
        if enc[0] == 'f' and (math.isinf(v) or abs(v) >= 1e300 or (v != 0 and abs(v) < 1e-300)):
            out.classes.append('extreme_float')
        if enc[0] == 'i' and abs(v) >= 2**63:
            out.classes.append('int_beyond_64_bits')
        if enc[0] == 's' and name == 'optimization_algorithm':
            out.classes.append(f'algorithm={v}')
        if enc[0] == 's' and name != 'optimization_algorithm' and any(c in v for c in '"\\\n#\x00'):
            out.classes.append('string_needing_escape')
    res = isolate.call(_observe_toml, spec)
    shown = ', '.join(f'{n}={_dec(e)!r}' for n, _, e in spec['settings'][:8])
    what = f'Parameters with {n_set} values set ({shown}{"..." if n_set > 8 else ""})'
    if not res['ok']:
        out.fail(f'toml:raises:{res["exc_type"]}',
                 f'{what}: {res["exc_type"]}: {res["exc_msg"][:300]}\n{res["tb"][-700:]}')
        return out
    v = res['value']
    if v['inadmissible']:
        out.skipped = 'value refused by set_value'
        return out
    expected = dict(v['expected'])
    n_changed = sum(1 for k in expected if expected[k] != v['defaults'][k])
    out.nontrivial = n_changed >= 5
    if v['native_dump_error']:
        out.fail('toml:dump_file:multiline_comment',
                 f'Parameters.dump_file cannot write any file with the installed tomlkit: {v["native_dump_error"]} '
                 f'(generate_document attaches the multi-line text of format_comment as an item comment)')
    wanted_edits = len(spec['respell']) + len(spec['drop']) + (1 if spec.get('extras') else 0)
    if v['edits_applied'] != wanted_edits:
        out.classes.append('edit_not_applicable')  # the file is not laid out as `name = "True"` lines
    if v['expected_after_dump'] != v['expected']:
        out.fail('toml:dump_changes_values', f'{what}: dump_file changed the values held by the object')
    for name in spec['drop']:
        for k in expected:
            if k.split('/', 1)[1] == name:
                expected[k] = v['defaults'][k]
    for cycle, got in enumerate(v['reads']):
        for k, exp in expected.items():
            g = got.get(k)
            tag = f'cycle{cycle + 1}' if cycle else 'roundtrip'
            if g is None:
                out.fail(f'toml:{tag}:{exp[0]}:missing', f'{what}: {k} absent after read_file')
                continue
            if g[0] != exp[0]:
                out.fail(f'toml:{tag}:{exp[0]}:type',
                         f'{what}: {k} was {_dec(exp)!r} ({exp[0]}), read back as {_dec(g)!r} ({g[0]})')
            elif not (_dec(g) == _dec(exp)):
                out.fail(f'toml:{tag}:{exp[0]}:value',
                         f'{what}: {k} was {_dec(exp)!r}, read back as {_dec(g)!r} (cycle {cycle + 1})')
    return out


def render_toml(spec):
    s = ', '.join(f'{sec}.{n}={_dec(e)!r}' for n, sec, e in spec['settings'][:10])
    return (f"set {len(spec['settings'])} parameters ({s}{'...' if len(spec['settings']) > 10 else ''}); "
            f"dump_file({spec['file_name']!r}); respell={spec['respell']}; removed={spec['drop']}; "
            f"unknown entries added={spec.get('extras')}; "
            f"{spec['cycles']} read/dump cycle(s)")


# =============================================================================================
# sub-check 2b: histories of one parameter object that starts from a hand-written file

USER_FILE_NAMES = ['biogeme.toml', 'my params.toml', 'p.v2.toml', 'été.toml', 'user.toml']
DUMP_FILE_NAMES = ['out.toml', 'second.toml', 'biogeme.toml', 'my params.toml', 'copy of p.toml']
MISSING_FILE_NAMES = ['not_there.toml', 'new file.toml']
HEADER_COMMENTS = ['my settings', 'Default parameter file for Biogeme 3.2.14', 'edited by hand, 50% done', '',
                   '[Estimation]', 'bootstrap_samples = 7', 'é ü 日本', 'tab\there']
ENTRY_COMMENTS = ['fewer samples', 'see https://biogeme.epfl.ch/#parameters', 'was = 100 "before"', 'é ü 日本',
                  '[NotASection]', 'x = 1 # nested', '', "it's fine"]
# entries the reader documents as ignored ('Entry ... in Section ... is ignored by Biogeme'): an unknown
# name, and names that are parameters of ANOTHER section (placed only where (section, name) is unknown)
STRAY_ENTRIES = [['not_a_biogeme_parameter', '12'], ['number_of_draws', '3'], ['generate_html', '"False"'],
                 ['dogleg', '"no"'], ['tolerance', '0.5'], ['version', '"0.0"']]
# parameters a user adds with add_parameter (name, section, declared type, default); two of them carry
# the name of a library parameter of another section
EXTRA_PARAMETERS = [
    ['my_option', 'Estimation', 'int', ['i', 3]],
    ['user_flag', 'UserSection', 'bool', ['b', False]],
    ['label', 'Output', 'str', ['s', 'run 1']],
    ['scale', 'SimpleBounds', 'float', ['f', (2.5).hex()]],
    ['seed', 'Estimation', 'int', ['i', 11]],
    ['max_iterations', 'TrustRegion', 'int', ['i', 77]],
]
_EXTRA_CHECKS = dict(int=('is_integer',), bool=('is_boolean',), float=('is_number',), str=())
_PY_TYPES = dict(int=int, bool=bool, float=float, str=str)


def _extra_tuple(idx):
    name, section, tname, default = EXTRA_PARAMETERS[idx]
    checks = tuple(getattr(bcp, c) for c in _EXTRA_CHECKS[tname]) or None
    return ParameterTuple(name=name, value=_dec(default), type=_PY_TYPES[tname], section=section,
                          description=f'{tname}: parameter number {idx} defined by the user of the library.',
                          check=checks)


def _toml_basic_body(s):
    """Body of a TOML basic string: quote, backslash and every control / line-separator character escaped."""
    buf = []
    for ch in s:
        o = ord(ch)
        if ch == '"':
            buf.append('\\"')
        elif ch == '\\':
            buf.append('\\\\')
        elif o < 0x20 or 0x7f <= o <= 0x9f or o in (0x2028, 0x2029):
            buf.append('\\u%04X' % o)
        else:
            buf.append(ch)
    return ''.join(buf)


def _literal_possible(s):
    return all(ch != "'" and (ord(ch) >= 0x20 or ch == '\t') and not 0x7f <= ord(ch) <= 0x9f
               and ord(ch) not in (0x2028, 0x2029) for ch in s)


def _toml_literal(enc, style):
    """How a user would write the value by hand; `style` selects one of the spellings TOML allows.
    Returns (text, python value an independent TOML parser must give)."""
    kind, v = enc[0], _dec(enc)
    if kind == 'b':
        word = (TRUE_SPELLINGS if v else FALSE_SPELLINGS)[style % 4]
        q = '"' if (style // 4) % 2 == 0 else "'"
        return f'{q}{word}{q}', word
    if kind == 'i':
        how = style % 4
        if how == 1 and v >= 0:
            return f'+{v}', v
        if how == 2:
            return f'{v:_}', v
        if how == 3 and v >= 0:
            return hex(v), v
        return str(v), v
    if kind == 'f':
        how = style % 4
        if math.isinf(v):
            return ('+inf' if how == 2 and v > 0 else ('inf' if v > 0 else '-inf')), v
        text = repr(v)
        if how == 1:
            text = text.replace('e', 'E')
        elif how == 2 and math.copysign(1.0, v) > 0:
            text = '+' + text
        elif how == 3:
            text = format(v, '.17e')
        return text, v
    if kind == 's':
        how = style % 3
        if how == 1 and _literal_possible(v):
            return f"'{v}'", v
        if how == 2:
            return f'"""{_toml_basic_body(v)}"""', v
        return f'"{_toml_basic_body(v)}"', v
    raise AssertionError(f'no literal for {enc!r}')  # harness bug


def _user_file(fs):
    """(text, mentioned, parsed): the hand-written file of a file spec, the entries it gives to parameters
    ('section/name' -> encoded value) and what an independent TOML parser must read from it."""
    lines = [('# ' + c) if c else '#' for c in fs['header']]
    top, tables = [], []
    mentioned, parsed = {}, {}

    def key_text(name, ws):
        return f'"{name}"' if ws == 3 else name

    def eq_text(ws):
        return {0: ' = ', 1: '=', 2: '   =   ', 3: ' = '}[ws]

    for sec in fs['sections']:
        section, layout = sec['section'], sec['layout']
        items = []  # (name, literal, whitespace style, comment)
        for name, enc, style, ws, comment in sec['entries']:
            text, pyval = _toml_literal(enc, style)
            items.append((name, text, ws, comment))
            mentioned[f'{section}/{name}'] = enc
            parsed.setdefault(section, {})[name] = pyval
        for name, text in sec['strays']:
            items.append((name, text, 0, None))
            parsed.setdefault(section, {})[name] = tomllib.loads(f'x = {text}')['x']
        if layout == 'inline':
            parsed.setdefault(section, {})
            body = ', '.join(f'{key_text(n, ws)}{eq_text(ws)}{t}' for n, t, ws, _c in items)
            line = f'{section} = {{ {body} }}' if items else f'{section} = {{}}'
            top.append(line + (f' # {sec["comment"]}' if sec['comment'] is not None else ''))
        elif layout == 'dotted':
            if sec['comment'] is not None and items:
                top.append(f'# {sec["comment"]}')
            for n, t, ws, c in items:
                top.append(f'{section}.{key_text(n, ws)}{eq_text(ws)}{t}' + (f' # {c}' if c is not None else ''))
        else:
            parsed.setdefault(section, {})
            tables.extend([''] * sec['blank'])
            head = {0: f'[{section}]', 1: f'[ {section} ]', 2: f'["{section}"]'}[sec['head']]
            tables.append(' ' * sec['indent'] + head + (f' # {sec["comment"]}' if sec['comment'] is not None else ''))
            for n, t, ws, c in items:
                if c is not None and ws == 2:
                    tables.append(f'# {c}')  # the comment on a line of its own, above the entry
                    c = None
                tables.append(' ' * sec['indent'] + f'{key_text(n, ws)}{eq_text(ws)}{t}' +
                              (f' # {c}' if c is not None else ''))
    if fs['unknown_section']:
        tables += ['', '[SomeOtherTool]', 'number_of_draws = 7', 'generate_html = "False"']
        parsed['SomeOtherTool'] = dict(number_of_draws=7, generate_html='False')
    text = '\n'.join(lines + top + tables)
    if fs['final_newline']:
        text += '\n'
    return text, mentioned, parsed


def _selfcheck_user_file(fs):
    """The hand-written text must be valid TOML with the intended content for an independent parser
    (tomllib); anything else is a bug of this generator, not of the library."""
    text, _mentioned, parsed = _user_file(fs)
    try:
        got = tomllib.loads(text)
    except tomllib.TOMLDecodeError as e:
        raise AssertionError(f'harness: generated user file is not valid TOML ({e}):\n{text}')

    def same(a, b):
        if isinstance(a, dict) or isinstance(b, dict):
            return (isinstance(a, dict) and isinstance(b, dict) and set(a) == set(b)
                    and all(same(a[k], b[k]) for k in a))
        return type(a) is type(b) and a == b

    if not same(got, parsed):
        raise AssertionError(f'harness: generated user file reads as {got!r}, intended {parsed!r}:\n{text}')
    return text


def _written_keys(fname):
    """'section/name' of every entry an independent parser finds in a file (None: not parseable)."""
    try:
        with open(fname, 'rb') as f:
            doc = tomllib.load(f)
    except (tomllib.TOMLDecodeError, OSError, UnicodeDecodeError):
        return None
    return sorted(f'{s}/{n}' for s, entries in doc.items() if isinstance(entries, dict) for n in entries)


def _observe_tomlhist(spec):
    return _in_scratch(_observe_tomlhist_here, spec)


def _observe_tomlhist_here(spec):
    lib = _lib()
    res = dict(native_dump_error=None, steps=[])
    try:
        lib.par.Parameters().generate_document()
    except ValueError as e:
        if 'line breaks' not in str(e):
            raise
        res['native_dump_error'] = f'{type(e).__name__}: {e}'
        tki.Item.comment = _old_tomlkit_comment  # child process only
    user_files = {}
    for fs in spec['files']:
        text, mentioned, _parsed = _user_file(fs)
        user_files[fs['name']] = mentioned
        if fs['crlf']:
            text = text.replace('\n', '\r\n')
        with open(fs['name'], 'wb') as f:
            f.write(text.encode('utf-8'))
    p = lib.par.Parameters()
    res['defaults'] = _read_all(lib.par, p)
    extras = []  # indices of the user-defined parameters the current object knows

    def fresh_reader(fname):
        q = lib.par.Parameters()
        for idx in extras:
            q.add_parameter(_extra_tuple(idx))
        q.read_file(fname)
        return _read_all(lib.par, q)

    for op in spec['ops']:
        kind = op[0]
        step = dict(exc=None, refused=None)
        res['steps'].append(step)
        try:
            if kind == 'new':
                p, extras = lib.par.Parameters(), []
            elif kind in ('open', 'read'):
                if kind == 'open':
                    p, extras = lib.par.Parameters(), []
                step['existed'] = os.path.isfile(op[1])
                try:
                    p.read_file(op[1])
                except excep.BiogemeError as e:
                    # a refusal is legitimate only if set_value refuses one of the values as well
                    probe = lib.par.Parameters()
                    for idx in extras:
                        probe.add_parameter(_extra_tuple(idx))
                    bad = None
                    for k, enc in user_files.get(op[1], {}).items():
                        section, name = k.split('/', 1)
                        if k in _read_all(lib.par, probe):
                            try:
                                probe.set_value(name, _dec(enc), section)
                            except excep.BiogemeError:
                                bad = k
                    step['refused'] = dict(msg=str(e)[:300], also_by_set_value=bad)
                if not step['existed'] and os.path.isfile(op[1]):
                    step['created_readback'] = fresh_reader(op[1])
                    step['written'] = _written_keys(op[1])
            elif kind == 'set':
                try:
                    p.set_value(op[1], _dec(op[3]), op[2])
                except excep.BiogemeError as e:
                    step['refused'] = dict(msg=str(e)[:300])
            elif kind == 'add':
                p.add_parameter(_extra_tuple(op[1]))
                if op[1] not in extras:
                    extras.append(op[1])
            elif kind == 'dump':
                step['before'] = _read_all(lib.par, p)
                p.dump_file(op[1])
                step['readback'] = fresh_reader(op[1])
                step['written'] = _written_keys(op[1])
            else:
                raise AssertionError(f'unknown op {op!r}')  # harness bug
        except AssertionError:
            raise
        except Exception as e:  # noqa: judged by the parent
            step['exc'] = [type(e).__name__, str(e)[:300], traceback.format_exc(limit=6)[-700:]]
        step['live'] = _read_all(lib.par, p)
        if step['exc'] or step['refused']:
            break  # the state after a refusal / an exception is not specified
    return res


def _same_enc(g, exp):
    return g is not None and g[0] == exp[0] and _dec(g) == _dec(exp)


def _mismatch(g, exp):
    if g is None:
        return 'missing'
    return 'type' if g[0] != exp[0] else 'value'


def judge_tomlhist(spec) -> Outcome:
    out = _judge_tomlhist(spec)
    out.classes = list(dict.fromkeys(out.classes))  # a label counts once per case
    return out


def _judge_tomlhist(spec) -> Outcome:
    out = Outcome()
    ops = spec['ops']
    for fs in spec['files']:
        _selfcheck_user_file(fs)  # AssertionError = bug of the generator (exit 2)
    files = {}
    for fs in spec['files']:
        _text, mentioned, _parsed = _user_file(fs)
        files[fs['name']] = dict(kind='user', content=mentioned)
        layouts = {s['layout'] for s in fs['sections']}
        out.classes += [f'user_file:layout:{x}' for x in sorted(layouts)]
        n = len(mentioned)
        out.classes.append('user_file:entries=' + ('0' if n == 0 else '1-5' if n <= 5 else '6-15' if n <= 15 else '16+'))
        if any(s['strays'] for s in fs['sections']) or fs['unknown_section']:
            out.classes.append('user_file:ignored_entries')
        if fs['crlf']:
            out.classes.append('user_file:crlf')
        if any(e[4] is not None for s in fs['sections'] for e in s['entries']):
            out.classes.append('user_file:entry_comments')
    out.classes += sorted({f'step:{op[0]}' for op in ops})
    out.classes.append(f'dumps={min(sum(1 for op in ops if op[0] == "dump"), 4)}')
    res = isolate.call(_observe_tomlhist, spec)
    what = render_tomlhist(spec)
    if not res['ok']:
        if res['exc_type'] == 'AssertionError':
            raise AssertionError(res['exc_msg'])
        out.fail(f'tomlhist:setup:raises:{res["exc_type"]}',
                 f'{what}: {res["exc_type"]}: {res["exc_msg"][:300]}\n{res["tb"][-700:]}')
        return out
    v = res['value']
    if v['native_dump_error']:
        out.fail('toml:dump_file:multiline_comment',
                 f'Parameters.generate_document fails with the installed tomlkit: {v["native_dump_error"]}')
    defaults = dict(v['defaults'])
    all_defaults = dict(defaults)
    for name, section, _tname, default in EXTRA_PARAMETERS:
        all_defaults[f'{section}/{name}'] = default
    vals = dict(defaults)  # reference model: value every parameter of the current object must have
    origin = None  # keys mentioned by the hand-written file the current object read last (None: no such file)
    seen = set()

    def report(key, msg):
        if key not in seen:  # one report per root cause and case
            seen.add(key)
            out.fail(key, msg)

    def verify_file(tag, i, op, fname, dumped, got, written):
        """A fresh object that read `fname` (values `got`) against the values of the object that wrote it."""
        for k, exp in dumped.items():
            g = got.get(k)
            if _same_enc(g, exp):
                continue
            how = _mismatch(g, exp)
            if written is not None and k not in written:
                how = 'not_written'
            report(f'tomlhist:{tag}:{exp[0]}:{how}',
                   f'{what}: step {i} {op!r}: the object held {k} = {_dec(exp)!r} ({exp[0]}); a fresh object that '
                   f'reads {fname!r} has {None if g is None else _dec(g)!r}'
                   + (f' ({g[0]})' if g is not None else '')
                   + ('; the file does not contain the entry' if how == 'not_written' else ''))
        for k in got:
            if k not in dumped:
                report(f'tomlhist:{tag}:extra_parameter', f'{what}: step {i} {op!r}: {k} only in the re-read object')

    for i, op in enumerate(ops):
        if i >= len(v['steps']):
            break
        step, kind = v['steps'][i], op[0]
        if step['exc']:
            out.fail(f'tomlhist:{kind}:raises:{step["exc"][0]}',
                     f'{what}: step {i} {op!r} raised {step["exc"][0]}: {step["exc"][1]}\n{step["exc"][2]}')
            break
        ambiguous = set()
        if kind in ('new', 'open'):
            vals, origin = dict(defaults), None
        if kind == 'set':
            if step['refused']:
                out.skipped = 'value refused by set_value'
                return out
            section = op[2]
            if section is None:
                hits = [k for k in vals if k.split('/', 1)[1] == op[1]]
                if len(hits) != 1:
                    raise AssertionError(f'harness: set without section is not unique: {op!r} {hits}')
                vals[hits[0]] = op[3]
            else:
                if f'{section}/{op[1]}' not in vals:
                    raise AssertionError(f'harness: set on a parameter the object does not know: {op!r}')
                vals[f'{section}/{op[1]}'] = op[3]
        elif kind == 'add':
            name, section, _tname, default = EXTRA_PARAMETERS[op[1]]
            vals[f'{section}/{name}'] = default
        elif kind in ('open', 'read'):
            f = files.get(op[1])
            if step['refused']:
                if f is not None and f['kind'] == 'user' and step['refused']['also_by_set_value']:
                    out.skipped = 'value refused by read_file and by set_value'
                    return out
                out.fail(f'tomlhist:{kind}:refused:{"user_file" if f and f["kind"] == "user" else "dumped_file"}',
                         f'{what}: step {i} {op!r}: read_file refuses the file although set_value accepts every '
                         f'value it gives: {step["refused"]["msg"]}')
                break
            if (f is not None) != step['existed']:
                raise AssertionError(f'harness: model and directory disagree on the existence of {op[1]!r}')
            if f is None:
                out.classes.append('read_missing_file')
                if 'created_readback' in step:
                    # the library writes the current values to the missing file: that file must read back
                    verify_file('created', i, op, op[1], vals, step['created_readback'], step['written'])
                    files[op[1]] = dict(kind='dump', content=dict(vals))
            else:
                for k in vals:
                    if k in f['content']:
                        vals[k] = f['content'][k]
                    elif not _same_enc(vals[k], all_defaults[k]):
                        ambiguous.add(k)  # not mentioned by the file: the held value stays (or the default)
                if f['kind'] == 'user':
                    origin = set(f['content'])
                    out.classes.append('reads_user_file:' + ('fresh_object' if kind == 'open' and i == 0 else
                                                             'later' if kind == 'open' else 'live_object'))
                else:
                    origin = None
                    out.classes.append('reads_dumped_file')
        live = step['live']
        if set(live) != set(vals):
            report(f'tomlhist:{kind}:parameter_set',
                   f'{what}: step {i} {op!r}: the object has parameters {sorted(set(live) ^ set(vals))} more/less')
        for k, exp in vals.items():
            g = live.get(k)
            if _same_enc(g, exp):
                continue
            if k in ambiguous and _same_enc(g, all_defaults[k]):
                vals[k] = all_defaults[k]
                continue
            if kind == 'dump':
                report('tomlhist:dump_changes_values',
                       f'{what}: step {i} {op!r}: {k} was {_dec(exp)!r} before dump_file, the object now holds '
                       f'{None if g is None else _dec(g)!r}')
            else:
                src = ''
                if kind in ('open', 'read'):
                    f = files.get(op[1])
                    src = ':user_file' if f and f['kind'] == 'user' else ':dumped_file'
                report(f'tomlhist:{kind}{src}:{exp[0]}:{_mismatch(g, exp)}',
                       f'{what}: step {i} {op!r}: {k} must be {_dec(exp)!r} ({exp[0]}), the object holds '
                       f'{None if g is None else _dec(g)!r}' + (f' ({g[0]})' if g is not None else ''))
            if g is not None:
                vals[k] = g  # follow the object: one report per cause
        if kind == 'dump':
            verify_file('roundtrip', i, op, op[1], step['before'], step['readback'], step['written'])
            changed = [k for k in vals if not _same_enc(vals[k], all_defaults[k])]
            if origin is not None:
                out.classes.append('dump_after_user_file')
                unmentioned = [k for k in changed if k not in origin]
                if unmentioned:
                    out.classes.append('dump_after_user_file:set_values_the_file_does_not_mention')
                    if len(changed) >= 3:
                        out.nontrivial = True
            if files.get(op[1], {}).get('kind') == 'user':
                out.classes.append('dump_replaces_user_file')
            files[op[1]] = dict(kind='dump', content=dict(vals))
    return out


@st.composite
def _user_file_specs(draw, name, params):
    """A file as a user writes it: a subset of the sections, in any order, each with a subset of its
    parameters (admissible values, any allowed spelling), comments, ignored entries."""
    by_section = {}
    for pname, section, tname, checks in params:
        by_section.setdefault(section, []).append((pname, tname, checks))
    known = {(section, pname) for pname, section, _t, _c in params} | \
            {(section, pname) for pname, section, _t, _d in EXTRA_PARAMETERS}
    p_section = draw(st.sampled_from([0, 25, 50, 50, 75, 100]))
    p_entry = draw(st.sampled_from([15, 40, 40, 80, 100]))
    plain = draw(st.integers(0, 2)) == 0  # one file in three: '[Section]' tables and 'name = value' only
    sections = []
    for section in draw(st.permutations(sorted(by_section))):
        if draw(st.integers(0, 99)) >= p_section:
            continue
        entries = []
        for pname, tname, checks in draw(st.permutations(by_section[section])):
            if draw(st.integers(0, 99)) >= p_entry:
                continue
            entries.append([pname, draw(_admissible_values(tname, checks)),
                            0 if plain else draw(st.integers(0, 7)),
                            0 if plain else draw(st.sampled_from([0, 0, 0, 1, 2, 3])),
                            draw(st.sampled_from([None, None] + ENTRY_COMMENTS))])
        strays = []
        if draw(st.integers(0, 5)) == 5:
            pool = [s for s in STRAY_ENTRIES if (section, s[0]) not in known]
            strays = [list(draw(st.sampled_from(pool)))]
        layout = 'header' if plain else draw(st.sampled_from(['header'] * 6 + ['dotted', 'inline']))
        sections.append(dict(section=section, layout=layout, entries=entries, strays=strays,
                             comment=draw(st.sampled_from([None, None] + ENTRY_COMMENTS)),
                             head=0 if plain else draw(st.sampled_from([0, 0, 0, 1, 2])),
                             indent=0 if plain else draw(st.sampled_from([0, 0, 0, 2, 4])),
                             blank=draw(st.integers(0, 2))))
    return dict(name=name, header=draw(st.lists(st.sampled_from(HEADER_COMMENTS), max_size=3)),
                sections=sections, unknown_section=draw(st.integers(0, 5)) == 5,
                final_newline=draw(st.integers(0, 5)) != 5, crlf=draw(st.integers(0, 7)) == 7)


@st.composite
def strat_tomlhist(draw, tier):
    cat = [(n, s, t, c) for n, s, t, c, _d in _catalogue()]
    with_extras = draw(st.integers(0, 3)) == 3
    extra_params = [(n, s, t, _EXTRA_CHECKS[t]) for n, s, t, _d in EXTRA_PARAMETERS]
    names = draw(st.lists(st.sampled_from(USER_FILE_NAMES), min_size=1, max_size=2, unique=True))
    files = [draw(_user_file_specs(n, cat + (extra_params if with_extras else []))) for n in names]
    extra_names = {e[0] for e in EXTRA_PARAMETERS}
    existing = list(names)  # files that exist at this point of the history
    added = []
    ops = [['open', names[0]] if draw(st.integers(0, 5)) >= 1 else ['new']]
    n_ops = draw(st.integers(2, 14 if tier == 'thorough' else 10))
    for _ in range(n_ops):
        kinds = ['set'] * 6 + ['dump'] * 3 + ['read', 'open']
        if with_extras and len(added) < len(EXTRA_PARAMETERS):
            kinds += ['add'] * 2
        kind = draw(st.sampled_from(kinds))
        if kind == 'set':
            pool = cat + [extra_params[i] for i in added]
            pname, section, tname, checks = draw(st.sampled_from(pool))
            by_name_only = pname not in extra_names and draw(st.booleans())
            ops.append(['set', pname, None if by_name_only else section, draw(_admissible_values(tname, checks))])
        elif kind == 'add':
            idx = draw(st.sampled_from([i for i in range(len(EXTRA_PARAMETERS)) if i not in added]))
            added.append(idx)
            ops.append(['add', idx])
        elif kind == 'dump':
            fname = draw(st.sampled_from(DUMP_FILE_NAMES))
            if fname not in existing:
                existing.append(fname)
            ops.append(['dump', fname])
        else:
            fname = draw(st.sampled_from(existing * 3 + MISSING_FILE_NAMES))
            if fname not in existing:
                existing.append(fname)  # the library creates it
            if kind == 'open':
                added = []
            ops.append([kind, fname])
    if ops[-1][0] != 'dump':
        ops.append(['dump', draw(st.sampled_from(DUMP_FILE_NAMES))])
    return dict(files=files, ops=ops)


def render_tomlhist(spec):
    def one_file(fs):
        _text, mentioned, _parsed = _user_file(fs)
        shown = ', '.join(f'{k}={_dec(e)!r}' for k, e in list(mentioned.items())[:6])
        return (f'{fs["name"]!r} (hand-written, {len(mentioned)} entries'
                f'{": " + shown if shown else ""}{"..." if len(mentioned) > 6 else ""})')

    def one_op(op):
        if op[0] == 'set':
            return f'set_value({op[1]!r}, {_dec(op[3])!r}, {op[2]!r})'
        if op[0] == 'add':
            e = EXTRA_PARAMETERS[op[1]]
            return f'add_parameter({e[1]}/{e[0]}={_dec(e[3])!r})'
        if op[0] == 'new':
            return 'Parameters()'
        if op[0] == 'open':
            return f'Parameters().read_file({op[1]!r})'
        return {'read': 'read_file', 'dump': 'dump_file'}[op[0]] + f'({op[1]!r})'

    return 'files ' + '; '.join(one_file(fs) for fs in spec['files']) + ' | ' + '; '.join(
        one_op(op) for op in spec['ops'])


# =============================================================================================
# sub-check 4: histories of output generation in one directory

OUTPUT_EXT = dict(write_pickle='pickle', write_html='html', write_latex='tex', write_f12='F12')
# names may carry a directory part: relative (sub-directory of the scratch directory), './name', or
# absolute ('<ABS>' stands for the scratch directory, substituted in the child)
ABS = '<ABS>'
HISTORY_MODEL_NAMES = ['m', 'm~00', 'my model', 'm.v2', 'm_1', 'sub/m', './m', ABS + '/m', 'sub/my model',
                       ABS + '/sub/m']
HISTORY_DB_NAMES = ['m', 'data', 'm~00', 'my data', 'sub/data', './m', ABS + '/data']
FRESH_BASES = ['fresh', 'sub/fresh', './fresh', ABS + '/fresh']
BACKUP_FILES = ['m.html', 'notes.txt', 'notes_1.txt', 'archive.tar.gz', 'noext', 'm.pickle', 'sub/notes.txt',
                './notes.txt', ABS + '/m.html', ABS + '/sub/notes.txt']
SUBDIRS = ['sub']


def _logical(name):
    """Path relative to the scratch directory that a (possibly './' or '<ABS>/' prefixed) name denotes."""
    return os.path.normpath(name.replace(ABS + '/', ''))


def _path_classes(names):
    cl = set()
    for n in names:
        if n.startswith(ABS):
            cl.add('path:absolute')
        elif n.startswith('./'):
            cl.add('path:dot_slash')
        elif '/' in n:
            cl.add('path:sub_directory')
    return sorted(cl)


def _real(name, cwd):
    return name.replace(ABS, cwd) if isinstance(name, str) else name


def _rel(path, cwd):
    """What a name returned by the library denotes, relative to the scratch directory."""
    if not isinstance(path, str):
        return path
    return os.path.relpath(os.path.realpath(os.path.abspath(path)), os.path.realpath(cwd))


def _shown(path, cwd):
    return path.replace(cwd, ABS) if isinstance(path, str) else path


def _snapshot():
    snap = {}
    for root, _dirs, files in os.walk('.'):
        for fn in files:
            full = os.path.join(root, fn)
            if os.path.isfile(full):
                with open(full, 'rb') as f:
                    data = f.read()
                snap[os.path.normpath(full)] = [len(data), hashlib.sha256(data).hexdigest()]
    return dict(sorted(snap.items()))


def _read_text(name):
    if not isinstance(name, str) or not os.path.isfile(name):
        return None
    with open(name, encoding='utf-8') as f:
        return f.read()


def _observe_history(spec):
    return _in_scratch(_observe_history_here, spec)


def _observe_history_here(spec):
    lib = _lib()
    cwd = os.getcwd()
    np.random.seed(spec['np_seed'])
    for d in SUBDIRS:
        os.makedirs(d, exist_ok=True)
    for name, content in spec['seeds']:
        with open(os.path.join(cwd, _logical(name)), 'w', encoding='utf-8') as f:
            f.write(f'pre-existing file {name} #{content}\n' * (1 + content % 3))
    results = [make_results(lib, dict(rs, model=_real(rs['model'], cwd))) for rs in spec['results']]
    dbs = [lib.db.Database(_real(name, cwd), pd.DataFrame({'x': [1.0 + i, 2.0, 3.5], 'y': [0, 1, i]}))
           for i, name in enumerate(spec['databases'])]
    steps = []
    for op in spec['ops']:
        before = _snapshot()
        step = dict(op=op, before=before, reported=None, exc=None, extra={})
        try:
            kind = op[0]
            if kind == 'write_pickle':
                r = results[op[1]]
                step['reported'] = r.write_pickle()
                step['extra']['recorded'] = r.data.pickleFileName
                back = lib.res.bioResults(pickle_file=step['reported'],
                                          identification_threshold=spec['results'][op[1]]['threshold'])
                step['extra']['loaded_values'] = _canon(back.get_beta_values())
                step['extra']['written_values'] = _canon(r.get_beta_values())
            elif kind == 'write_html':
                r = results[op[1]]
                r.write_html(only_robust=op[2])
                step['reported'] = r.data.htmlFileName
                step['extra']['text'] = _read_text(step['reported'])
            elif kind == 'write_latex':
                r = results[op[1]]
                r.write_latex()
                step['reported'] = r.data.latexFileName
                step['extra']['text'] = _read_text(step['reported'])
            elif kind == 'write_f12':
                r = results[op[1]]
                r.write_f12(robust_std_err=op[2])
                step['reported'] = r.data.F12FileName
                step['extra']['text'] = _read_text(step['reported'])
            elif kind == 'dump_on_file':
                step['reported'] = dbs[op[1]].dump_on_file()
            elif kind == 'new_name':
                step['reported'] = lib.bf.get_new_file_name(_real(op[1], cwd), op[2])
                if op[3] and isinstance(step['reported'], str) and not os.path.exists(step['reported']):
                    with open(step['reported'], 'w', encoding='utf-8') as f:
                        f.write('written by the caller of get_new_file_name\n')
                    step['extra']['created_by_harness'] = step['reported']
            elif kind == 'create_backup':
                step['extra']['src_rel'] = _rel(_real(op[1], cwd), cwd)
                step['reported'] = lib.tf.create_backup(_real(op[1], cwd), rename=op[2])
            elif kind == 'estimate':
                the = _tiny_biogeme(_real(op[1], cwd), spec['np_seed'])
                the.generate_html = True
                the.generate_pickle = True
                r = the.estimate()
                step['reported'] = r.data.htmlFileName
                step['extra']['second_output'] = r.data.pickleFileName
            else:
                raise AssertionError(f'unknown op {op!r}')  # harness bug
        except AssertionError:
            raise
        except Exception as e:  # noqa: judged by the parent
            import traceback

            step['exc'] = [type(e).__name__, str(e)[:300], traceback.format_exc(limit=6)[-600:]]
        step['after'] = _snapshot()
        # names as the library reported them (scratch directory shown as <ABS>) and what they denote
        outputs = [step['reported']] + ([step['extra']['second_output']] if 'second_output' in step['extra'] else [])
        step['outputs_rel'] = [_rel(o, cwd) for o in outputs]
        step['reported_rel'] = _rel(step['reported'], cwd)
        step['reported'] = _shown(step['reported'], cwd)
        for k in ('recorded', 'second_output', 'created_by_harness'):
            if k in step['extra']:
                step['extra'][k + '_rel'] = _rel(step['extra'][k], cwd)
                step['extra'][k] = _shown(step['extra'][k], cwd)
        if step['exc']:
            step['exc'] = [_shown(x, cwd) for x in step['exc']]
        steps.append(step)
    return steps


def judge_history(spec) -> Outcome:
    out = Outcome()
    ops = spec['ops']
    counts = {}
    for op in ops:
        target = (op[0], op[1]) if op[0] != 'new_name' else (op[0], op[1], op[2])
        counts[target] = counts.get(target, 0) + 1
    seed_names = {_logical(s[0]) for s in spec['seeds']}
    bases = set()
    for op in ops:
        if op[0] in OUTPUT_EXT:
            bases.add((spec['results'][op[1]]['model'], OUTPUT_EXT[op[0]]))
        elif op[0] == 'dump_on_file':
            bases.add((spec['databases'][op[1]] + '_dumped', 'dat'))
        elif op[0] == 'new_name':
            bases.add((op[1], op[2]))
        elif op[0] == 'estimate':
            bases.add((op[1], 'html'))
            bases.add((op[1], 'pickle'))
    bases = {(_logical(b), e) for b, e in bases}
    collision = any(f'{b}.{e}' in seed_names for b, e in bases)
    gap = any(f'{b}.{e}' in seed_names and f'{b}~00.{e}' not in seed_names and
              any(f'{b}~{i:02d}.{e}' in seed_names for i in range(1, 6)) for b, e in bases)
    used_names = [spec['results'][op[1]]['model'] for op in ops if op[0] in OUTPUT_EXT]
    used_names += [spec['databases'][op[1]] for op in ops if op[0] == 'dump_on_file']
    used_names += [op[1] for op in ops if op[0] in ('new_name', 'create_backup', 'estimate')]
    out.classes += _path_classes(used_names)
    out.nontrivial = max(counts.values(), default=0) >= 3 and collision
    out.classes += sorted({f'op:{op[0]}' for op in ops})
    out.classes.append(f'ops={min(len(ops), 12) // 4 * 4}+')
    if collision:
        out.classes.append('seed_collides_with_output_name')
    if gap:
        out.classes.append('seed_numbering_has_gap')
    _warm_up()
    res = isolate.call(_observe_history, spec, timeout=300)
    if not res['ok']:
        out.fail(f'history:setup:raises:{res["exc_type"]}',
                 f'{res["exc_type"]}: {res["exc_msg"][:300]}\n{res["tb"][-600:]}')
        return out
    for i, step in enumerate(res['value']):
        op, before, after = step['op'], step['before'], step['after']
        kind = op[0]
        where = f'step {i} {op!r} (directory held {sorted(before)})'
        if step['exc']:
            out.fail(f'history:{kind}:raises:{step["exc"][0]}',
                     f'{where}: raised {step["exc"][0]}: {step["exc"][1]}\n{step["exc"][2]}')
        removed = sorted(n for n in before if n not in after)
        changed = sorted(n for n in before if n in after and after[n] != before[n])
        added = sorted(n for n in after if n not in before)
        reported, reported_rel = step['reported'], step['reported_rel']
        if kind == 'create_backup' and not step['exc']:
            src = step['extra']['src_rel']
            if src not in before:
                if reported is not None or added or removed or changed:
                    out.fail('history:create_backup:no_source',
                             f'{where}: nothing to back up, yet returned {reported!r}, added {added}, removed {removed}')
                continue
            if not isinstance(reported, str) or reported_rel in before:
                out.fail('history:create_backup:name_existed',
                         f'{where}: backup name {reported!r} ' +
                         ('already existed' if isinstance(reported, str) else 'is not a name'))
            elif after.get(reported_rel) != before[src]:
                out.fail('history:create_backup:content',
                         f'{where}: backup {reported!r} does not hold the content of {src!r}')
            if op[2]:
                removed = [n for n in removed if n != src]
                if src in after:
                    out.fail('history:create_backup:source_kept', f'{where}: {src!r} still exists after rename')
            elif src not in after:
                out.fail('history:create_backup:source_lost', f'{where}: copy requested but {src!r} is gone')
        if changed:
            out.fail(f'history:{kind}:overwrites_existing',
                     f'{where}: pre-existing file(s) {changed} were modified (reported output {reported!r})')
        if removed:
            out.fail(f'history:{kind}:removes_existing', f'{where}: pre-existing file(s) {removed} disappeared')
        if kind == 'create_backup' or step['exc']:
            continue
        for name in step['outputs_rel']:
            if not isinstance(name, str):
                out.fail(f'history:{kind}:no_name', f'{where}: no output name reported ({name!r})')
                continue
            if name in before:
                out.fail(f'history:{kind}:name_existed',
                         f'{where}: reported output name {name!r} already existed')
            if kind != 'new_name' and name not in after:
                out.fail(f'history:{kind}:output_missing', f'{where}: reported output {name!r} was not created')
        if kind == 'new_name' and not op[3] and added:
            out.fail('history:new_name:creates_file', f'{where}: get_new_file_name created {added}')
        if kind in ('write_html', 'write_latex', 'write_f12') and isinstance(step['extra'].get('text'), str):
            rs = spec['results'][op[1]]
            check_report_text(out, dict(write_html='html', write_latex='latex', write_f12='f12')[kind] + ':file',
                              step['extra']['text'], rs['names'], rs['values'], where + f' file {reported!r}')
        if kind == 'write_pickle':
            ex = step['extra']
            if ex.get('recorded') != reported:
                out.fail('history:write_pickle:recorded_name',
                         f'{where}: returned {reported!r} but recorded {ex.get("recorded")!r}')
            if ex.get('loaded_values') != ex.get('written_values'):
                out.fail('history:write_pickle:reload', f'{where}: file {reported!r} loads other estimates')
    return out


@st.composite
def strat_history(draw, tier):
    n_res = draw(st.integers(1, 2))
    model_names = draw(st.lists(st.sampled_from(HISTORY_MODEL_NAMES), min_size=n_res, max_size=n_res, unique=True))
    results = []
    for mn in model_names:
        rs = draw(results_specs(max_k=3, allow_none=False, model_names=[mn]))
        results.append(rs)
    databases = draw(st.lists(st.sampled_from(HISTORY_DB_NAMES), min_size=1, max_size=2, unique=True))
    # pre-existing files named like future outputs
    bases = [(m, e) for m in model_names for e in ('html', 'pickle', 'tex', 'F12')]
    bases += [(d + '_dumped', 'dat') for d in databases]
    bases += [(f, 'txt') for f in FRESH_BASES]
    seeds = {}
    for b, e in bases:
        pattern = draw(st.sampled_from(['none', 'none', 'plain', 'plain+00', 'plain+00+01', 'plain+01',
                                        'plain+00+02', '00 only', 'plain+03', 'plain+00..04']))
        which = dict([('none', []), ('plain', [None]), ('plain+00', [None, 0]), ('plain+00+01', [None, 0, 1]),
                      ('plain+01', [None, 1]), ('plain+00+02', [None, 0, 2]), ('00 only', [0]),
                      ('plain+03', [None, 3]), ('plain+00..04', [None, 0, 1, 2, 3, 4])])[pattern]
        for w in which:
            seeds[_logical(f'{b}.{e}' if w is None else f'{b}~{w:02d}.{e}')] = draw(st.integers(0, 99))
    for fn in draw(st.lists(st.sampled_from(BACKUP_FILES + ['m_1.html', 'notes_2.txt', 'noext_1', 'sub/notes_1.txt']),
                            max_size=5, unique=True)):
        seeds.setdefault(_logical(fn), draw(st.integers(0, 99)))
    one_op = st.one_of(
        st.tuples(st.just('write_pickle'), st.integers(0, n_res - 1)).map(list),
        st.tuples(st.just('write_html'), st.integers(0, n_res - 1), st.booleans()).map(list),
        st.tuples(st.just('write_latex'), st.integers(0, n_res - 1)).map(list),
        st.tuples(st.just('write_f12'), st.integers(0, n_res - 1), st.booleans()).map(list),
        st.tuples(st.just('dump_on_file'), st.integers(0, len(databases) - 1)).map(list),
        st.tuples(st.just('new_name'), st.sampled_from(model_names + FRESH_BASES),
                  st.sampled_from(['html', 'pickle', 'txt']), st.booleans()).map(list),
        st.tuples(st.just('create_backup'), st.sampled_from(BACKUP_FILES), st.booleans()).map(list),
    )
    ops = draw(st.lists(one_op, min_size=2, max_size=14 if tier == 'thorough' else 10))
    # repeated writes of one kind are the point: repeat one of the drawn operations
    if draw(st.integers(0, 3)) >= 1:
        rep = draw(st.sampled_from(ops))
        ops = ops + [list(rep)] * draw(st.integers(2, 4))
    if draw(st.integers(0, 7)) >= 6:
        pos = draw(st.integers(0, len(ops)))
        ops = ops[:pos] + [['estimate', draw(st.sampled_from(model_names))]] + ops[pos:]
    return dict(results=results, databases=databases, seeds=sorted([k, v] for k, v in seeds.items()),
                ops=ops, np_seed=draw(st.integers(0, 2**31 - 1)))


def render_history(spec):
    return (f"directory seeded with {[s[0] for s in spec['seeds']]}; models "
            f"{[r['model'] for r in spec['results']]}, databases {spec['databases']}; ops {spec['ops']}")


# =============================================================================================

# =============================================================================================
# versions: long version histories of one output name (numbers beyond two digits, dense runs, gaps)

@st.composite
def strat_versions(draw, tier):
    name = draw(st.sampled_from(['m', 'model_a', 'sub/m', 'm~1', 'm.v2', 'm2']))
    ext = draw(st.sampled_from(['html', 'pickle', 'tex', 'F12', 'dat']))
    dense = draw(st.sampled_from([0, 3, 9, 10, 11, 98, 99, 100, 101, 102, 110, 130, 1005]))
    if tier == 'thorough':
        dense = draw(st.one_of(st.just(dense), st.integers(0, 1200)))
    removed = draw(st.lists(st.integers(0, max(dense, 1)), max_size=3, unique=True))
    extra = draw(st.lists(st.integers(0, 1300), max_size=4, unique=True))
    plain = draw(st.integers(0, 9)) >= 1
    calls = draw(st.integers(1, 6))
    width3 = draw(st.booleans())  # distractors written with three digits (~007): not a library spelling
    return dict(name=name, ext=ext, dense=dense, removed=sorted(removed), extra=sorted(extra), plain=plain,
                calls=calls, width3=width3)


def _observe_versions_here(spec):
    name, ext = spec['name'], spec['ext']
    if '/' in name:
        os.makedirs(os.path.dirname(name), exist_ok=True)
    present = set(range(spec['dense'])) - set(spec['removed']) | set(spec['extra'])
    if spec['plain']:
        open(f'{name}.{ext}', 'w').write('plain')
    for k in sorted(present):
        open(f'{name}~{k:02d}.{ext}', 'w').write(f'v{k}')
    if spec['width3']:
        for k in (7, 42):
            open(f'{name}~{k:03d}.{ext}', 'w').write('distractor')
    before = _snapshot()
    got = []
    for _ in range(spec['calls']):
        fn = bfn.get_new_file_name(name, ext)
        existed = os.path.exists(fn)
        got.append([fn, existed])
        if not existed:
            open(fn, 'w').write('new output')
    after = _snapshot()
    changed = sorted(k for k in before if after.get(k) != before[k])
    return dict(got=got, changed=changed, n_before=len(before))


def judge_versions(spec) -> Outcome:
    out = Outcome()
    obs = _in_scratch(_observe_versions_here, spec)
    name, ext = spec['name'], spec['ext']
    seen = set()
    for fn, existed in obs['got']:
        if existed:
            out.fail('get_new_file_name:returns_existing', f'get_new_file_name({name!r}, {ext!r}) returned {fn!r}, a file '
                     f'that exists ({obs["n_before"]} files in the directory): the writer would overwrite it')
        if fn in seen:
            out.fail('get_new_file_name:same_name_twice', f'{fn!r} returned twice although the caller created it')
        seen.add(fn)
        if not (fn.startswith(name) and fn.endswith('.' + ext)):
            out.fail('get_new_file_name:form', f'{fn!r} is not of the form {name}[~NN].{ext}')
    if obs['changed']:
        out.fail('get_new_file_name:earlier_output_changed', f'earlier files changed: {obs["changed"][:4]}')
    out.nontrivial = spec['plain'] and spec['dense'] - len(spec['removed']) >= 99
    out.classes = [f"dense:{'>=100' if spec['dense'] >= 100 else '10..99' if spec['dense'] >= 10 else '<10'}",
                   'plain' if spec['plain'] else 'no_plain', 'gaps' if spec['removed'] else 'no_gaps']
    out.evaluations = spec['calls']
    return out


def render_versions(spec):
    return (f"{spec['name']}.{spec['ext']} {'present' if spec['plain'] else 'absent'}, versions 00..{spec['dense'] - 1} "
            f"minus {spec['removed']} plus {spec['extra']}; {spec['calls']} x (get_new_file_name, create)")


SUBCHECKS = [
    SubCheck('pickle', strat_pickle, judge_pickle, lambda s: render_results(s['results']) +
             f" pre_writes={s['pre_writes']} generations={s['generations']} recycle={s['recycle']}",
             dict(quick=480, thorough=20000),
             'synthetic results (K=1..5, Hessian negative definite / singular / indefinite / absent, optional '
             'bootstrap, bounds, null log likelihood) -> write_pickle -> load (twice; 1 in 3 also through '
             'estimate(recycle=True), two thirds of those with 1-2 other models saved in the same directory '
             'whose names extend the model name by _bis, 2, ~, .v2, ... or are a proper prefix of it: recycle '
             'must return this model\'s own saved results); every table, statistic, report and raw field equal; '
             'non-trivial: K >= 2 with second-order statistics'),
    SubCheck('toml', strat_toml, judge_toml, render_toml, dict(quick=800, thorough=30000),
             'any subset of the 27 parameters set to admissible values (both booleans, every algorithm name, '
             'integers up to 1e40, floats 5e-324..inf, arbitrary text) -> dump_file -> (boolean respelling, '
             'removed entries) -> read_file, up to 3 cycles; non-trivial: >= 5 values differ from the defaults',
             max_skip_fraction=0.05),
    SubCheck('tomlhist', strat_tomlhist, judge_tomlhist, render_tomlhist, dict(quick=600, thorough=20000),
             'one parameter object through 3-16 steps {Parameters(), Parameters().read_file, read_file, set_value '
             '(with / without section), add_parameter (user-defined, also a library name in another section), '
             'dump_file}; 1-2 hand-written files: a generated subset of sections and entries in any order, '
             'admissible values in every TOML spelling (+1, 1_000, 0x10, 1E-5, +inf, literal / multi-line strings, '
             'four boolean spellings), [Section] / dotted / inline tables, comments, ignored entries, CRLF; files '
             'missing (created by the library), dumped over each other and over the hand-written one. After every '
             'dump a fresh object reads the file: every parameter == the dumping object == reference model (last '
             'set / last read / default). non-trivial: a dump by an object that last read a hand-written file, '
             'holding a non-default value for a parameter that file does not mention, >= 3 non-default values',
             max_skip_fraction=0.05),
    SubCheck('reports', strat_reports, judge_reports, lambda s: render_results(s['results']),
             dict(quick=700, thorough=20000),
             'HTML / LaTeX (robust and full), F12 (both standard errors) and printed form of synthetic results, '
             'read back as tables / fixed columns: every parameter name with its value; non-trivial: K >= 2 '
             'with second-order statistics'),
    SubCheck('history', strat_history, judge_history, render_history, dict(quick=480, thorough=15000),
             '1-18 operations {write_pickle, write_html, write_latex, write_f12, dump_on_file, get_new_file_name '
             '(+caller creates the file), create_backup, estimate} in a directory (with a sub-directory) seeded '
             'with m.ext, m~NN.ext (gaps), *_dumped.dat, backup names; model / database / file names plain, '
             'sub/name, ./name or absolute; non-trivial: >= 3 writes of one kind and a seeded collision'),
    SubCheck('versions', strat_versions, judge_versions, render_versions, dict(quick=240, thorough=6000),
             'a directory holding name.ext and name~00 .. name~(k-1) (k up to 1005 / 1200; gaps, stray higher numbers, '
             'three-digit distractors), then 1-6 x (get_new_file_name, caller creates the file): the name returned '
             'never exists, is never returned twice, earlier files unchanged; non-trivial: >= 99 versions present '
             '(numbers of three digits are reached)'),
]
RULE = ' | '.join(f'{s.name}: {s.rule}' for s in SUBCHECKS)
