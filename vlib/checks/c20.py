"""C20 Every deprecated name behaves exactly like the function it points users to.

The alias set is discovered by introspection at import time: every module of the package is
walked (pkgutil), every module-level function and every class attribute is examined, and a
deprecated alias is recognised by what biogeme/deprecated.py leaves on the wrapper
(`__deprecated__`, `__newname__` and the closure cells `new_func` / `old_func`);
keyword-renaming wrappers are recognised by their closure cells `func` / `obsolete_params`.
"""
from __future__ import annotations

import importlib
import inspect
import math
import os
import pkgutil
import re
import shutil
import sys
import tempfile
import warnings

import numpy as np
import pandas as pd
from hypothesis import strategies as st

from .. import build, gen, isolate
from ..runner import Outcome, SubCheck

import biogeme
import biogeme.deprecated as _dep

PROPERTY = 'C20'
LEVEL = 'exploration'
ASSUMPTIONS = [
    'differential oracle: the old name and the replacement named in the warning are called on two '
    'identically built worlds (same spec, same numpy seed, same working directory path); a first pass '
    'runs both sides in one forked child, every difference and every case in which the engine raised '
    'is decided on separately forked sides and must show up in two independent observations',
    'floats are compared with relative/absolute tolerance 1e-10; wall-clock stamps, durations and memory '
    'addresses are masked, object ids inside signatures are renumbered by order of appearance',
    'a refusal by the compiled engine (RuntimeError from cythonbiogeme, or death of the process) is one '
    'equivalence class: its text names whichever row a worker thread reached first',
    'aliases and keyword renamings are recognised by the markers and closure cells left by '
    'biogeme/deprecated.py (a wrapper built differently is not seen; import fails loudly if the '
    '__deprecated__ marker and the closure disagree)',
    'the replacement of an obsolete keyword is found without the renaming table under test: it is the '
    'keyword the function acts on (signature; for the BIOGEME constructor also the parameter names of '
    'biogeme.parameters.Parameters, which it takes through **kwargs) that carries the same name in the '
    'new spelling; only an old keyword without such a namesake (seed_param, parameter_file, bootstrap) '
    'is compared with the keyword its table names',
    'values of constructor keywords that differ from the default are a fixed list filtered by the '
    "parameter's own validity checks (biogeme.default_parameters); the default itself stays in the pool",
    'arguments follow the signature of the replacement (positional, keyword and obsolete keyword '
    'spelling); receivers and arguments come from small per-signature generators; a call that '
    'raises the same exception under both names counts as equal behaviour',
]
BUDGETS = dict(quick=dict(shards=16), thorough=dict(shards=16))

FTOL = 1e-10

# ---------------------------------------------------------------------------------------------
# discovery


def _cells(f):
    if not inspect.isfunction(f) or f.__closure__ is None:
        return {}
    out = {}
    for name, cell in zip(f.__code__.co_freevars, f.__closure__):
        try:
            out[name] = cell.cell_contents
        except ValueError:
            pass
    return out


_DEP_FILE = os.path.realpath(inspect.getsourcefile(_dep))


def _from_deprecated_py(f):
    return inspect.isfunction(f) and os.path.realpath(f.__code__.co_filename) == _DEP_FILE


def wrapper_kind(f):
    """'alias' | 'params' | None for a function object."""
    if not _from_deprecated_py(f):
        return None
    c = _cells(f)
    if 'new_func' in c and 'old_func' in c:
        return 'alias'
    if 'obsolete_params' in c and 'func' in c:
        return 'params'
    return None


def _raw(attr):
    """(function, binding) of a class attribute."""
    if isinstance(attr, staticmethod):
        return attr.__func__, 'staticmethod'
    if isinstance(attr, classmethod):
        return attr.__func__, 'classmethod'
    return attr, 'function'


def _qual(cls):
    return f'{cls.__module__}.{cls.__qualname__}'


class Alias:
    def __init__(self, module, cls, old_name, wrapper, binding):
        c = _cells(wrapper)
        self.module = module
        self.cls = cls
        self.old_name = old_name
        self.wrapper = wrapper
        self.binding = binding
        self.new_func = c['new_func']
        self.old_func = c['old_func']
        self.new_name = getattr(self.new_func, '__name__', '?')
        self.doc = self.old_func.__doc__ or ''
        self.id = f'{_qual(cls)}.{old_name}' if cls is not None else f'{module}.{old_name}'


def norm_name(s):
    return s.replace('_', '').lower()


def _open_keywords(cls, func):
    """{name: ParameterTuple} of the keywords a function acts on through **kwargs (names that its
    signature cannot show). The BIOGEME constructor forwards every keyword that names a parameter of
    biogeme.parameters.Parameters to that parameter (and silently drops every other one)."""
    import biogeme.biogeme as bio
    from biogeme.parameters import Parameters

    try:
        sig = inspect.signature(func)
    except (TypeError, ValueError):
        return {}
    if not any(p.kind == p.VAR_KEYWORD for p in sig.parameters.values()):
        return {}
    if cls is not None and issubclass(cls, bio.BIOGEME) and func.__name__ == '__init__':
        return {t.name: t for t in Parameters().all_parameters_dict.values()}
    return {}


_NO_DEFAULT = ('<no default known>',)


class KwRename:
    def __init__(self, module, cls, func_name, wrapper, old_kw, new_kw):
        c = _cells(wrapper)
        self.module = module
        self.cls = cls
        self.func_name = func_name
        self.wrapper = wrapper
        self.func = c['func']
        self.map = dict(c['obsolete_params'])
        self.old_kw = old_kw
        self.new_kw = new_kw  # what the table of the wrapper (and hence its warning) names
        base = f'{_qual(cls)}.{func_name}' if cls is not None else f'{module}.{func_name}'
        self.id = f'{base}:{old_kw}'
        # names the function acts on, found WITHOUT the table under test: its signature, and what it
        # takes through **kwargs
        try:
            params = list(inspect.signature(self.func).parameters.values())
        except (TypeError, ValueError):
            params = []
        self.accepted = {p.name: p for p in params if p.kind in (p.POSITIONAL_OR_KEYWORD, p.KEYWORD_ONLY)}
        self.has_kwargs = any(p.kind == p.VAR_KEYWORD for p in params)
        self.open = _open_keywords(cls, self.func)
        # purpose rule: the replacement of an old keyword is the accepted keyword that carries the same
        # name in the new spelling (saveIterations -> save_iterations), whatever the table says
        same = sorted(n for n in set(self.accepted) | set(self.open)
                      if norm_name(n) == norm_name(old_kw) and n != old_kw)
        self.purpose_kw = same[0] if len(same) == 1 else None
        # the keyword the new-spelling side of the comparison is called with
        self.target_kw = self.purpose_kw or new_kw

    @property
    def default(self):
        """Default of the replacement keyword, _NO_DEFAULT if none is known."""
        t = self.target_kw
        if t in self.accepted:
            p = self.accepted[t]
            return _NO_DEFAULT if p.default is p.empty else p.default
        if t in self.open:
            return self.open[t].value
        return _NO_DEFAULT


class Pair:
    def __init__(self, item, receiver):
        self.item = item
        self.receiver = receiver
        self.id = item.id if receiver is None else f'{item.id}@{_qual(receiver)}'


def _discover():
    notes = []
    mods = [biogeme]
    for mi in pkgutil.walk_packages(biogeme.__path__, 'biogeme.'):
        try:
            mods.append(importlib.import_module(mi.name))
        except Exception as e:  # noqa: a module that cannot be imported cannot be walked
            notes.append(f'module {mi.name} not importable: {type(e).__name__}')
    classes = {}
    aliases, renames = [], []
    seen_wrappers = set()
    marker_count = 0
    for m in mods:
        for name, obj in list(vars(m).items()):
            if inspect.isfunction(obj) and getattr(obj, '__module__', None) == m.__name__:
                if getattr(obj, '__deprecated__', False):
                    marker_count += 1
                k = wrapper_kind(obj)
                if k and (id(obj), name) not in seen_wrappers:
                    seen_wrappers.add((id(obj), name))
                    if k == 'alias':
                        aliases.append(Alias(m.__name__, None, name, obj, 'function'))
                    else:
                        for old_kw, new_kw in _cells(obj)['obsolete_params'].items():
                            renames.append(KwRename(m.__name__, None, name, obj, old_kw, new_kw))
            if inspect.isclass(obj) and obj.__module__ == m.__name__:
                classes[_qual(obj)] = obj
    for q, cls in classes.items():
        for name, attr in list(vars(cls).items()):
            f, binding = _raw(attr)
            if inspect.isfunction(f) and getattr(f, '__deprecated__', False):
                marker_count += 1
            k = wrapper_kind(f)
            if k == 'alias':
                aliases.append(Alias(cls.__module__, cls, name, f, binding))
            elif k == 'params':
                for old_kw, new_kw in _cells(f)['obsolete_params'].items():
                    renames.append(KwRename(cls.__module__, cls, name, f, old_kw, new_kw))
    if marker_count != len(aliases):
        raise RuntimeError(
            f'C20 discovery: {marker_count} callables carry __deprecated__ but {len(aliases)} were '
            f'recognised by their closure: biogeme/deprecated.py changed shape, adapt wrapper_kind')
    aliases.sort(key=lambda a: a.id)
    renames.sort(key=lambda r: r.id)
    # receivers: every class of the package through which the wrapper is reachable
    pairs, kw_pairs = [], []
    for item, sink, attr_name in [(a, pairs, a.old_name) for a in aliases] + \
                                 [(r, kw_pairs, r.func_name) for r in renames]:
        if item.cls is None:
            sink.append(Pair(item, None))
            continue
        for q in sorted(classes):
            k = classes[q]
            if not issubclass(k, item.cls):
                continue
            if inspect.isabstract(k):
                notes.append(f'{attr_name} on {k.__name__}: abstract class, no object to call it on')
                continue
            try:
                got, _ = _raw(inspect.getattr_static(k, attr_name))
            except AttributeError:
                continue
            if got is item.wrapper:
                sink.append(Pair(item, k))
    return mods, classes, aliases, renames, pairs, kw_pairs, notes


MODULES, CLASSES, ALIASES, RENAMES, PAIR_LIST, KW_PAIR_LIST, DISCOVERY_NOTES = _discover()
PAIRS = {p.id: p for p in PAIR_LIST}
KW_PAIRS = {p.id: p for p in KW_PAIR_LIST}


def _namespace_lookup(item_cls, module_name, name):
    """The object a user reaches under `name` next to the alias: class attribute, else module global."""
    if item_cls is not None:
        try:
            return _raw(inspect.getattr_static(item_cls, name))[0], 'class'
        except AttributeError:
            pass
    mod = sys.modules.get(module_name)
    if mod is not None and name in vars(mod):
        return vars(mod)[name], 'module'
    return None, None


def _namespace_names(item_cls, module_name):
    names = {}
    mod = sys.modules.get(module_name)
    if mod is not None:
        for n, o in vars(mod).items():
            if callable(o) and not inspect.isclass(o):
                names[n] = o
    if item_cls is not None:
        for n in dir(item_cls):
            try:
                o = _raw(inspect.getattr_static(item_cls, n))[0]
            except AttributeError:
                continue
            if callable(o):
                names[n] = o
    return names


_SAME_AS = re.compile(r'[Ss]ame as\s+[`:\w]*?`?([A-Za-z_][A-Za-z0-9_]*)`?[\s.,;)]')


def target_findings(alias: Alias):
    """Static 'purpose' rule. Returns list of (aspect_detail, message)."""
    found = []
    names = _namespace_names(alias.cls, alias.module)
    same = [n for n, o in names.items()
            if wrapper_kind(o) != 'alias' and not n.startswith('__')
            and norm_name(n) == norm_name(alias.old_name) and n != alias.old_name]
    if same and alias.new_name not in same:
        found.append(f'{alias.id} forwards to {alias.new_name!r} although {sorted(same)} carries the '
                     f'same name in the new spelling')
    m = _SAME_AS.search(alias.doc + ' ')
    if m and m.group(1) != alias.new_name:
        found.append(f'{alias.id}: its documentation says "Same as {m.group(1)}" but it forwards to '
                     f'{alias.new_name!r}')
    obj, where = _namespace_lookup(alias.cls, alias.module, alias.new_name)
    if obj is None:
        found.append(f'{alias.id}: the warning names {alias.new_name!r}, which exists neither in '
                     f'{"class " + alias.cls.__name__ if alias.cls else "module " + alias.module} '
                     f'nor in module {alias.module}')
    elif obj is not alias.new_func:
        found.append(f'{alias.id}: the warning names {alias.new_name!r} but the captured function is '
                     f'not the object published under that name in the {where}')
    return found


def rename_target_findings(r: KwRename):
    found = []
    try:
        inspect.signature(r.func)
    except (TypeError, ValueError):
        return found
    accepted = set(r.accepted) | set(r.open)  # by signature, and through **kwargs
    candidates = accepted | {v for v in r.map.values() if v}
    same = sorted(n for n in candidates if norm_name(n) == norm_name(r.old_kw) and n != r.old_kw)
    if same and r.new_kw not in same:
        found.append(f'{r.id}: obsolete keyword {r.old_kw!r} is mapped to {r.new_kw!r} although '
                     f'{same} is its new spelling')
    if r.new_kw and r.new_kw not in accepted and (not r.has_kwargs or r.open):
        found.append(f'{r.id}: {r.old_kw!r} is mapped to {r.new_kw!r}, which {r.func_name} does not accept'
                     + (' (not in its signature, and not one of the names it takes through **kwargs)'
                        if r.has_kwargs else ''))
    return found

# ---------------------------------------------------------------------------------------------
# canonical (picklable, comparable) form of results and object states

_MASKS = [
    (re.compile(r'\d{4}-\d{2}-\d{2}[ T]\d{2}:\d{2}:\d{2}(\.\d+)?'), '<datetime>'),
    (re.compile(r'\b\d+:\d{2}:\d{2}(\.\d+)?\b'), '<duration>'),
    (re.compile(r'0x[0-9a-fA-F]{6,}'), '<addr>'),
    # the engine evaluates rows in parallel: which row reports an error first is a matter of scheduling
    (re.compile(r'Error for data entry \d+'), 'Error for data entry <n>'),
]
_OBJECT_ID = re.compile(r'(?<![\d.])\d{12,}(?![\d.])')  # id(object), e.g. inside expression signatures


def mask(s: str, ids=None) -> str:
    """Wall-clock stamps, durations and addresses are masked; object ids are renumbered in order of
    first appearance (which keeps the sharing structure they encode)."""
    for rx, rep in _MASKS:
        s = rx.sub(rep, s)
    if ids is None:
        ids = {}
    return _OBJECT_ID.sub(lambda m: f'#{ids.setdefault(m.group(0), len(ids))}', s)


_PLAIN_KINDS = 'biuf'


def canon(o, memo=None, depth=0):
    import datetime as _dt

    if o is None or o is True or o is False:
        return o
    t = type(o)
    if t is float or t is int:
        return o
    if memo is None:
        memo = {}
    ids = memo.get('__ids__')
    if ids is None:
        ids = memo['__ids__'] = {}
    if t is str:
        return mask(o, ids)
    if depth > 60:
        return {'too_deep': t.__name__}
    if t is list or t is tuple:
        return {t.__name__: [canon(v, memo, depth + 1) for v in o]}
    if t is dict:
        return {'dict': [[canon(k, memo, depth + 1), canon(v, memo, depth + 1)] for k, v in o.items()]}
    if isinstance(o, (bool, int, float)):
        return o
    if isinstance(o, str):
        return mask(o, ids)
    if isinstance(o, complex):
        return {'complex': [o.real, o.imag]}
    if isinstance(o, bytes):
        return {'bytes': mask(o.decode('latin1'), ids)}
    if isinstance(o, np.generic):
        return canon(o.item(), memo, depth + 1)
    if isinstance(o, (_dt.datetime, _dt.date, _dt.time)):
        return '<datetime>'
    if isinstance(o, _dt.timedelta):
        return '<duration>'
    if isinstance(o, np.ndarray):
        if o.dtype.kind in _PLAIN_KINDS:
            return {'nd': [list(o.shape), o.dtype.kind, o.tolist()]}
        return {'nd': [list(o.shape), 'object', canon(o.tolist(), memo, depth + 1)]}
    if isinstance(o, pd.DataFrame):
        kinds = [dt.kind for dt in o.dtypes]
        if all(k in _PLAIN_KINDS for k in kinds):
            values = o.to_numpy().tolist() if len(o.columns) else []
        else:
            values = canon(o.to_numpy(dtype=object).tolist(), memo, depth + 1)
        return {'df': [canon([str(c) for c in o.columns], memo, depth + 1),
                       canon(o.index.tolist(), memo, depth + 1), kinds, values]}
    if isinstance(o, pd.Series):
        if o.dtype.kind in _PLAIN_KINDS:
            values = o.to_numpy().tolist()
        else:
            values = canon(o.to_numpy(dtype=object).tolist(), memo, depth + 1)
        return {'series': [str(o.name), canon(o.index.tolist(), memo, depth + 1), o.dtype.kind, values]}
    if isinstance(o, pd.Index):
        return {'index': canon(o.tolist(), memo, depth + 1)}
    if isinstance(o, dict):
        return {'dict': [[canon(k, memo, depth + 1), canon(v, memo, depth + 1)] for k, v in o.items()]}
    if isinstance(o, tuple) and hasattr(o, '_fields'):
        return {'namedtuple': t.__name__,
                'items': [[f, canon(v, memo, depth + 1)] for f, v in zip(o._fields, o)]}
    if isinstance(o, (list, tuple)):
        return {t.__name__: [canon(v, memo, depth + 1) for v in o]}
    if isinstance(o, (set, frozenset)):
        items = [canon(v, memo, depth + 1) for v in o]
        return {'set': sorted(items, key=repr)}
    if isinstance(o, range):
        return {'range': [o.start, o.stop, o.step]}
    if isinstance(o, type):
        return {'type': f'{o.__module__}.{o.__qualname__}'}
    if inspect.isroutine(o):
        return {'fn': getattr(o, '__qualname__', t.__name__)}
    if hasattr(o, '__dict__') or hasattr(t, '__slots__'):
        if id(o) in memo:
            return {'ref': memo[id(o)]}
        memo[id(o)] = len(memo)
        attrs = {}
        if hasattr(o, '__dict__'):
            attrs.update(vars(o))
        for s in getattr(t, '__slots__', ()) or ():
            if isinstance(s, str) and hasattr(o, s):
                attrs[s] = getattr(o, s)
        return {'obj': t.__qualname__, 'n': memo[id(o)],
                'attrs': [[k, canon(attrs[k], memo, depth + 1)] for k in sorted(attrs, key=str)]}
    return {'opaque': t.__name__}


def _is_num(x):
    return isinstance(x, (int, float)) and not isinstance(x, bool)


def first_diff(a, b, path='$'):
    """None if equal (floats within FTOL), else a short description of the first difference."""
    if _is_num(a) and _is_num(b):
        if a == b:
            return None
        fa, fb = float(a), float(b)
        if math.isnan(fa) and math.isnan(fb):
            return None
        if math.isfinite(fa) and math.isfinite(fb) and abs(fa - fb) <= FTOL * (1 + max(abs(fa), abs(fb))) \
                and isinstance(a, float) and isinstance(b, float):
            return None
        return f'{path}: {a!r} vs {b!r}'
    if type(a) is not type(b):
        return f'{path}: {_short(a)} vs {_short(b)}'
    if isinstance(a, dict):
        if list(a.keys()) != list(b.keys()):
            return f'{path}: {_short(a)} vs {_short(b)}'
        for k in a:
            d = first_diff(a[k], b[k], f'{path}.{k}')
            if d:
                return d
        return None
    if isinstance(a, list):
        if len(a) != len(b):
            return f'{path}: {len(a)} items {_short(a)} vs {len(b)} items {_short(b)}'
        for i, (x, y) in enumerate(zip(a, b)):
            label = i
            if isinstance(x, list) and len(x) == 2 and isinstance(x[0], str):
                label = x[0]
            d = first_diff(x, y, f'{path}[{label}]')
            if d:
                return d
        return None
    if a != b:
        if isinstance(a, str) and max(len(a), len(b)) > 80:
            i = next((k for k, (x, y) in enumerate(zip(a, b)) if x != y), min(len(a), len(b)))
            return f'{path} (char {i}): ...{a[max(0, i - 40):i + 60]!r} vs ...{b[max(0, i - 40):i + 60]!r}'
        return f'{path}: {_short(a)} vs {_short(b)}'
    return None


def _short(x, n=160):
    s = repr(x)
    return s if len(s) <= n else s[:n] + '...'


def _files_snapshot(root):
    out = []
    for dirpath, _, files in os.walk(root):
        for fn in sorted(files):
            p = os.path.join(dirpath, fn)
            rel = os.path.relpath(p, root)
            try:
                with open(p, 'rb') as f:
                    data = f.read()
            except OSError:
                data = b''
            if fn.endswith(('.pickle', '.pkl')):
                out.append([rel, 'binary', len(data) > 0])
            else:
                out.append([rel, mask(data.decode('utf-8', 'replace'))])
    return sorted(out)


def _exc_info(e):
    return [type(e).__name__, type(e).__module__, mask(str(e))[:600]]


def _warn_list(ws):
    return [[w.category.__name__, mask(str(w.message)),
             issubclass(w.category, DeprecationWarning)] for w in ws]


def _workdir():
    # same path in the two children of one case (they run one after the other)
    return os.path.join(tempfile.gettempdir(), f'c20_{os.getppid()}')


def _quiet_child():
    try:
        fd = os.open(os.devnull, os.O_WRONLY)
        os.dup2(fd, 2)
        os.dup2(fd, 1)
    except OSError:
        pass


class Unbuildable(Exception):
    """No receiver of this class can be made (abstract class, unknown constructor)."""


class World:
    """What one side of the comparison is run on."""

    def __init__(self, receiver=None, args=(), extras=None, post=None):
        self.receiver = receiver  # object the name is looked up on (None: module function)
        self.args = list(args)  # [(parameter name of the replacement, value), ...]
        self.extras = extras or {}  # further objects whose state belongs to the observation
        self.post = post  # turns a returned callable / handle into comparable data


def _split_args(world, style, obsolete):
    """positional / keyword / obsolete-keyword spelling of the same arguments."""
    pos, kw = [], {}
    if style == 'pos':
        pos = [v for _, v in world.args]
    else:
        for n, v in world.args:
            if style == 'oldkw' and n in obsolete:
                if obsolete[n] is not None:
                    kw[obsolete[n]] = v
            elif not n.startswith('<ignored:'):
                kw[n] = v
    return pos, kw


def _fresh_workdir():
    wd = _workdir()
    try:
        with os.scandir(wd) as it:
            dirty = any(True for _ in it)
    except FileNotFoundError:
        os.makedirs(wd)
        dirty = False
    if dirty:
        shutil.rmtree(wd, ignore_errors=True)
        os.makedirs(wd)
    return wd


def _run_side(spec, which, make_world, resolve, obsolete, with_before=True):
    """Child process: build the world, call one name, report everything observable."""
    _quiet_child()
    wd = _fresh_workdir()
    os.chdir(wd)
    try:
        np.random.seed(spec['np_seed'])
        try:
            world = make_world(spec)
        except Unbuildable as e:
            return dict(not_judged=str(e), exc=None)
        except Exception as e:  # noqa: the library refuses to build the receiver / the arguments
            tb = e.__traceback__
            while tb.tb_next is not None:
                tb = tb.tb_next
            if '/vlib/' in tb.tb_frame.f_code.co_filename:
                raise  # a bug of the generator, not a refusal of the library
            return dict(not_judged=f'building {spec.get("receiver_label", "the receiver")} and the arguments '
                                   f'raised {type(e).__name__}', exc=None)
        if getattr(world, 'missing', None):
            return dict(not_judged=world.missing, exc=None)
        before = canon([world.receiver, [v for _, v in world.args], world.extras]) if with_before else None
        target = resolve(world, which)
        if target is None:
            return dict(unresolved=True, exc=None)
        pos, kw = _split_args(world, spec.get('style', 'pos'), obsolete)
        np.random.seed(spec['np_seed'])
        exc = None
        result = None
        with warnings.catch_warnings(record=True) as ws:
            warnings.simplefilter('always')
            try:
                result = target(*pos, **kw)
                if world.post is not None:
                    result = world.post(result, world)
            except Exception as e:  # noqa: reported, compared with the other side
                exc = _exc_info(e)
        return dict(unresolved=False, before=before, exc=exc, result=canon(result),
                    warnings=_warn_list(ws),
                    after=canon([world.receiver, [v for _, v in world.args], world.extras]),
                    files=_files_snapshot(wd), nargs=len(world.args),
                    arg_names=[n for n, _ in world.args], info=getattr(world, 'info', None))
    finally:
        os.chdir('/')

# ---------------------------------------------------------------------------------------------
# family: expressions (receivers: every Expression subclass of the package)

import biogeme.expressions as _bx
from biogeme.expressions import Expression as _Expression

DRAW_TYPES = ['UNIFORM', 'NORMAL', 'UNIFORM_ANTI', 'NORMAL_HALTON2', 'UNIFORMSYM']
_POS_RIGHT = {'Divide', 'Power'}
_POS_LEFT = {'Power'}
_POS_CHILD = {'log', 'logzero'}


def _devariable(spec, row):
    if isinstance(spec, dict):
        return {k: _devariable(v, row) for k, v in spec.items()}
    if not isinstance(spec, list):
        return spec
    if spec and spec[0] == 'Var' and len(spec) == 2 and isinstance(spec[1], str):
        return ['Num', row[spec[1]]]
    if spec and spec[0] == 'LinUtil':
        return ['MultSum', [['Times', b, ['Num', row[x[1]]]] for b, x in spec[1]]]
    return [_devariable(c, row) for c in spec]


def _ctor_params(cls):
    try:
        sig = inspect.signature(cls.__init__)
    except (TypeError, ValueError):
        return None
    return tuple(p.name for p in list(sig.parameters.values())[1:]
                 if p.kind in (p.POSITIONAL_OR_KEYWORD, p.KEYWORD_ONLY))


@st.composite
def _expr_table(draw):
    table, info = draw(gen.tables(min_rows=3, max_rows=5, n_real=(2, 3), n_pos=(1, 2), n_int=(1, 1),
                                  n_bool=(1, 1), alts=[1, 2, 3], extra_names=('pid',)))
    n = info['n']
    # individuals: contiguous groups, used when a panel database is needed
    ids = sorted(draw(st.lists(st.integers(1, 3), min_size=n, max_size=n)))
    table['columns'].append(['pid', 'int', ids])
    return table, info


@st.composite
def _expr_material(draw):
    """Ingredients from which a receiver of ANY expression class can be assembled (one material serves
    the whole sweep over the receiver classes)."""
    table, info = draw(_expr_table())
    g = gen.TreeGen(draw, info, max_betas=3, sharing=False, literals=False, max_nodes=14, logit=False,
                    beta_names=['B_1', 'b_time', 'ASC'])
    beta = g._beta()
    if beta[0] != 'Beta':
        beta = ['Beta', 'B_solo', 0.5, None, None, 0]
    integer = list(g.integer(1))
    int_leaf = list(g._int_leaf())
    m = dict(
        table=table,
        names=dict(real=info['real'], pos=info['pos'], alts=info['alts'], av=info['av'], choice=info['choice']),
        real=[g.real(2), g.real(2), g.real(1)], pos=[g.pos(2), g.pos(1)],
        boolean=[g.boolean(1), g.boolean(1)], integer=integer, int_leaf=int_leaf, beta=beta,
        linutil=g._linutil()[1],
        draw_type=draw(st.sampled_from(DRAW_TYPES)),
        exponent=draw(st.sampled_from([2.0, 0.5, -1.0, 3.0, 0.0])),
        value=draw(st.one_of(gen.real_values(), st.integers(-3, 3), st.booleans())),
        members=draw(st.lists(st.integers(integer[1] - 1, integer[2] + 1), min_size=1, max_size=3, unique=True)),
        var=draw(st.sampled_from(info['real'])),
    )
    return m


def _receiver_parts(cls, m):
    """Constructor arguments (JSON) of one receiver class out of the material, or {'unbuildable': why}."""
    name = cls.__name__
    if inspect.isabstract(cls):
        return dict(unbuildable=f'{name} is abstract')
    params = _ctor_params(cls)
    real, pos = m['real'], m['pos']
    names = m['names']
    if params == ():
        return dict(kind='none')
    if params == ('left', 'right'):
        left = pos[0] if name in _POS_LEFT else real[0]
        right = pos[1] if name in _POS_RIGHT else real[1]
        return dict(kind='binary', left=left, right=right)
    if params == ('child',):
        if name == 'MonteCarlo':
            child = ['Plus', ['Times', ['Draws', 'xi', m['draw_type']], real[2]], real[0]]
        elif name == 'PanelLikelihoodTrajectory':
            child = ['exp', ['Neg', pos[1]]]
        else:
            child = pos[0] if name in _POS_CHILD else real[0]
        return dict(kind='unary', child=child)
    if params == ('child', 'name'):
        if name == 'Integrate':
            child = ['Times', ['exp', ['Neg', ['Times', ['RV', 'omega'], ['RV', 'omega']]]], pos[1]]
            return dict(kind='child_name', child=child, name='omega')
        var = m['var']
        child = ['Plus', ['Times', ['Var', var], real[2]], ['PowC', ['Var', var], 2.0]]
        return dict(kind='child_name', child=child, name=var)
    if params == ('child', 'the_set'):
        return dict(kind='child_set', child=m['integer'][0], the_set=m['members'])
    if params == ('child', 'exponent'):
        return dict(kind='child_exponent', child=pos[0], exponent=m['exponent'])
    if params == ('name',):
        if name == 'RandomVariable':
            return dict(kind='name', name='omega')
        return dict(kind='name', name=m['var'])
    if params == ('name', 'draw_type'):
        return dict(kind='draws', name='xi', draw_type=m['draw_type'])
    if params == ('name', 'value', 'lowerbound', 'upperbound', 'status'):
        return dict(kind='beta', beta=m['beta'])
    if params == ('value',):
        return dict(kind='value', value=m['value'])
    if params == ('name', 'expression', 'database'):
        return dict(kind='define', name='defined_v', expression=real[0])
    if params == ('list_of_terms',):
        if name == 'bioLinearUtility':
            return dict(kind='linutil', terms=m['linutil'])
        return dict(kind='condsum', terms=[[m['boolean'][0], real[0]], [m['boolean'][1], real[2]]])
    if params == ('dict_of_expressions', 'key_expression'):
        key, lo, hi = m['int_leaf']
        entries = [[kk, real[(kk - lo) % 3]] for kk in range(lo, hi + 1)]
        return dict(kind='elem', key=key, entries=entries)
    if params == ('list_of_expressions',):
        return dict(kind='multsum', terms=list(real))
    if params in (('util', 'av', 'choice'), ('util', 'choice')):
        util = [[a, real[i % 3]] for i, a in enumerate(names['alts'])]
        with_av = params == ('util', 'av', 'choice') and m['exponent'] >= 1.0
        av = [[a, ['Var', names['av'][str(a)]]] for a in names['alts']] if with_av else None
        return dict(kind='logit', util=util, av=av, choice=['Var', names['choice']],
                    full=params == ('util', 'choice'))
    if params == ('catalog_name', 'named_expressions', 'controlled_by'):
        return dict(kind='catalog', name='cat', items=[['first', real[0]], ['second', real[1]]])
    return dict(unbuildable=f'no receiver factory for {name}{params}')


def _build_receiver(cls, parts, database):
    from biogeme.expressions import ConditionalTermTuple, LinearTermTuple, NamedExpression

    b = build.Builder([], overloads=False).build
    k = parts['kind']
    if k == 'none':
        return cls()
    if k == 'binary':
        return cls(b(parts['left']), b(parts['right']))
    if k == 'unary':
        return cls(b(parts['child']))
    if k == 'child_name':
        return cls(b(parts['child']), parts['name'])
    if k == 'child_set':
        return cls(b(parts['child']), set(float(x) for x in parts['the_set']))
    if k == 'child_exponent':
        return cls(b(parts['child']), parts['exponent'])
    if k == 'name':
        return cls(parts['name'])
    if k == 'draws':
        return cls(parts['name'], parts['draw_type'])
    if k == 'beta':
        _, n, v, lb, ub, status = parts['beta']
        return cls(n, v, lb, ub, status)
    if k == 'value':
        return cls(parts['value'])
    if k == 'define':
        return cls(parts['name'], b(parts['expression']), database)
    if k == 'linutil':
        return cls([LinearTermTuple(beta=b(bb), x=b(x)) for bb, x in parts['terms']])
    if k == 'condsum':
        return cls([ConditionalTermTuple(condition=b(c), term=b(t)) for c, t in parts['terms']])
    if k == 'elem':
        return cls({kk: b(e) for kk, e in parts['entries']}, b(parts['key']))
    if k == 'multsum':
        return cls([b(e) for e in parts['terms']])
    if k == 'logit':
        util = {a: b(u) for a, u in parts['util']}
        choice = b(parts['choice'])
        if parts['full']:
            return cls(util, choice)
        av = {a: b(x) for a, x in parts['av']} if parts['av'] is not None else None
        return cls(util, av, choice)
    if k == 'catalog':
        return cls(parts['name'], [NamedExpression(name=n, expression=b(e)) for n, e in parts['items']])
    raise ValueError(k)


def _expr_names(parts):
    """Names of variables / parameters occurring in the parts (for name-valued arguments)."""
    names = []

    def walk(x):
        if isinstance(x, dict):
            for v in x.values():
                walk(v)
        elif isinstance(x, list):
            if x and x[0] in ('Var', 'Beta', 'RV', 'Draws') and len(x) >= 2 and isinstance(x[1], str):
                names.append(x[1])
            for v in x:
                walk(v)
    walk(parts)
    if isinstance(parts, dict) and isinstance(parts.get('name'), str):
        names.append(parts['name'])
    return sorted(set(names))


def _free_betas(parts):
    out = {}

    def walk(x):
        if isinstance(x, dict):
            for v in x.values():
                walk(v)
        elif isinstance(x, list):
            if x and x[0] == 'Beta' and len(x) == 6:
                if x[5] == 0:
                    out[x[1]] = x[2]
            for v in x:
                walk(v)
    walk(parts)
    return out


EXPR_CLASS_NAMES = sorted({c.__name__ for c in CLASSES.values() if issubclass(c, _Expression)})


@st.composite
def _expr_args(draw, method, parts):
    """Arguments by the name of the *replacement* (so that a renamed alias keeps its generator)."""
    names = _expr_names(parts) + ['omega', 'xi']
    betas = _free_betas(parts)
    a = {}
    if method == 'set_id_manager':
        a['id_manager'] = draw(st.sampled_from(['none', 'fresh']))
    elif method == 'get_elementary_expression':
        own = [parts['var'], parts['beta'][1], 'omega', 'xi'] if 'var' in parts and 'beta' in parts else []
        a['name'] = draw(st.sampled_from(own + own + names + ['no_such_name']))
    elif method == 'embed_expression':
        a['t'] = draw(st.sampled_from(EXPR_CLASS_NAMES + ['MonteCarlo', 'PanelLikelihoodTrajectory']))
    elif method in ('get_value_c', 'get_value_and_derivatives', 'create_function',
                    'create_objective_function', 'prepare'):
        a['database'] = draw(st.integers(0, 9)) < 9
        a['number_of_draws'] = 2 * draw(st.integers(1, 4))
        if method in ('get_value_c', 'get_value_and_derivatives'):
            chosen = {n: draw(gen.real_values(-1.0, 1.0)) for n in sorted(betas) if draw(st.booleans())}
            a['betas'] = chosen if draw(st.booleans()) else None
            a['aggregation'] = draw(st.booleans())
            a['prepare_ids'] = draw(st.integers(0, 9)) < 9
        if method in ('get_value_and_derivatives', 'create_function', 'create_objective_function'):
            grad = draw(st.booleans())
            a['gradient'] = grad
            a['hessian'] = grad and draw(st.booleans())
            a['bhhh'] = grad and draw(st.booleans())
        if method == 'get_value_and_derivatives':
            a['named_results'] = draw(st.booleans())
        if method in ('create_function', 'create_objective_function'):
            a['x_shift'] = draw(gen.dyadic(-1, 1))
    return a


@st.composite
def _st_expr(draw, method, known_method):
    m = draw(_expr_material())
    w = dict(material=m)
    if method == 'get_value' and draw(st.integers(0, 3)) < 3:
        row = build.table_rows(m['table'])[0]
        keep = {k: m[k] for k in ('table', 'names', 'linutil', 'var')}
        w['material'] = m = dict(_devariable({k: v for k, v in m.items() if k not in keep}, row), **keep)
    needs_ids = method in ('get_signature',)
    w['prepared'] = draw(st.integers(0, 9)) < (9 if needs_ids else 5)
    w['args'] = draw(_expr_args(method, m)) if known_method else {}
    return w


_EXPR_ARG_ORDER = {
    'set_id_manager': ['id_manager'],
    'get_elementary_expression': ['name'],
    'embed_expression': ['t'],
    'prepare': ['database', 'number_of_draws'],
    'get_value_c': ['database', 'betas', 'number_of_draws', 'aggregation', 'prepare_ids'],
    'get_value_and_derivatives': ['betas', 'database', 'number_of_draws', 'gradient', 'hessian', 'bhhh',
                                  'aggregation', 'prepare_ids', 'named_results'],
    'create_function': ['database', 'number_of_draws', 'gradient', 'hessian', 'bhhh'],
    'create_objective_function': ['database', 'number_of_draws', 'gradient', 'hessian', 'bhhh'],
}
_EXPR_NOARG = {'get_status_id_manager', 'get_value', 'requires_draws', 'get_class_name', 'get_signature',
               'count_panel_trajectory_expressions'}


def _expr_known(method):
    return method in _EXPR_ARG_ORDER or method in _EXPR_NOARG


def _post_function(result, world):
    """create_function returns a callable: observe it at a point."""
    recv = world.receiver
    x = np.array([v + world.extras['x_shift'] for v in recv.id_manager.free_betas_values], dtype=float)
    return ['value at', x.tolist(), result(x)]


def _post_objective(result, world):
    recv = world.receiver
    x = np.array([v + world.extras['x_shift'] for v in recv.id_manager.free_betas_values], dtype=float)
    result.set_variables(x)
    return ['objective at', x.tolist(), result.f(), result.f_g()]


def _world_expr(method, recv_cls, w):
    from biogeme.expressions.idmanager import IdManager

    database = build.build_database(w['material']['table'])
    if recv_cls.__name__ == 'PanelLikelihoodTrajectory':
        database.panel('pid')
    parts = _receiver_parts(recv_cls, w['material'])
    if 'unbuildable' in parts:
        raise Unbuildable(parts['unbuildable'])
    recv = _build_receiver(recv_cls, parts, database)
    a = w.get('args', {})
    n_draws = a.get('number_of_draws', 4)
    if w.get('prepared'):
        try:
            recv.prepare(database, n_draws)
        except Exception:  # noqa: an unpreparable receiver is still a receiver; both sides alike
            pass
    args = []
    extras = dict(database=database)
    post = None
    for name in _EXPR_ARG_ORDER.get(method, []):
        if name not in a:
            continue
        v = a[name]
        if name == 'database':
            v = database if v else None
        elif name == 'id_manager':
            v = IdManager([recv], database, n_draws) if v == 'fresh' else None
        args.append((name, v))
    if method == 'create_function':
        extras['x_shift'] = a.get('x_shift', 0.0)
        post = _post_function
    if method == 'create_objective_function':
        extras['x_shift'] = a.get('x_shift', 0.0)
        post = _post_objective
    return World(receiver=recv, args=args, extras=extras, post=post)

# ---------------------------------------------------------------------------------------------
# family: Database / BIOGEME / bioResults / IdManager receivers


def _rng_lognormal(sample_size, number_of_draws):
    return np.exp(np.random.randn(sample_size, number_of_draws))


def _rng_exponential(sample_size, number_of_draws):
    return -1.0 * np.log(np.random.rand(sample_size, number_of_draws))


USER_RNG = {'LOGNORMAL': _rng_lognormal, 'EXP': _rng_exponential}


@st.composite
def _st_database(draw, method, known):
    table, info = draw(_expr_table())
    g = gen.TreeGen(draw, info, max_betas=2, sharing=False, literals=False, max_nodes=10, logit=False,
                    beta_names=['B_1', 'b_time'])
    cols = [c[0] for c in table['columns']]
    needs_panel = method in ('sample_individual_map_with_replacement', 'build_panel_map',
                             'generate_flat_panel_dataframe')
    w = dict(table=table, panel=needs_panel or draw(st.integers(0, 4)) == 0)
    a = {}
    if not known:
        w['args'] = a
        return w
    if method == 'values_from_database':
        g.param_free = 1
        a['expression'] = g.real(3)
    elif method in ('check_availability_of_chosen_alt', 'choice_availability_statistics'):
        a['avail'] = [[alt, ['Var', info['av'][str(alt)]]] for alt in info['alts']]
        a['choice'] = ['Var', info['choice']]
    elif method == 'scale_column':
        a['column'] = draw(st.sampled_from(cols))
        a['scale'] = draw(st.sampled_from([0.5, 2.0, 10.0, 0.001, 1.0]))
    elif method == 'suggest_scaling':
        a['columns'] = draw(st.one_of(st.none(), st.lists(st.sampled_from(cols), min_size=1, max_size=3, unique=True)))
        a['report_all'] = draw(st.booleans())
    elif method in ('sample_with_replacement', 'sample_individual_map_with_replacement'):
        a['size'] = draw(st.one_of(st.none(), st.integers(1, 7)))
    elif method == 'add_column':
        g.param_free = 1
        a['expression'] = g.real(2)
        a['column'] = draw(st.sampled_from(['new_col', 'z_9', cols[0]]))
    elif method == 'define_variable':
        g.param_free = 1
        a['name'] = draw(st.sampled_from(['new_var', 'z_9', cols[0]]))
        a['expression'] = g.real(2)
    elif method == 'set_random_number_generators':
        names = draw(st.lists(st.sampled_from(sorted(USER_RNG) + ['NORMAL']), min_size=1, max_size=2, unique=True))
        a['rng'] = [[n, n if n in USER_RNG else 'LOGNORMAL', f'user generator {n}'] for n in names]
    elif method == 'generate_draws':
        k = draw(st.integers(1, 3))
        names = [f'xi{i}' for i in range(k)]
        a['draw_types'] = [[n, draw(st.sampled_from(DRAW_TYPES))] for n in names]
        a['names'] = names
        a['number_of_draws'] = 2 * draw(st.integers(1, 4))
    elif method == 'generate_flat_panel_dataframe':
        a['save_on_file'] = draw(st.booleans())
        a['identical_columns'] = draw(st.one_of(st.none(), st.just([]), st.just(['pid']),
                                                st.lists(st.sampled_from(cols), min_size=1, max_size=2, unique=True)))
    w['args'] = a
    return w


_DB_ARG_ORDER = {
    'values_from_database': ['expression'],
    'check_availability_of_chosen_alt': ['avail', 'choice'],
    'choice_availability_statistics': ['avail', 'choice'],
    'scale_column': ['column', 'scale'],
    'suggest_scaling': ['columns', 'report_all'],
    'sample_with_replacement': ['size'],
    'sample_individual_map_with_replacement': ['size'],
    'add_column': ['expression', 'column'],
    'define_variable': ['name', 'expression'],
    'set_random_number_generators': ['rng'],
    'generate_draws': ['draw_types', 'names', 'number_of_draws'],
    'generate_flat_panel_dataframe': ['save_on_file', 'identical_columns'],
}
_DB_NOARG = {'dump_on_file', 'get_number_of_observations', 'get_sample_size', 'is_panel', 'build_panel_map',
             'description_of_native_draws'}


def _world_database(method, recv_cls, w):
    b = build.Builder([], overloads=False).build
    database = recv_cls('verif', build.build_dataframe(w['table']))
    if w.get('panel'):
        database.panel('pid')
    a = w.get('args', {})
    args = []
    for name in _DB_ARG_ORDER.get(method, []):
        if name not in a:
            continue
        v = a[name]
        if name == 'expression':
            v = b(v)
        elif name == 'choice':
            v = b(v)
        elif name == 'avail':
            v = {alt: b(e) for alt, e in v}
        elif name == 'rng':
            v = {n: (USER_RNG[f], d) for n, f, d in v}
        elif name == 'draw_types':
            v = dict((n, t) for n, t in v)
        args.append((name, v))
    return World(receiver=database, args=args)


# ---- a small logit model


@st.composite
def _st_model(draw, max_rows=10):
    """Structure drawn by Hypothesis; the bulk numbers of the table come from `data_seed`."""
    betas = [
        ['B_X', draw(gen.real_values(-1, 1)), None, None, 0],
        ['ASC_1', draw(gen.real_values(-1, 1)), draw(st.sampled_from([None, -10.0])),
         draw(st.sampled_from([None, 10.0])), 0],
        ['ASC_2', draw(gen.real_values(-1, 1)), None, None, draw(st.sampled_from([0, 1]))],
        ['B_Z', draw(gen.real_values(-1, 1)), -5.0, 5.0, draw(st.sampled_from([0, 1]))],
    ]
    return dict(n=draw(st.integers(6, max_rows)), data_seed=draw(st.integers(0, 2**31 - 1)), betas=betas,
                bootstrap_samples=draw(st.integers(3, 5)))


def _model_table(model):
    if 'x' in model:
        return model
    rs = np.random.RandomState(model['data_seed'])
    n = model['n']
    x = (rs.randint(-16, 17, size=(3, n)) / 8.0).tolist()
    z = (rs.randint(2, 25, size=n) / 8.0).tolist()
    choice = rs.randint(1, 4, size=n)
    choice[:3] = [1, 2, 3]  # every alternative chosen at least once
    av = rs.randint(0, 2, size=(3, n)) | rs.randint(0, 2, size=(3, n))
    for j in range(3):
        av[j][choice == j + 1] = 1
    return dict(model, x=x, z=z, choice=choice.tolist(), av=av.tolist())


def _model_objects(model):
    """Fresh database, utilities, availabilities, log likelihood of the model spec."""
    import biogeme.database as db
    import biogeme.models as models
    from biogeme.expressions import Beta, Variable

    model = _model_table(model)
    cols = {'CHOICE': np.array(model['choice'], dtype=np.int64), 'Z': np.array(model['z'], dtype=float)}
    for j in range(3):
        cols[f'X{j + 1}'] = np.array(model['x'][j], dtype=float)
        cols[f'AV{j + 1}'] = np.array(model['av'][j], dtype=np.int64)
    database = db.Database('verif_model', pd.DataFrame(cols))
    bt = {n: Beta(n, v, lb, ub, s) for n, v, lb, ub, s in model['betas']}
    util = {
        1: bt['ASC_1'] + bt['B_X'] * Variable('X1') + bt['B_Z'] * Variable('Z'),
        2: bt['ASC_2'] + bt['B_X'] * Variable('X2'),
        3: bt['B_X'] * Variable('X3'),
    }
    av = {j: Variable(f'AV{j}') for j in (1, 2, 3)}
    loglike = models.loglogit(util, av, Variable('CHOICE'))
    return database, util, av, loglike


def _make_biogeme(model, formulas='loglike', init_kwargs=None, cls=None):
    import biogeme.biogeme as bio
    import biogeme.models as models
    from biogeme.expressions import Variable
    from biogeme.parameters import Parameters

    database, util, av, loglike = _model_objects(model)
    if formulas == 'simulate':
        f = {'P1': models.logit(util, av, 1), 'V2': util[2], 'LL': loglike}
    else:
        f = loglike
    kwargs = dict(parameters=Parameters(), number_of_threads=1,
                  bootstrap_samples=model['bootstrap_samples'])
    kwargs.update(init_kwargs or {})
    the = (cls or bio.BIOGEME)(database, f, **kwargs)
    the.modelName = 'verif_c20'
    if 'generate_html' not in (init_kwargs or {}) and 'generateHtml' not in (init_kwargs or {}):
        the.generate_html = False
    the.generate_pickle = False
    if 'save_iterations' not in (init_kwargs or {}) and 'saveIterations' not in (init_kwargs or {}):
        the.save_iterations = False
    return the


def _free_names(model):
    return sorted(n for n, _, _, _, s in model['betas'] if s == 0)


@st.composite
def _st_biogeme(draw, method, known):
    model = draw(_st_model())
    free = _free_names(model)
    w = dict(model=model, formulas='loglike')
    a = {}
    if not known:
        w['args'] = a
        return w
    xs = [draw(gen.real_values(-1.5, 1.5)) for _ in free]
    if method == 'get_bounds_on_beta':
        a['beta_name'] = draw(st.sampled_from(free + ['B_UNKNOWN', 'ASC_2']))
    elif method == 'calculate_null_loglikelihood':
        a['avail'] = draw(st.sampled_from(['columns', 'ones']))
    elif method == 'calculate_likelihood':
        a['x'] = xs if draw(st.integers(0, 9)) else xs[:-1]
        a['scaled'] = draw(st.booleans())
        a['batch'] = draw(st.sampled_from([None, None, None, 0.5]))
    elif method == 'calculate_likelihood_and_derivatives':
        a['x'] = xs if draw(st.integers(0, 9)) else xs + [0.0]
        a['scaled'] = draw(st.booleans())
        a['hessian'] = draw(st.booleans())
        a['bhhh'] = draw(st.booleans())
        a['batch'] = draw(st.sampled_from([None, None, None, 0.5]))
    elif method == 'likelihood_finite_difference_hessian':
        a['x'] = xs
    elif method == 'check_derivatives':
        a['beta'] = xs
        a['verbose'] = draw(st.booleans())
    elif method == 'set_random_init_values':
        a['default_bound'] = draw(st.sampled_from([100.0, 1.0, 5.0]))
    elif method == 'confidence_intervals':
        w['formulas'] = 'simulate'
        k = draw(st.integers(2, 4))
        a['beta_values'] = [{n: draw(gen.real_values(-1.0, 1.0)) for n in free} for _ in range(k)]
        a['interval_size'] = draw(st.sampled_from([0.9, 0.5, 0.95]))
    elif method == 'simulate':
        w['formulas'] = 'simulate'
        a['the_beta_values'] = {n: draw(gen.real_values(-1.0, 1.0)) for n in free}
        if draw(st.integers(0, 5)) == 5:
            a['the_beta_values'] = None  # legitimate: the initial values are used
    elif method == 'estimate':
        a['recycle'] = False
        a['run_bootstrap'] = draw(st.sampled_from([True, False, 3]))  # unlike the default first
    w['args'] = a
    return w


_BIO_ARG_ORDER = {
    'get_bounds_on_beta': ['beta_name'],
    'calculate_null_loglikelihood': ['avail'],
    'calculate_likelihood': ['x', 'scaled', 'batch'],
    'calculate_likelihood_and_derivatives': ['x', 'scaled', 'hessian', 'bhhh', 'batch'],
    'likelihood_finite_difference_hessian': ['x'],
    'check_derivatives': ['beta', 'verbose'],
    'set_random_init_values': ['default_bound'],
    'confidence_intervals': ['beta_values', 'interval_size'],
    'simulate': ['the_beta_values'],
    'estimate': ['recycle', 'run_bootstrap'],
}
_BIO_NOARG = {'calculate_init_likelihood', 'quick_estimate'}


def _post_results(result, world):
    """An estimation result: report its content (the object graph holds the whole model)."""
    return ['results', result.short_summary(), result.get_beta_values(),
            result.get_estimated_parameters(), result.data.optimizationMessages.get('Number of iterations')
            if isinstance(result.data.optimizationMessages, dict) else None]


def _world_biogeme(method, recv_cls, w):
    from biogeme.expressions import Variable

    the = _make_biogeme(w['model'], w.get('formulas', 'loglike'), cls=recv_cls)
    a = w.get('args', {})
    args = []
    for name in _BIO_ARG_ORDER.get(method, []):
        if name not in a:
            continue
        v = a[name]
        if name == 'avail':
            v = {j: Variable(f'AV{j}') for j in (1, 2, 3)} if v == 'columns' else {1: 1, 2: 1, 3: 1}
        elif name in ('x', 'beta'):
            v = np.array(v, dtype=float) if len(v) % 2 else list(v)
        args.append((name, v))
    post = _post_results if method in ('quick_estimate', 'estimate') else None
    return World(receiver=the, args=args, post=post)


# ---- estimation results


@st.composite
def _st_results(draw, method, known):
    model = draw(_st_model(max_rows=9))
    free = _free_names(model)
    w = dict(model=model, bootstrap=draw(st.booleans()) or method == 'get_bootstrap_var_covar')
    a = {}
    if known:
        if method in ('get_latex', 'get_estimated_parameters', 'get_html', 'write_html'):
            a['only_robust'] = draw(st.booleans())
        elif method == 'get_correlation_results':
            a['subset'] = draw(st.one_of(st.none(), st.lists(st.sampled_from(free + ['B_UNKNOWN']), min_size=1,
                                                              max_size=3, unique=True)))
        elif method == 'get_beta_values':
            # (the value unlike the default comes first: it is the one the simplest example carries)
            a['my_betas'] = draw(st.one_of(st.lists(st.sampled_from(free + ['B_UNKNOWN', 'B_X']),
                                                    min_size=1, max_size=3, unique=True), st.none()))
        elif method == 'get_betas_for_sensitivity_analysis':
            a['my_betas'] = draw(st.lists(st.sampled_from(free), min_size=1, max_size=3, unique=True))
            a['size'] = draw(st.integers(1, 6))
            a['use_bootstrap'] = draw(st.booleans())
        elif method in ('get_f12', 'write_f12'):
            a['robust_std_err'] = draw(st.booleans())
    w['args'] = a
    return w


_RES_ARG_ORDER = {
    'get_latex': ['only_robust'], 'get_estimated_parameters': ['only_robust'], 'get_html': ['only_robust'],
    'write_html': ['only_robust'], 'get_correlation_results': ['subset'], 'get_beta_values': ['my_betas'],
    'get_betas_for_sensitivity_analysis': ['my_betas', 'size', 'use_bootstrap'],
    'get_f12': ['robust_std_err'], 'write_f12': ['robust_std_err'],
}
_RES_NOARG = {'write_pickle', 'short_summary', 'get_general_statistics', 'print_general_statistics',
              'number_of_free_parameters', 'get_var_covar', 'get_robust_var_covar', 'get_bootstrap_var_covar',
              'write_latex'}


def _estimate(model, bootstrap=False):
    the = _make_biogeme(model)
    return the.estimate(run_bootstrap=bool(bootstrap))


def _world_results(method, recv_cls, w):
    results = _estimate(w['model'], w.get('bootstrap'))
    if type(results) is not recv_cls:
        results = recv_cls(the_raw_results=results.data)
    a = w.get('args', {})
    args = [(n, a[n]) for n in _RES_ARG_ORDER.get(method, []) if n in a]
    return World(receiver=results, args=args)


# ---- IdManager


@st.composite
def _st_idmanager(draw, method, known):
    table, info = draw(_expr_table())
    g = gen.TreeGen(draw, info, max_betas=2, sharing=False, literals=False, max_nodes=10, logit=False,
                    beta_names=['B_1', 'b_time'])
    return dict(table=table, expression=g.real(2), args={})


def _world_idmanager(method, recv_cls, w):
    database = build.build_database(w['table'])
    e = build.Builder([], overloads=False).build(w['expression'])
    im = recv_cls([e], database, 4)
    args = []
    if method in ('set_data_map', 'set_data'):
        args = [('sample', database.data)]
    return World(receiver=im, args=args, extras=dict(database=database))

# ---------------------------------------------------------------------------------------------
# family: module-level functions


def _smooth_function(x):
    """A smooth test function with exact derivatives (argument of the finite-difference tools)."""
    from biogeme.function_output import FunctionOutput

    x = np.asarray(x, dtype=float)
    n = len(x)
    w = np.arange(1, n + 1, dtype=float)
    f = float(np.sum(w * x ** 2) + np.sum(np.sin(x)) + (x[0] * x[-1] if n else 0.0))
    g = 2 * w * x + np.cos(x)
    h = np.diag(2 * w - np.sin(x))
    if n:
        g[0] += x[-1]
        g[-1] += x[0]
        h[0, -1] += 1.0
        h[-1, 0] += 1.0
    return FunctionOutput(function=f, gradient=g, hessian=h)


def _uniform_draws(sample_size, number_of_draws):
    return np.random.uniform(size=(sample_size, number_of_draws))


@st.composite
def _nest_material(draw):
    """Utilities, availabilities, nests over alternatives 1..4 (JSON)."""
    alts = [1, 2, 3, 4]
    m = dict(
        alts=alts,
        util=[[a, ['Plus', ['Beta', f'ASC_{a}', draw(gen.real_values(-1, 1)), None, None, 0 if a > 1 else 1],
                   ['Times', ['Beta', 'B_T', -0.5, None, None, 0], ['Var', f'T{a}']]]] for a in alts],
        av=draw(st.sampled_from(['vars', 'none', 'ones'])),
        choice=draw(st.sampled_from(['var', 1, 3])),
        mu=draw(st.sampled_from(['beta', 1.0, 'fixed'])),
        nest_style=draw(st.sampled_from(['objects', 'tuples'])),
        mu_a=draw(st.sampled_from([1.0, 1.5, 'beta'])),
        mu_b=draw(st.sampled_from([2.0, 'beta'])),
        split=draw(st.sampled_from([[[1, 2], [3, 4]], [[1, 2], [3]], [[2, 3, 4], [1]], [[1, 3], [2, 4]]])),
        alpha=draw(st.sampled_from([0.5, 0.25, 'beta'])),
    )
    return m


def _nest_objects(m, cross):
    from biogeme.expressions import Beta, Numeric, Variable
    from biogeme.nests import (NestsForCrossNestedLogit, NestsForNestedLogit,
                               OneNestForCrossNestedLogit, OneNestForNestedLogit)

    b = build.Builder([], overloads=True).build
    util = {a: b(u) for a, u in m['util']}
    if m['av'] == 'vars':
        av = {a: Variable(f'AV{a}') for a in m['alts']}
    elif m['av'] == 'ones':
        av = {a: 1 for a in m['alts']}
    else:
        av = None
    choice = Variable('CHOICE') if m['choice'] == 'var' else m['choice']
    mu = {'beta': Beta('MU', 1.0, 0.5, 3.0, 0), 'fixed': Beta('MU', 1.0, None, None, 1)}.get(m['mu'], m['mu'])
    pa = Beta('MU_A', 1.5, 1.0, 10.0, 0) if m['mu_a'] == 'beta' else m['mu_a']
    pb = Beta('MU_B', 2.0, 1.0, 10.0, 0) if m['mu_b'] == 'beta' else m['mu_b']
    if not cross:
        la, lb = m['split']
        if m['nest_style'] == 'objects':
            nests = NestsForNestedLogit(choice_set=list(m['alts']), tuple_of_nests=(
                OneNestForNestedLogit(nest_param=pa, list_of_alternatives=list(la), name='a'),
                OneNestForNestedLogit(nest_param=pb, list_of_alternatives=list(lb), name='b')))
        else:
            nests = ((pa, list(la)), (pb, list(lb)))
    else:
        if m['alpha'] == 'beta':
            al = Beta('ALPHA', 0.5, 0.0, 1.0, 0)
            al2 = 1 - al
        else:
            al, al2 = m['alpha'], 1 - m['alpha']
        da = {1: 1.0, 2: al, 3: 0.0, 4: 0.0}
        dbb = {1: 0.0, 2: al2, 3: 1.0, 4: 1.0}
        if m['nest_style'] == 'objects':
            nests = NestsForCrossNestedLogit(choice_set=list(m['alts']), tuple_of_nests=(
                OneNestForCrossNestedLogit(nest_param=pa, dict_of_alpha=da, name='a'),
                OneNestForCrossNestedLogit(nest_param=pb, dict_of_alpha=dbb, name='b')))
        else:
            nests = ((pa, da), (pb, dbb))
    return util, av, nests, choice, mu


@st.composite
def _st_function(draw, alias_id, module, method, known):
    a = {}
    w = dict(args=a)
    if not known:
        return w
    if module == 'biogeme.draws':
        n, r = draw(st.integers(1, 5)), 2 * draw(st.integers(1, 5))
        a.update(sample_size=n, number_of_draws=r)
        if method in ('get_uniform', 'get_latin_hypercube_draws', 'get_halton_draws'):
            a['symmetric'] = draw(st.booleans())
        if method == 'get_halton_draws':
            a.update(base=draw(st.sampled_from([2, 3, 5, 7])), skip=draw(st.integers(0, 20)),
                     shuffled=draw(st.booleans()))
        if method == 'get_normal_wichura_draws':
            a['antithetic'] = draw(st.booleans())
        if method in ('get_latin_hypercube_draws', 'get_normal_wichura_draws'):
            total = n * (r // 2 if a.get('antithetic') else r)
            a['uniform_numbers'] = draw(st.one_of(st.lists(
                st.floats(0.01, 0.99).map(lambda v: round(v, 4)), min_size=total, max_size=total), st.none()))
    elif module == 'biogeme.models.piecewise':
        k = draw(st.integers(2, 4))
        cuts = sorted(draw(st.lists(st.integers(-8, 24), min_size=k, max_size=k, unique=True)))
        th = [c / 2.0 for c in cuts]
        if draw(st.integers(0, 3)) == 0:
            th[0] = None
        if draw(st.integers(0, 3)) == 0:
            th[-1] = None
        if method == 'piecewise_function':
            a['x'] = draw(gen.real_values(-5, 14))
            th = [c / 2.0 for c in cuts]
            a['thresholds'] = th
            a['betas'] = [draw(gen.real_values(-2, 2)) for _ in range(k - 1)]
        else:
            a['variable'] = draw(st.sampled_from(['TT', ['Var', 'TT']]))
            a['thresholds'] = th
            if method == 'piecewise_formula':
                a['betas'] = draw(st.sampled_from(['none', 'betas', 'numbers']))
    elif module in ('biogeme.models.nested', 'biogeme.models.cnl', 'biogeme.models.mev'):
        w['nest'] = draw(_nest_material())
    elif module == 'biogeme.cnl':
        w['nest'] = draw(_nest_material())
        w['y'] = [draw(gen.pos_values(0.25, 3.0)) for _ in range(4)]
    elif module == 'biogeme.segmentation':
        a['beta'] = ['Beta', 'B_SEG', draw(gen.real_values(-1, 1)), draw(st.sampled_from([None, -10.0])), None, 0]
        k = draw(st.integers(1, 2))
        a['segmentation_tuples'] = [
            [f'SOCIO{i}', [[v, f'cat{i}_{v}'] for v in range(draw(st.integers(2, 3)))],
             draw(st.sampled_from([None, f'cat{i}_1']))] for i in range(k)]
        a['prefix'] = draw(st.sampled_from(['segmented', 'seg']))
    elif module == 'biogeme.tools.database':
        n = draw(st.integers(1, 8))
        a['df'] = [draw(st.integers(0, 3)) for _ in range(n)]
        a['column'] = 'grp'
    elif module == 'biogeme.tools.derivatives':
        n = draw(st.integers(1, 4))
        a['x'] = [draw(gen.real_values(-2, 2)) for _ in range(n)]
        if method == 'check_derivatives':
            a['names'] = draw(st.sampled_from([None, 'names']))
            a['logg'] = draw(st.booleans())
    elif module == 'biogeme.results' and method == 'calc_p_value':
        a['t'] = draw(st.one_of(gen.real_values(-4, 4), st.sampled_from([0.0, 1.96, -1.96, 50.0])))
    elif module in ('biogeme.results', 'biogeme.multiobjectives'):
        w['model'] = draw(_st_model(max_rows=8))
        w['model2'] = draw(_st_model(max_rows=8)) if method == 'compile_estimation_results' else None
        if method == 'compile_estimation_results':
            a.update(include_parameter_estimates=draw(st.booleans()), include_robust_stderr=draw(st.booleans()),
                     include_robust_ttest=draw(st.booleans()), formatted=draw(st.booleans()),
                     use_short_names=draw(st.booleans()))
    return w


_FN_PLANS = {
    # replacement name -> ordered parameter names
    ('biogeme.draws', 'get_uniform'): ['sample_size', 'number_of_draws', 'symmetric'],
    ('biogeme.draws', 'get_latin_hypercube_draws'): ['sample_size', 'number_of_draws', 'symmetric', 'uniform_numbers'],
    ('biogeme.draws', 'get_halton_draws'): ['sample_size', 'number_of_draws', 'symmetric', 'base', 'skip', 'shuffled'],
    ('biogeme.draws', 'get_antithetic'): ['uniform_draws', 'sample_size', 'number_of_draws'],
    ('biogeme.draws', 'get_normal_wichura_draws'): ['sample_size', 'number_of_draws', 'uniform_numbers', 'antithetic'],
    ('biogeme.models.piecewise', 'piecewise_variables'): ['variable', 'thresholds'],
    ('biogeme.models.piecewise', 'piecewise_formula'): ['variable', 'thresholds', 'betas'],
    ('biogeme.models.piecewise', 'piecewise_function'): ['x', 'thresholds', 'betas'],
    ('biogeme.models.nested', 'get_mev_generating_for_nested'): ['util', 'availability', 'nests'],
    ('biogeme.models.nested', 'get_mev_for_nested'): ['util', 'availability', 'nests'],
    ('biogeme.models.nested', 'get_mev_for_nested_mu'): ['util', 'availability', 'nests', 'mu'],
    ('biogeme.models.nested', 'nested_mev_mu'): ['util', 'availability', 'nests', 'choice', 'mu'],
    ('biogeme.models.nested', 'lognested_mev_mu'): ['util', 'availability', 'nests', 'choice', 'mu'],
    ('biogeme.models.nested', 'nested'): ['util', 'availability', 'nests', 'choice'],
    ('biogeme.models.nested', 'lognested'): ['util', 'availability', 'nests', 'choice'],
    ('biogeme.models.cnl', 'cnl'): ['util', 'availability', 'nests', 'choice'],
    ('biogeme.models.cnl', 'logcnl'): ['util', 'availability', 'nests', 'choice'],
    ('biogeme.models.cnl', 'get_mev_for_cross_nested'): ['util', 'availability', 'nests'],
    ('biogeme.models.cnl', 'get_mev_for_cross_nested_mu'): ['util', 'availability', 'nests', 'mu'],
    ('biogeme.models.mev', 'logmev_endogenous_sampling'): ['util', 'log_gi', 'av', 'correction', 'choice'],
    ('biogeme.models.mev', 'mev_endogenous_sampling'): ['util', 'log_gi', 'av', 'correction', 'choice'],
    ('biogeme.cnl', 'cnl_g'): ['alternatives', 'nests'],
    ('biogeme.cnl', 'cnl_cdf'): ['alternatives', 'nests'],
    ('biogeme.segmentation', 'segmented_beta'): ['beta', 'segmentation_tuples', 'prefix'],
    ('biogeme.tools.database', 'count_number_of_groups'): ['df', 'column'],
    ('biogeme.tools.derivatives', 'findiff_g'): ['the_function', 'x'],
    ('biogeme.tools.derivatives', 'findiff_h'): ['the_function', 'x'],
    ('biogeme.tools.derivatives', 'check_derivatives'): ['the_function', 'x', 'names', 'logg'],
    ('biogeme.results', 'calc_p_value'): ['t'],
    ('biogeme.results', 'compile_estimation_results'): [
        'dict_of_results', 'include_parameter_estimates', 'include_robust_stderr', 'include_robust_ttest',
        'formatted', 'use_short_names'],
    ('biogeme.multiobjectives', 'aic_bic_dimension'): ['results'],
    ('biogeme.multiobjectives', 'loglikelihood_dimension'): ['results'],
    ('biogeme.version', 'get_version'): [], ('biogeme.version', 'get_html'): [],
    ('biogeme.version', 'get_text'): [], ('biogeme.version', 'get_latex'): [],
}


def _post_callable_on_y(result, world):
    y = np.array(world.extras['y'], dtype=float)
    return ['value at', y.tolist(), result(y)]


def _world_function(module, method, w):
    from biogeme.expressions import Beta, Numeric, Variable

    a = w.get('args', {})
    order = _FN_PLANS.get((module, method), [])
    values = dict(a)
    extras = {}
    post = None
    b = build.Builder([], overloads=False).build
    if module == 'biogeme.draws' and 'uniform_numbers' in values and values['uniform_numbers'] is not None:
        values['uniform_numbers'] = np.array(values['uniform_numbers'], dtype=float)
    if module == 'biogeme.draws' and method == 'get_antithetic':
        values['uniform_draws'] = _uniform_draws
    if module == 'biogeme.models.piecewise':
        if isinstance(values.get('variable'), list):
            values['variable'] = b(values['variable'])
        if method == 'piecewise_formula':
            k = len(values['thresholds']) - 1
            kind = values.get('betas')
            if kind == 'betas':
                values['betas'] = [Beta(f'beta_pw_{i}', 0.1 * i, None, None, 0) for i in range(k)]
            elif kind == 'numbers':
                values['betas'] = [0.5 * (i + 1) for i in range(k)]
            else:
                values['betas'] = None
    if 'nest' in w and module != 'biogeme.cnl':
        cross = module == 'biogeme.models.cnl'
        util, av, nests, choice, mu = _nest_objects(w['nest'], cross)
        if module == 'biogeme.models.mev':
            import biogeme.models as models

            cross_nests = _nest_objects(w['nest'], False)[2]
            log_gi = models.get_mev_for_nested(util, av, cross_nests)
            values.update(util=util, log_gi=log_gi, av=av,
                          correction={k: Numeric(0.1 * k) for k in util}, choice=choice)
        else:
            values.update(util=util, availability=av, nests=nests, choice=choice, mu=mu)
    if module == 'biogeme.cnl':
        m = dict(w['nest'])
        m['nest_style'] = 'objects'
        m['mu_a'] = 1.5 if m['mu_a'] == 'beta' else m['mu_a']
        m['mu_b'] = 2.0 if m['mu_b'] == 'beta' else m['mu_b']
        m['alpha'] = 0.5 if m['alpha'] == 'beta' else m['alpha']
        _, _, nests, _, _ = _nest_objects(m, True)
        values.update(alternatives=list(m['alts']), nests=nests)
        extras['y'] = w['y']
        post = _post_callable_on_y
    if module == 'biogeme.segmentation':
        from biogeme.segmentation import DiscreteSegmentationTuple

        _, n, v, lb, ub, s = values['beta']
        values['beta'] = Beta(n, v, lb, ub, s)
        values['segmentation_tuples'] = [
            DiscreteSegmentationTuple(variable=var, mapping={k: lab for k, lab in mapping}, reference=ref)
            for var, mapping, ref in values['segmentation_tuples']]
    if module == 'biogeme.tools.database':
        values['df'] = pd.DataFrame({'grp': np.array(values['df'], dtype=np.int64),
                                     'other': np.arange(len(values['df']), dtype=float)})
    if module == 'biogeme.tools.derivatives':
        values['the_function'] = _smooth_function
        values['x'] = np.array(values['x'], dtype=float)
        if values.get('names') == 'names':
            values['names'] = [f'p{i}' for i in range(len(values['x']))]
    if w.get('model') is not None:
        r1 = _estimate(w['model'])
        if method == 'compile_estimation_results':
            r2 = _estimate(w['model2'])
            values['dict_of_results'] = {'first': r1, 'second': r2}
        else:
            values['results'] = r1
    args = [(n, values[n]) for n in order if n in values]
    return World(receiver=None, args=args, extras=extras, post=post)

# ---------------------------------------------------------------------------------------------
# plans: which generator / world builder serves a discovered callable


def _required_params(f):
    try:
        sig = inspect.signature(f)
    except (TypeError, ValueError):
        return ['?']
    return [p.name for p in sig.parameters.values()
            if p.default is p.empty and p.kind in (p.POSITIONAL_ONLY, p.POSITIONAL_OR_KEYWORD, p.KEYWORD_ONLY)]


def _family_of(cls):
    import biogeme.biogeme as bio
    import biogeme.database as db
    import biogeme.results as res
    from biogeme.expressions.idmanager import IdManager

    if cls is None:
        return 'function'
    for base, fam in ((_Expression, 'expr'), (db.Database, 'database'), (bio.BIOGEME, 'biogeme'),
                      (res.bioResults, 'results'), (IdManager, 'idmanager')):
        if issubclass(cls, base):
            return fam
    return None


_FAMILY_KNOWN = {
    'expr': lambda m: _expr_known(m),
    'database': lambda m: m in _DB_ARG_ORDER or m in _DB_NOARG,
    'biogeme': lambda m: m in _BIO_ARG_ORDER or m in _BIO_NOARG,
    'results': lambda m: m in _RES_ARG_ORDER or m in _RES_NOARG,
    'idmanager': lambda m: m in ('set_data_map', 'set_data'),
}


class Plan:
    def __init__(self, strategy=None, world=None, reason=None):
        self.strategy = strategy
        self.world = world  # w -> World
        self.reason = reason  # why no case can be built


def plan_for(module, decl_cls, method, func):
    """Generator and world builder for calling `method` (name of the function that finally runs).
    plan.world(receiver class or None, w) -> World"""
    fam = _family_of(decl_cls)
    if fam is None:
        return Plan(reason=f'no receiver factory for class {decl_cls.__name__}')
    if fam == 'function':
        known = (module, method) in _FN_PLANS
        if not known and _required_params(func):
            return Plan(reason=f'no argument generator for {module}.{method}{tuple(_required_params(func))}')
        return Plan(_st_function(f'{module}.{method}', module, method, known),
                    lambda recv, w: _world_function(module, method, w))
    known = _FAMILY_KNOWN[fam](method)
    if not known:
        req = _required_params(func)
        req = req[1:] if req and req[0] in ('self', 'cls') else req
        if req:
            return Plan(reason=f'no argument generator for {decl_cls.__name__}.{method}{tuple(req)}')
    if fam == 'expr':
        return Plan(_st_expr(method, known), lambda recv, w: _world_expr(method, recv, w))
    if fam == 'database':
        return Plan(_st_database(method, known), lambda recv, w: _world_database(method, recv, w))
    if fam == 'biogeme':
        return Plan(_st_biogeme(method, known), lambda recv, w: _world_biogeme(method, recv, w))
    if fam == 'results':
        return Plan(_st_results(method, known), lambda recv, w: _world_results(method, recv, w))
    return Plan(_st_idmanager(method, known), lambda recv, w: _world_idmanager(method, recv, w))


def _alias_plan(a):
    return plan_for(a.module, a.cls, a.new_name, a.new_func)


def _inverse_obsolete(func):
    """{new keyword: obsolete keyword} if the function is behind a keyword-renaming wrapper."""
    if wrapper_kind(func) == 'params':
        return {v: k for k, v in _cells(func)['obsolete_params'].items() if v}
    return {}


def _overrides_replacement(pair):
    a = pair.item
    if pair.receiver is None:
        return False
    try:
        got = _raw(inspect.getattr_static(pair.receiver, a.new_name))[0]
    except AttributeError:
        return False
    return got is not a.new_func


def _recv_label(pair):
    return pair.receiver.__name__ if pair.receiver is not None else '-'


def _pair_key(pair, name):
    if pair.receiver is None:
        return f'{pair.item.module}.{name}'
    return f'{pair.receiver.__module__}.{pair.receiver.__name__}.{name}'


# ---------------------------------------------------------------------------------------------
# sub-check 1: alias == replacement


def _alias_resolver(pair):
    a = pair.item

    def resolve(world, which):
        if which == 'captured':
            import functools

            return functools.partial(a.new_func, world.receiver) if world.receiver is not None else a.new_func
        name = a.old_name if which == 'old' else a.new_name
        if world.receiver is not None and hasattr(world.receiver, name):
            return getattr(world.receiver, name)
        if world.receiver is not None and which == 'old':
            return None
        return getattr(sys.modules[a.module], name, None)

    return resolve


_WARM = {'done': False}

_WARM_MODEL = dict(n=6, x=[[0.5, -1.0, 0.25, 1.0, -0.5, 0.0], [1.0, 0.5, -0.25, 0.0, 1.5, -1.0],
                           [-0.5, 0.0, 1.0, 0.5, 0.25, 2.0]], z=[1.0, 2.0, 0.5, 1.5, 1.0, 0.25],
                   choice=[1, 2, 3, 1, 2, 3], av=[[1] * 6, [1] * 6, [1] * 6],
                   betas=[['B_X', 0.0, None, None, 0], ['ASC_1', 0.0, None, None, 0],
                          ['ASC_2', 0.0, None, None, 0], ['B_Z', 0.0, -5.0, 5.0, 1]], bootstrap_samples=2)


def _warm_up():
    """Pay first-use costs (template engines, lazy imports) once per shard, not once per forked child."""
    if _WARM['done']:
        return
    _WARM['done'] = True
    here = os.getcwd()
    d = tempfile.mkdtemp(prefix='c20_warm_')
    try:
        os.chdir(d)
        with warnings.catch_warnings():
            warnings.simplefilter('ignore')
            r = _estimate(_WARM_MODEL, bootstrap=False)
            r.get_latex()
            r.get_html()
            r.get_f12()
            r.get_betas_for_sensitivity_analysis(['B_X'], size=2, use_bootstrap=False)
            import biogeme.results as res

            res.compile_estimation_results({'a': r})
    except Exception:  # noqa: warming up is an optimisation only
        pass
    finally:
        os.chdir(here)
        shutil.rmtree(d, ignore_errors=True)


def _run_side_alone(spec, which, world_fn, resolve, obsolete):
    try:
        return _run_side(spec, which, world_fn, resolve, obsolete)
    finally:
        shutil.rmtree(_workdir(), ignore_errors=True)


def _observe(spec, which, world_fn, resolve, obsolete):
    """One name, one fresh process."""
    _warm_up()
    res = None
    for _ in range(3):  # a child that dies is given two more chances (the engine sometimes kills the
        res = isolate.call(_run_side_alone, spec, which, world_fn, resolve, obsolete)  # process instead of raising)
        if res['ok'] or res['exc_type'] != 'ChildCrashed':
            break
    return res


def _engine_failure(side):
    """The compiled engine refused the formula: it raises RuntimeError with a text that depends on which
    row a worker thread reached first, or takes the process down. One equivalence class."""
    if side.get('crashed'):
        return True
    e = side.get('exc')
    return bool(e) and e[0] == 'RuntimeError' and 'cythonbiogeme/cpp/' in e[2]


class Job:
    """One (item, receiver) pair of a sweep: how to build its world, resolve the names, judge it."""

    def __init__(self, pair, names, world_fn, resolve, obsolete_by_side, evaluate):
        self.pair = pair
        self.names = names
        self.world_fn = world_fn
        self.resolve = resolve
        self.by_side = obsolete_by_side
        self.evaluate = evaluate  # sides -> Outcome (verdict for this pair)
        self.label = _recv_label(pair)


def _run_sweep(spec, jobs, last_order=('old', 'new')):
    """Child process of the fast path: pair after pair, side after side, each side on its own fresh
    world; stops after the first pair on which the engine raised (its exception state poisons the
    process, everything later must run elsewhere)."""
    done = []
    for n, job in enumerate(jobs):
        s = dict(spec, receiver_label=job.label)
        order = last_order if n == len(jobs) - 1 else ('old', 'new')
        sides = {which: _run_side(s, which, job.world_fn, job.resolve, job.by_side[which], with_before=False)
                 for which in order}
        done.append(sides)
        if any(_engine_failure(x) for x in sides.values()):
            break
    shutil.rmtree(_workdir(), ignore_errors=True)
    return done


def _separate_sides(spec, job):
    sides = {}
    s = dict(spec, receiver_label=job.label)
    for which in job.names:
        res = _observe(s, which, job.world_fn, job.resolve, job.by_side[which])
        if res['ok']:
            sides[which] = res['value']
        elif res['exc_type'] == 'ChildCrashed':
            sides[which] = dict(crashed=True, exc=None)
        else:
            raise RuntimeError(f'observation of {job.pair.id} failed outside the library call: '
                               f'{res["exc_type"]}: {res["exc_msg"]}\n{res["tb"]}')
    return sides


def _confirmed(spec, job):
    """Verdict on separately forked sides; a difference counts only if a second, independent observation
    shows it again (the engine is not deterministic when it fails: see _engine_failure)."""
    v = job.evaluate(_separate_sides(spec, job))
    if v.failures:
        again = job.evaluate(_separate_sides(spec, job))
        keys = {f.key for f in again.failures}
        kept = [f for f in v.failures if f.key in keys]
        if len(kept) != len(v.failures):
            v.classes.append('difference_not_reproduced')
        v.failures = kept
    return v


def _history_dependent(spec, prefix, fast, clean):
    """The old name and its replacement agree on this receiver in a fresh process but differed after the same
    names had been called on other receivers earlier in one process. The sequence is repeated twice in fresh
    processes, the second time with the two names of the last pair called in the opposite order; a difference
    seen all three times is reported (the old name depends on what was called before it, the replacement does not
    or not in the same way)."""
    job = prefix[-1]
    keys = {f.key for f in fast.failures}
    for order in (('old', 'new'), ('new', 'old')):
        res = isolate.call(_run_sweep, spec, prefix, order, timeout=600)
        if not res['ok'] or len(res['value']) != len(prefix):
            clean.classes.append('sequence_difference_not_reproduced')
            return clean
        if any(_engine_failure(x) for sd in res['value'] for x in sd.values()):
            clean.classes.append('sequence_difference_not_reproduced')
            return clean
        again = job.evaluate(res['value'][-1])
        keys &= {f.key for f in again.failures}
        if not keys:
            clean.classes.append('sequence_difference_not_reproduced')
            return clean
    earlier = ', '.join(j.label for j in prefix[:-1])
    for f in fast.failures:
        if f.key in keys:
            clean.fail(f.key.rsplit(':', 1)[0] + ':after_calls_on_other_receivers',
                       f'{f.msg}  [only after the same names were called on {earlier} in the same process; in a fresh '
                       f'process the two agree]')
    clean.classes.append('sequence_difference')
    return clean


def _sweep(out, spec, jobs):
    """Judge every job. Fast path: one child for as many pairs as it survives. Whatever looks like a
    difference, and whatever involved an engine failure, is decided on separately forked sides only."""
    _warm_up()
    verdicts = []
    i = 0
    while i < len(jobs):
        res = isolate.call(_run_sweep, spec, jobs[i:], timeout=600)
        if res['ok']:
            got = res['value']
        elif res['exc_type'] == 'ChildCrashed':
            got = []
        else:
            raise RuntimeError(f'sweep of {spec.get("item")} failed outside the library call: '
                               f'{res["exc_type"]}: {res["exc_msg"]}\n{res["tb"]}')
        for k, sides in enumerate(got):
            job = jobs[i + k]
            v = None
            if not any(_engine_failure(s) for s in sides.values()):
                v = job.evaluate(sides)
                if v.failures:
                    v = None
            if v is None:
                fast = None if any(_engine_failure(x) for sd in got[:k + 1] for x in sd.values()) else job.evaluate(sides)
                v = _confirmed(spec, job)
                if fast is not None and fast.failures and not v.failures and not v.skipped and k >= 1:
                    v = _history_dependent(spec, jobs[i:i + k + 1], fast, v)
            verdicts.append(v)
        if not got:
            verdicts.append(_confirmed(spec, jobs[i]))
            i += 1
        else:
            i += len(got)
    judged = 0
    for job, v in zip(jobs, verdicts):
        out.failures += v.failures
        out.classes += v.classes
        if v.skipped:
            out.classes.append(f'{v.skipped} [{job.label}]' if len(jobs) > 1 else v.skipped)
        else:
            judged += 1
            out.nontrivial = out.nontrivial or v.nontrivial
    out.evaluations = max(1, judged)
    if judged == 0 and verdicts:
        out.skipped = verdicts[0].skipped
    return verdicts


def _not_judged(sides, v):
    for s in sides.values():
        if s.get('not_judged'):
            v.skipped = 'not judged: ' + s['not_judged']
            return True
    return False


def _side_summary(o):
    if o['exc'] is not None:
        return f'raises {o["exc"][1]}.{o["exc"][0]}: {o["exc"][2][:160]}'
    return f'returns {_short(o["result"], 200)}'


def _word(name):
    """The name as a whole word ('seed' is not named by a text that says 'seed_param')."""
    return re.compile(r'(?<![A-Za-z0-9_])' + re.escape(name) + r'(?![A-Za-z0-9_])')


def _strip_one(ws, must_contain):
    """Remove one DeprecationWarning whose text contains all given fragments (strings, or patterns from
    _word); None if there is none."""
    for i, w in enumerate(ws):
        if w[2] and all(f.search(w[1]) if hasattr(f, 'search') else f in w[1] for f in must_contain):
            return ws[:i] + ws[i + 1:]
    return None


def _compare_sides(out, old, new, key, what_old, what_new, call_text):
    """result / raises / state clauses; returns True if something differed."""
    differed = False
    if (old['exc'] is None) != (new['exc'] is None):
        out.fail(key('raises'), f'{call_text}: {what_old} {_side_summary(old)} but {what_new} {_side_summary(new)}')
        return True
    if old['exc'] is not None:
        if old['exc'][:2] != new['exc'][:2] or old['exc'][2] != new['exc'][2]:
            out.fail(key('raises'), f'{call_text}: {what_old} {_side_summary(old)} but {what_new} '
                                    f'{_side_summary(new)}')
            differed = True
    else:
        d = first_diff(old['result'], new['result'])
        if d:
            out.fail(key('result'), f'{call_text}: result of {what_old} differs from {what_new} at {d}')
            differed = True
    d = first_diff(old['after'], new['after'])
    if d:
        out.fail(key('state'), f'{call_text}: state of receiver/arguments after {what_old} differs from the '
                               f'state after {what_new} at {d}')
        differed = True
    d = first_diff(old['files'], new['files'])
    if d:
        out.fail(key('state'), f'{call_text}: files written by {what_old} differ from {what_new} at {d}')
        differed = True
    return differed


def _normalise_engine_failures(old, new, out, what):
    """Returns (old, new, done): both sides refused by the engine count as the same refusal."""
    if _engine_failure(old) and _engine_failure(new):
        out.classes.append(f'both_engine_failure:{what}')
        if old.get('crashed') or new.get('crashed'):
            return old, new, True  # nothing else is observable
        return dict(old, exc=['engine failure', '', '']), dict(new, exc=['engine failure', '', '']), False
    return old, new, False


def _alias_job(spec, pair, plan):
    a = pair.item
    pk = _pair_key(pair, a.old_name)
    key = lambda aspect: f'alias:{pk}:{aspect}'  # noqa: E731
    call = _render_call(spec) + (f' on {_recv_label(pair)}' if pair.receiver is not None else '')
    overrides = _overrides_replacement(pair)
    obsolete = _inverse_obsolete(a.new_func)

    def evaluate(sides):
        v = Outcome()
        v.classes.append(f'receiver={_recv_label(pair)}')
        if overrides:
            v.classes.append('receiver_overrides_replacement')
        if _not_judged(sides, v):
            return v
        old, new = sides['old'], sides['new']
        old, new, done = _normalise_engine_failures(old, new, v, a.new_name)
        if done:
            return v
        if old.get('crashed') or new.get('crashed'):
            v.fail(key('raises'), f'{call}: the process dies under '
                                  f'{"the old name" if old.get("crashed") else "the replacement"} only')
            return v
        if old.get('unresolved'):
            raise RuntimeError(f'{pair.id}: receiver does not expose the discovered alias')
        if new.get('unresolved'):
            v.fail(key('target'), f'{call}: the warning names {a.new_name!r}, which neither '
                                  f'{_recv_label(pair)} nor module {a.module} provides')
            return v
        d = first_diff(old['before'], new['before']) if old.get('before') is not None else None
        if d:
            raise RuntimeError(f'{pair.id}: the two worlds differ before the call (generator not '
                               f'deterministic): {d}')
        both_raise = old['exc'] is not None and new['exc'] is not None
        if both_raise:
            v.classes.append(f'both_raise:{a.new_name}:{old["exc"][0]}')
        v.nontrivial = (overrides or old['nargs'] >= 2) and not both_raise
        probe = Outcome()
        differed = _compare_sides(probe, old, new, key, f'{a.old_name}', f'{a.new_name}', call)
        cap = sides.get('captured')
        if differed and overrides and cap and not cap.get('crashed') and not cap.get('unresolved') \
                and not cap.get('not_judged'):
            # is the difference explained by the alias calling the implementation captured where it
            # was declared, instead of the receiver's own?
            same = (old['exc'] is None) == (cap['exc'] is None) and \
                (old['exc'] == cap['exc'] if old['exc'] is not None else
                 first_diff(old['result'], cap['result']) is None) and \
                first_diff(old['after'], cap['after']) is None
            if same:
                decl = a.cls.__name__
                for f in probe.failures:
                    v.fail(f'inherited_alias_bypasses_override:{_recv_label(pair)}.{a.old_name}',
                           f'{f.msg}  [the alias declared on {decl} runs {decl}.{a.new_name}, not '
                           f'{_recv_label(pair)}.{a.new_name}]')
                probe.failures = []
        v.failures += probe.failures
        # exactly one extra DeprecationWarning, naming the old name and the replacement
        rest = _strip_one(old['warnings'], [a.old_name, a.new_name])
        if rest is None:
            v.fail(key('warning'), f'{call}: no DeprecationWarning naming {a.old_name!r} and '
                                   f'{a.new_name!r}; warnings: {old["warnings"][:3]}')
        elif first_diff(rest, new['warnings']):
            v.fail(key('warning'), f'{call}: besides its own warning the old name emits {rest[:3]} whereas '
                                   f'the replacement emits {new["warnings"][:3]}')
        return v

    names = ('old', 'new', 'captured') if overrides else ('old', 'new')
    return Job(pair, names, lambda s: plan.world(pair.receiver, s['w']), _alias_resolver(pair),
               dict(old=obsolete, new=obsolete, captured=obsolete), evaluate)


def _render_call(spec):
    w = spec.get('w', {})
    args = w.get('args', {}) if isinstance(w, dict) else {}
    return f'{spec["item"]}({_short(args, 300)}) style={spec.get("style")} seed={spec.get("np_seed")}'


ALIAS_BY_ID = {a.id: a for a in ALIASES}
RECEIVERS = {}
for _p in PAIR_LIST:
    RECEIVERS.setdefault(_p.item.id, []).append(_p)
for _p in KW_PAIR_LIST:
    RECEIVERS.setdefault(_p.item.id, []).append(_p)


def judge_alias(spec) -> Outcome:
    out = Outcome()
    a = ALIAS_BY_ID.get(spec['item'])
    if a is None:
        out.skipped = 'alias not present in this tree'
        return out
    out.classes += [f'alias={a.id}', f'style={spec.get("style")}']
    for msg in target_findings(a):
        out.fail(f'alias:{_pair_key(Pair(a, a.cls), a.old_name)}:target', msg)
    if spec.get('unplanned'):
        out.skipped = 'not judged: ' + spec['unplanned']
        return out
    plan = _alias_plan(a)
    if plan.reason:
        out.skipped = 'not judged: ' + plan.reason
        return out
    jobs = [_alias_job(spec, pair, plan) for pair in RECEIVERS.get(a.id, [])]
    if not jobs:
        out.skipped = 'not judged: no class of the package exposes the alias on an object that can be built'
        return out
    _sweep(out, spec, jobs)
    return out


def _alias_strategy(a):
    plan = _alias_plan(a)
    if plan.reason:
        return st.just(dict(item=a.id, np_seed=0, style='pos', unplanned=plan.reason))
    styles = ['pos', 'kw', 'kw']
    if _inverse_obsolete(a.new_func):
        styles.append('oldkw')
    return st.fixed_dictionaries(dict(item=st.just(a.id), np_seed=st.integers(0, 2**31 - 1),
                                      style=st.sampled_from(styles), w=plan.strategy))

# ---------------------------------------------------------------------------------------------
# sub-check 2: obsolete keyword spelling == new keyword spelling


def _unlike_default(tup):
    """Legitimate values of a configuration parameter (biogeme.default_parameters.ParameterTuple) that
    differ from its default: a value equal to the default cannot tell which parameter a keyword
    reached. A fixed list filtered by the parameter's own validity checks (no randomness here)."""
    d = tup.value
    if isinstance(d, bool):
        return [not d]
    if isinstance(d, int):
        candidates = [d + 1, d + 2, 2 * d + 5, 1, 2, 3, 12, -1]
    elif isinstance(d, float):
        candidates = [2 * d + 0.5, d + 1.0, d / 2, 0.25, 3.0]
    else:
        candidates = []
    good = []
    for c in candidates:
        if c == d or c in good:
            continue
        try:
            ok = all(check(c)[0] for check in (tup.check or ()))
        except Exception:  # noqa: a check that cannot digest the value refuses it
            ok = False
        if ok:
            good.append(c)
    return good


_SIGNATURE_VALUES = {
    # constructor keywords that are parameters of the signature (default None for all of them)
    'parameters': ['<Parameters>'],
    'user_notes': ['some notes', '', 'notes with "quotes"', None],
    'the_raw_results': ['<RawResults>'],
    'pickle_file': ['<pickle>'],
}


def _init_values(r):
    """Values for the constructor keyword a renaming points to, values unlike the default first (so
    that they are frequent and survive shrinking); None if there is no generator."""
    t = r.target_kw
    if t is None:
        return [True, False, 1]  # a keyword that is accepted and ignored
    if t in r.open:
        return _unlike_default(r.open[t]) + [r.open[t].value]
    return _SIGNATURE_VALUES.get(t)


def _slot_of(r):
    """Name under which the value of a renamed keyword travels in World.args."""
    return r.target_kw if r.target_kw else f'<ignored:{r.old_kw}>'


def _siblings(r):
    """The other keyword renamings of the same function."""
    return [x for x in RENAMES if x.wrapper is r.wrapper and x.old_kw != r.old_kw]


@st.composite
def _st_init(draw, decl_cls, r):
    """Constructor calls: the renamed keyword, the arguments the constructor cannot do without, and
    (BIOGEME) up to two of the other renamed keywords of the same constructor."""
    fam = _family_of(decl_cls)
    w = dict(model=draw(_st_model(max_rows=8)), args={})
    values = _init_values(r)
    if fam not in ('biogeme', 'results') or not values:
        w['unbuildable'] = f'no value generator for constructor keyword {r.target_kw!r} of {decl_cls.__name__}'
        return w
    w['args'] = {'value': draw(st.sampled_from(values))}
    if fam == 'biogeme':
        pool, taken = [], {_slot_of(r), 'parameters'}
        for x in _siblings(r):
            if _slot_of(x) not in taken and _init_values(x):
                taken.add(_slot_of(x))
                pool.append(x)
        chosen = draw(st.lists(st.integers(0, len(pool) - 1), max_size=2, unique=True)) if pool else []
        w['args']['companions'] = [[_slot_of(pool[i]), draw(st.sampled_from(_init_values(pool[i])))]
                                   for i in sorted(chosen)]
    return w


_PLAIN = (bool, int, float, str, type(None))


def _plain(v, depth=0):
    if isinstance(v, _PLAIN) or isinstance(v, np.generic):
        return True
    if depth < 3 and isinstance(v, (list, tuple, set, frozenset)):
        return all(_plain(x, depth + 1) for x in v)
    if depth < 3 and isinstance(v, dict):
        return all(_plain(k, depth + 1) and _plain(x, depth + 1) for k, x in v.items())
    return False


def configuration(o):
    """The complete public configuration of an object, by name: every public data attribute, every
    property of its class, and every parameter of every parameter table (biogeme.parameters.Parameters)
    it holds. Values that are objects are named by their type here (their content is compared through
    the object itself)."""
    names = {n for n in getattr(o, '__dict__', {}) if not n.startswith('_')}
    for k in type(o).__mro__:
        names |= {n for n, a in vars(k).items() if isinstance(a, property) and not n.startswith('_')}
    conf = {}
    with warnings.catch_warnings():
        warnings.simplefilter('ignore')  # reading an obsolete property is not part of the call observed
        for n in sorted(names):
            try:
                v = getattr(o, n)
            except Exception as e:  # noqa: a property that cannot be read: reported, compared
                conf[n] = ['raises', type(e).__name__]
                continue
            table = getattr(v, 'all_parameters_dict', None)
            if isinstance(table, dict):
                for key in sorted(table, key=lambda kk: (str(kk.section), str(kk.name))):
                    conf[f'{n}[{key.section}.{key.name}]'] = table[key].value
            elif _plain(v):
                conf[n] = v
            elif not inspect.isroutine(v):
                conf[n] = f'<{type(v).__name__}>'
    return conf


def _post_constructed(result, world):
    """A constructor returns the object: its configuration by name, then the whole object."""
    return {'configuration': configuration(result), 'object': result}


def _world_init(recv_cls, r, w):
    from biogeme.parameters import Parameters

    fam = _family_of(recv_cls)
    if 'unbuildable' in w:
        raise Unbuildable(w['unbuildable'])
    v = w['args']['value']
    name = _slot_of(r)
    if fam == 'biogeme':
        database, util, av, loglike = _model_objects(w['model'])
        companions = [(n, x) for n, x in w['args'].get('companions', [])]
        given = {name} | {n for n, _ in companions}
        args = [('database', database), ('formulas', loglike)]
        if 'parameters' not in given:
            args.append(('parameters', Parameters()))
        elif name == 'parameters':
            v = Parameters()
        if 'number_of_threads' not in given:
            args.append(('number_of_threads', 1))
        args.append((name, v))
        args += companions
        return World(receiver=None, args=args, post=_post_constructed)
    results = _estimate(w['model'])
    if v == '<RawResults>':
        v = results.data
    elif v == '<pickle>':
        results.data.modelName = 'verif_c20_pickled'
        v = results.write_pickle()
    return World(receiver=None, args=[(name, v)], post=_post_constructed)


def _kw_plan(r):
    if r.func_name == '__init__':
        if _family_of(r.cls) not in ('biogeme', 'results'):
            return Plan(reason=f'no constructor arguments for class {r.cls.__name__}')
        return Plan(_st_init(r.cls, r), lambda recv, w: _world_init(recv, r, w))
    return plan_for(r.module, r.cls, r.func_name, r.func)


def _kw_resolver(pair):
    r = pair.item

    def resolve(world, which):
        if r.func_name == '__init__':
            return pair.receiver
        if world.receiver is not None:
            return getattr(world.receiver, r.func_name, None)
        return getattr(sys.modules[r.module], r.func_name, None)

    return resolve


def _equals_default(v, d):
    """Whether the value given to a renamed keyword is what the function would use anyway."""
    if d is _NO_DEFAULT:
        return False
    if v is None or d is None:
        return v is d
    if isinstance(v, (bool, int, float, str)) and isinstance(d, (bool, int, float, str)):
        return isinstance(v, bool) == isinstance(d, bool) and isinstance(v, str) == isinstance(d, str) and v == d
    return False


def _kw_job(spec, pair, plan):
    r = pair.item
    pk = _pair_key(pair, r.func_name) + ':' + r.old_kw
    key = lambda aspect: f'keyword:{pk}:{aspect}'  # noqa: E731
    # the new spelling is the keyword found by the purpose rule (independent of the table under test),
    # the keyword named by the table only where the old name has no new spelling of its own
    slot = _slot_of(r)
    call = _render_call(spec) + (f' on {_recv_label(pair)}' if pair.receiver is not None else '')
    new_text = f'{r.target_kw}=' if r.target_kw else f'(without {r.old_kw})'
    default = r.default
    # the other renamed keywords of the function travel in their obsolete spelling too, if the case says so
    companions = {_slot_of(x): x for x in _siblings(r) if _slot_of(x) != slot} if spec.get('companions_old') else {}

    def world_fn(s):
        world = plan.world(pair.receiver, s['w'])
        given = [x for n, x in world.args if n == slot]
        if not given:
            world.missing = f'generator of {r.func_name} does not supply {slot!r}'
        else:
            world.info = dict(at_default=_equals_default(given[0], default))
        return world

    def evaluate(sides):
        v = Outcome()
        v.classes.append(f'receiver={_recv_label(pair)}')
        if _not_judged(sides, v):
            return v
        old, new = sides['old'], sides['new']
        old, new, done = _normalise_engine_failures(old, new, v, r.func_name)
        if done:
            return v
        if old.get('crashed') or new.get('crashed'):
            v.fail(key('raises'), f'{call}: the process dies under one spelling only')
            return v
        if old.get('unresolved') or new.get('unresolved'):
            raise RuntimeError(f'{pair.id}: receiver does not expose {r.func_name}')
        d = first_diff(old['before'], new['before']) if old.get('before') is not None else None
        if d:
            raise RuntimeError(f'{pair.id}: the two worlds differ before the call: {d}')
        both_raise = old['exc'] is not None and new['exc'] is not None
        if both_raise:
            v.classes.append(f'both_raise:{r.func_name}:{old["exc"][0]}')
        at_default = bool((old.get('info') or {}).get('at_default'))
        with_old = [x for n, x in companions.items() if n in (old.get('arg_names') or [])]
        v.classes.append(f'{r.func_name}:{r.old_kw}:' + ('value_is_the_default' if at_default else
                                                       'no_default_known' if default is _NO_DEFAULT else
                                                       'value_unlike_default'))
        if with_old:
            v.classes.append(f'{r.func_name}:{r.old_kw}:with_{len(with_old)}_more_obsolete_keywords')
        v.nontrivial = not both_raise and not at_default
        _compare_sides(v, old, new, key, f'{r.func_name}({r.old_kw}=...)', f'{r.func_name}({new_text}...)', call)
        # one DeprecationWarning per obsolete keyword in the call, each naming the keyword and its
        # replacement; nothing else on top of what the new spelling emits
        rest = _strip_one(old['warnings'], [_word(r.old_kw)] + ([_word(r.target_kw)] if r.target_kw else []))
        if rest is None:
            v.fail(key('warning'), f'{call}: no DeprecationWarning naming {r.old_kw!r}'
                                   f'{" and " + repr(r.target_kw) if r.target_kw else ""}; warnings: '
                                   f'{old["warnings"][:3]}')
            return v
        for x in with_old:
            less = _strip_one(rest, [_word(x.old_kw)])
            if less is None:
                v.fail(f'keyword:{_pair_key(pair, r.func_name)}:{x.old_kw}:warning',
                       f'{call}: no DeprecationWarning naming {x.old_kw!r} although the call uses it; '
                       f'warnings: {old["warnings"][:4]}')
            else:
                rest = less
        if first_diff(rest, new['warnings']):
            v.fail(key('warning'), f'{call}: besides its own warning the obsolete spelling emits {rest[:3]} '
                                   f'whereas the new spelling emits {new["warnings"][:3]}')
        return v

    by_old = {slot: r.old_kw}
    by_old.update({n: x.old_kw for n, x in companions.items()})
    by_side = dict(old=by_old, new={slot: None} if not r.target_kw else {})
    return Job(pair, ('old', 'new'), world_fn, _kw_resolver(pair), by_side, evaluate)


RENAME_BY_ID = {r.id: r for r in RENAMES}


def judge_keyword(spec) -> Outcome:
    out = Outcome()
    r = RENAME_BY_ID.get(spec['item'])
    if r is None:
        out.skipped = 'keyword renaming not present in this tree'
        return out
    out.classes.append(f'keyword={r.id}')
    for msg in rename_target_findings(r):
        out.fail(f'keyword:{_pair_key(Pair(r, r.cls), r.func_name)}:{r.old_kw}:target', msg)
    if spec.get('unplanned'):
        out.skipped = 'not judged: ' + spec['unplanned']
        return out
    if 'unbuildable' in spec['w']:
        out.skipped = 'not judged: ' + spec['w']['unbuildable']
        return out
    plan = _kw_plan(r)
    if plan.reason:
        out.skipped = 'not judged: ' + plan.reason
        return out
    kw_spec = dict(spec, style='oldkw')
    jobs = [_kw_job(kw_spec, pair, plan) for pair in RECEIVERS.get(r.id, [])]
    if not jobs:
        out.skipped = 'not judged: no class of the package exposes the function on an object that can be built'
        return out
    _sweep(out, kw_spec, jobs)
    return out


def _kw_strategy(r):
    plan = _kw_plan(r)
    if plan.reason:
        return st.just(dict(item=r.id, np_seed=0, unplanned=plan.reason))
    return st.fixed_dictionaries(dict(item=st.just(r.id), np_seed=st.integers(0, 2**31 - 1), w=plan.strategy,
                                      companions_old=st.sampled_from([True, False]) if _siblings(r) else st.just(False)))


def _render_kw(spec):
    return 'keyword ' + _render_call(spec)


# ---------------------------------------------------------------------------------------------
# one sub-check per discovered alias / keyword renaming: every one of them has its own budget, and a
# case sweeps over ALL receiver classes exposing it, so every (alias, receiver) pair is hit

QUICK_PER_ITEM, THOROUGH_PER_ITEM = 32, 640


def _make_subchecks():
    subs = []
    for a in ALIASES:
        n = len(RECEIVERS.get(a.id, []))
        unplanned = bool(_alias_plan(a).reason) or n == 0
        subs.append(SubCheck(
            f'alias:{a.id}', (lambda tier, a=a: _alias_strategy(a)), judge_alias, _render_call,
            dict(quick=QUICK_PER_ITEM, thorough=THOROUGH_PER_ITEM),
            f'{a.old_name} vs {a.new_name} on {n} receiver class(es)',
            max_skip_fraction=1.0 if unplanned else 0.25))
    for r in RENAMES:
        n = len(RECEIVERS.get(r.id, []))
        unplanned = bool(_kw_plan(r).reason) or n == 0
        subs.append(SubCheck(
            f'keyword:{r.id}', (lambda tier, r=r: _kw_strategy(r)), judge_keyword, _render_kw,
            dict(quick=QUICK_PER_ITEM, thorough=THOROUGH_PER_ITEM),
            f'{r.func_name}({r.old_kw}=) vs ({r.target_kw}=) on {n} receiver class(es), values unlike the '
            f'default, alone and next to the other obsolete keywords of the function; whole result / whole '
            f'configuration of the constructed object compared',
            max_skip_fraction=1.0 if unplanned else 0.25))
    return subs


SUBCHECKS = _make_subchecks()
RULE = (f'one sub-check per discovered alias ({len(ALIASES)}) and per discovered keyword renaming '
        f'({len(RENAMES)}); every case sweeps all receiver classes exposing the name '
        f'({len(PAIR_LIST)} (alias, receiver) pairs, {len(KW_PAIR_LIST)} (keyword, receiver) pairs); old '
        'name / obsolete spelling vs replacement / new spelling on identically built worlds: result, '
        'exception, state of receiver and arguments, files written, exactly one extra DeprecationWarning '
        'naming the replacement, purpose rule (same name in the new spelling; "Same as X" in the '
        'documentation); renamed keywords: the new spelling is the namesake keyword the function acts on '
        '(not what the renaming table says), values differ from the default (booleans both ways), '
        'alone and together with the other obsolete keywords of the function, a constructed object is '
        'compared by its complete public configuration (every parameter of its parameter table, every '
        'public attribute and property) and as a whole object graph; non-trivial: (alias) the receiver '
        'overrides the replacement or >= 2 arguments, (keyword) the value differs from the default; '
        'and the call does not raise')
