"""C01 Every expression evaluates to its mathematical value on both evaluation paths."""
from __future__ import annotations

import math

import numpy as np
from hypothesis import strategies as st

from .. import build, gen, isolate, refsem
from ..runner import Outcome, SubCheck

PROPERTY = 'C01'
LEVEL = 'exploration'
ASSUMPTIONS = [
    'reference semantics (vlib/refsem.py) written from the mathematical definitions; forward error '
    'bounds decide which cases are well-posed (regular domain); ill-posed cases are counted, not judged',
    'engine normal CDF granted 5e-9 absolute accuracy',
    'names stay inside what the signature wire format can carry (no quotes, commas, braces); set '
    'members of BelongsTo are float32-exact; dictionary keys are integers',
]
BUDGETS = dict(quick=dict(shards=8), thorough=dict(shards=16))

INTERESTING = {'Elem', 'CondSum', 'LogLogit', 'LinUtil', 'BelongsTo', 'Ref'}


def tol(ev):
    return 16 * ev.e + 1e-12 * (1 + abs(ev.v))


def reference_values(case, root, betas=None):
    """Per-row EV values of one root; raises IllPosed."""
    rows = build.table_rows(case['table'])
    out = []
    for r in rows:
        env = refsem.Env(row=r, betas=betas if betas is not None else case['betas'],
                         shared=case['shared'])
        v = refsem.evaluate(root, env, refsem.EVAlg())
        if not v.e <= 1e-7 * (1 + abs(v.v)):
            raise refsem.IllPosed('error bound too large')
        out.append(v)
    return out


def features(case, root):
    """Named structural features used to bucket failures by root cause."""
    feats = set()
    shared = case['shared']
    for n in refsem.walk(root, shared):
        if n[0] == 'CondSum':
            conds = [refsem.canon_node(c) for c, _ in n[1] if c[0] == 'Ref']
            if len(conds) != len(set(conds)):
                feats.add('condsum_shared_condition')
        if n[0] == 'LinUtil':
            free = [b[1] for b, _ in n[1] if b[5] == 0]
            if len(free) != len(set(free)):
                feats.add('linutil_repeated_beta')
        if n[0] == 'Elem' and any(not -2**31 <= int(kk) < 2**31 for kk, _ in n[2]):
            feats.add('elem_key_beyond_int32')
        if n[0] in ('Num', 'Lit') and isinstance(n[1], float) and 0 < abs(n[1]) < 2.2250738585072014e-308:
            feats.add('subnormal_constant')
    return feats


VALUE_ONLY_OPS = {'Gt', 'Ge', 'Lt', 'Le', 'Ne'}


def shared_under_value_only_context(case, root):
    """Shared sub-trees that are reached both through a position the engine differentiates and
    below an operand the engine evaluates value-only (comparison operands except Equal, logit
    choice / availabilities)."""
    shared = case['shared']
    seen = set()
    vo_refs, diff_refs = set(), set()

    def visit(node, vo):
        k = node[0]
        if k == 'Ref':
            (vo_refs if vo else diff_refs).add(node[1])
            if (node[1], vo) in seen:
                return
            seen.add((node[1], vo))
            visit(shared[node[1]], vo)
            return
        if k in VALUE_ONLY_OPS:
            visit(node[1], True)
            visit(node[2], True)
            return
        if k == 'LogLogit':
            visit(node[1], True)
            for _, u, av in node[2]:
                visit(u, vo)
                if av is not None:
                    visit(av, True)
            return
        for c in refsem.children(node):
            visit(c, vo)

    visit(root, False)
    return vo_refs & diff_refs


def classify(case, root):
    kinds = set(n[0] for n in refsem.walk(root, case['shared']))
    n_nodes = sum(1 for _ in refsem.walk(root, case['shared']))
    ops = kinds - {'Num', 'Lit', 'Beta', 'Var', 'Ref'}
    nontrivial = n_nodes >= 5 and len(ops) >= 2 and bool(kinds & INTERESTING)
    return kinds, n_nodes, nontrivial


# ---------------------------------------------------------------------------------------------
# observation (runs in a forked child)


def _observe_engine(case):
    import biogeme.database as db  # noqa

    np.random.seed(case['np_seed'])
    res = {}
    database = build.build_database(case['table'])
    betas = case['betas'] or None
    b = build.Builder(case['shared'], overloads=case['overloads'])
    exprs = [b.build(r) for r in case['roots']]
    res['str'] = [str(e)[:2000] for e in exprs]
    for i, e in enumerate(exprs):
        res[f'value_c:{i}'] = np.asarray(
            e.get_value_c(database=database, betas=betas, prepare_ids=True), dtype=float).tolist()
        fo = e.get_value_and_derivatives(database=database, betas=betas, gradient=False,
                                         hessian=False, bhhh=False, aggregation=False,
                                         prepare_ids=True)
        res[f'functions:{i}'] = np.asarray(fo.functions, dtype=float).tolist()
        res[f'aggregate:{i}'] = float(
            e.get_value_c(database=database, betas=betas, aggregation=True, prepare_ids=True))
    # the first formula object again, after its parameters were given new values (free and fixed alike)
    if case.get('reinit'):
        exprs[0].change_init_values(dict(case['reinit']))
        res['after_reinit'] = np.asarray(exprs[0].get_value_c(database=database, betas=None, prepare_ids=True),
                                         dtype=float).tolist()
    # the same formulas with every shared sub-tree expanded into fresh objects
    b2 = build.Builder(case['shared'], overloads=case['overloads'], unshare=True)
    database2 = build.build_database(case['table'])
    for i, r in enumerate(case['roots']):
        e = b2.build(r)
        res[f'unshared:{i}'] = np.asarray(
            e.get_value_c(database=database2, betas=betas, prepare_ids=True), dtype=float).tolist()
    return res


def _compare_rows(out, label, key, got, ref, case, root):
    if len(got) != len(ref):
        out.fail(key + ':length', f'{label}: {len(got)} values for {len(ref)} rows')
        return False
    for r, (g, ev) in enumerate(zip(got, ref)):
        if not (math.isfinite(g) and abs(g - ev.v) <= tol(ev)):
            out.fail(key, f'{label}: row {r}: engine {g!r} vs reference {ev.v!r} (+-{tol(ev):.2e}) '
                          f'for {refsem.render(root, case["shared"])[:300]}')
            return False
    return True


def judge_engine(case) -> Outcome:
    out = Outcome()
    try:
        refs = [reference_values(case, r) for r in case['roots']]
    except refsem.IllPosed as e:
        out.skipped = 'ill-posed: ' + str(e)[:40]
        return out
    except OverflowError:
        out.skipped = 'ill-posed: overflow'
        return out
    feats = set()
    for r in case['roots']:
        kinds, n_nodes, nt = classify(case, r)
        out.nontrivial = out.nontrivial or nt
        out.classes += [f'op:{k}' for k in sorted(kinds)]
        feats |= features(case, r)
    if any(n[0] == 'Ref' for r in case['roots'] for n in refsem.walk(r, case['shared'])):
        out.classes.append('has_sharing')
    if case['betas']:
        out.classes.append('partial_beta_dict')
    prefix = ''.join(f'[{f}]' for f in sorted(feats))
    # new values for every parameter of the first formula (a pure function of the spec), applied with
    # change_init_values after the evaluations above
    reinit, refs_reinit = {}, None
    if len(case['roots']) == 1:
        for n in refsem.walk(case['roots'][0], case['shared']):
            for bspec in ([n] if n[0] == 'Beta' else [bb for bb, _ in n[1]] if n[0] == 'LinUtil' else []):
                reinit[bspec[1]] = bspec[2] + (0.25 if len(bspec[1]) % 2 else -0.125)
        if reinit:
            try:
                refs_reinit = reference_values(case, case['roots'][0], betas=reinit)
            except (refsem.IllPosed, OverflowError):
                reinit, refs_reinit = {}, None
    case = dict(case, reinit=reinit)
    res = isolate.call(_observe_engine, case)
    if not res['ok']:
        out.fail(f'{prefix}engine:exception:{res["exc_type"]}',
                 f'well-posed formula raised {res["exc_type"]}: {res["exc_msg"][:300]} for '
                 f'{refsem.render(case["roots"][0], case["shared"])[:300]}')
        return out
    obs = res['value']
    for i, root in enumerate(case['roots']):
        ref = refs[i]
        ok = _compare_rows(out, 'get_value_c', prefix + 'engine:value_c', obs[f'value_c:{i}'], ref, case, root)
        ok = _compare_rows(out, 'get_value_and_derivatives.functions', prefix + 'engine:functions',
                           obs[f'functions:{i}'], ref, case, root) and ok
        total = sum(ev.v for ev in ref)
        total_tol = sum(tol(ev) for ev in ref) + 1e-12 * sum(abs(ev.v) for ev in ref)
        if not abs(obs[f'aggregate:{i}'] - total) <= total_tol:
            out.fail(prefix + 'engine:aggregate',
                     f'aggregated value {obs[f"aggregate:{i}"]!r} vs sum of reference rows {total!r}')
        if ok:
            # sharing must not change anything: compare with the unshared build
            a, b_ = obs[f'value_c:{i}'], obs[f'unshared:{i}']
            if len(a) != len(b_) or any(not (x == y or abs(x - y) <= 1e-13 * (1 + abs(x))) for x, y in zip(a, b_)):
                out.fail(prefix + 'engine:sharing', f'shared tree {a} differs from the expanded tree {b_}')
        else:
            _compare_rows(out, 'expanded (unshared) tree', prefix + 'engine:unshared_value', obs[f'unshared:{i}'],
                          ref, case, root)
    if refs_reinit is not None and 'after_reinit' in obs and not out.failures:
        _compare_rows(out, f'the same object after change_init_values({reinit})', prefix + 'engine:after_change_init_values',
                      obs['after_reinit'], refs_reinit, case, case['roots'][0])
    return out


def strat_engine(tier):
    return gen.expression_cases(tier)


def render_case(case):
    rows = len(case['table']['columns'][0][2])
    sh = '; '.join(f'#{i}={refsem.render(s, case["shared"])}' for i, s in enumerate(case['shared']))
    return (f'{refsem.render(case["roots"][0], case["shared"])[:500]}  where [{sh[:300]}]  on {rows} rows, '
            f'betas={case["betas"]}')


# ---------------------------------------------------------------------------------------------
# the pure-Python evaluator


def _devariable(spec, row):
    """Replace every Var by the numeric value of the given row."""
    if not isinstance(spec, list):
        return spec
    if spec and spec[0] == 'Var':
        return ['Num', row[spec[1]]]
    if spec and spec[0] == 'LinUtil':
        return ['MultSum', [['Times', b, ['Num', row[x[1]]]] for b, x in spec[1]]]
    return [_devariable(c, row) for c in spec]


def _observe_python(case):
    b = build.Builder(case['shared'], overloads=case['overloads'])
    e = b.build(case['roots'][0])
    res = {}
    if case['betas']:
        e.change_init_values(case['betas'])
    try:
        res['python'] = float(e.get_value())
    except Exception as exc:  # noqa
        res['python_exc'] = (type(exc).__name__, type(exc).__module__, str(exc)[:300])
    res['engine'] = float(e.get_value_c(prepare_ids=True))
    return res


def judge_python(case0) -> Outcome:
    out = Outcome()
    rows = build.table_rows(case0['table'])
    row = rows[case0.get('row', 0) % len(rows)]
    case = dict(case0)
    case['shared'] = [_devariable(s, row) for s in case0['shared']]
    case['roots'] = [_devariable(case0['roots'][0], row)]
    case['table'] = dict(columns=[['only', 'float', [0.0]]])
    root = case['roots'][0]
    try:
        env = refsem.Env(row={}, betas=case['betas'], shared=case['shared'])
        ev = refsem.evaluate(root, env, refsem.EVAlg())
        if ev.e > 1e-7 * (1 + abs(ev.v)):
            raise refsem.IllPosed('bound')
    except (refsem.IllPosed, OverflowError) as e:
        out.skipped = 'ill-posed: ' + str(e)[:40]
        return out
    kinds, n_nodes, nt = classify(case, root)
    out.nontrivial = n_nodes >= 5 and len(kinds - {'Num', 'Lit', 'Beta', 'Ref'}) >= 2
    out.classes += [f'op:{k}' for k in sorted(kinds)]
    prefix = ''.join(f'[{f}]' for f in sorted(features(case, root)))
    res = isolate.call(_observe_python, case)
    if not res['ok']:
        out.fail(f'{prefix}python:engine_exception:{res["exc_type"]}',
                 f'variable-free formula raised {res["exc_type"]}: {res["exc_msg"][:300]} for '
                 f'{refsem.render(root, case["shared"])[:300]}')
        return out
    obs = res['value']
    if not abs(obs['engine'] - ev.v) <= tol(ev):
        out.fail(prefix + 'python:engine_value', f'engine (no database) {obs["engine"]!r} vs reference {ev.v!r} for '
                                        f'{refsem.render(root, case["shared"])[:300]}')
    if 'python' in obs:
        out.classes.append('python_accepts')
        if not (math.isfinite(obs['python']) and abs(obs['python'] - ev.v) <= tol(ev)):
            out.fail('python:value', f'get_value() {obs["python"]!r} vs reference {ev.v!r} for '
                                     f'{refsem.render(root, case["shared"])[:300]}')
    else:
        t, m, msg = obs['python_exc']
        out.classes.append(f'python_refuses:{t}')
        # refusing is allowed ("where the Python evaluator accepts the formula"), but only
        # with the library's own error types
        if t not in ('BiogemeError', 'NotImplementedError') or not m.startswith('biogeme'):
            out.fail(f'python:refusal_type:{t}', f'get_value() raised {m}.{t}: {msg} for '
                                                 f'{refsem.render(root, case["shared"])[:300]}')
    return out


def _shift_logits(node, c):
    """Add the constant c to every utility of every logit below `node` (utilities in raw units / a large common term):
    a logit depends on utility differences only."""
    if not isinstance(node, list):
        return node
    if node and node[0] == 'LogLogit':
        entries = [[a, ['Plus', _shift_logits(u, c), ['Num', c]], _shift_logits(av, c)] for a, u, av in node[2]]
        return [node[0], _shift_logits(node[1], c), entries] + node[3:]
    return [_shift_logits(x, c) for x in node]


@st.composite
def strat_python(draw, tier):
    case = draw(gen.expression_cases(tier, logit=True))
    case['row'] = draw(st.integers(0, 11))
    if draw(st.floats(0, 1)) < 0.25:
        c = draw(st.sampled_from([300.0, -300.0, 720.0, -760.0, 1000.0]))
        case['roots'] = [_shift_logits(r, c) for r in case['roots']]
        case['shared'] = [_shift_logits(s_, c) for s_ in case['shared']]
        case['logit_shift'] = c
    return case


# ---------------------------------------------------------------------------------------------
# several formulas side by side (BIOGEME.simulate)


def _observe_side(case):
    import biogeme.biogeme as bio
    from biogeme.parameters import Parameters

    np.random.seed(case['np_seed'])
    database = build.build_database(case['table'])
    b = build.Builder(case['shared'], overloads=case['overloads'])
    names = case['formula_names']
    formulas = {names[i]: b.build(r) for i, r in enumerate(case['roots'])}
    the = bio.BIOGEME(database, formulas, parameters=Parameters())
    the.modelName = 'verif_c01'
    the.generate_html = False
    the.generate_pickle = False
    values = the.simulate(the_beta_values=case['full_betas'])
    res = {n: np.asarray(values[n], dtype=float).tolist() for n in names}
    res['columns'] = list(values.columns)
    res['index'] = [int(i) for i in values.index]
    return res


def judge_side(case) -> Outcome:
    out = Outcome()
    try:
        refs = [reference_values(case, r, betas=case['full_betas']) for r in case['roots']]
    except (refsem.IllPosed, OverflowError) as e:
        out.skipped = 'ill-posed: ' + str(e)[:40]
        return out
    feats = set()
    for r in case['roots']:
        feats |= features(case, r)
    prefix = ''.join(f'[{f}]' for f in sorted(feats))
    shared_between = False
    seen = {}
    for i, r in enumerate(case['roots']):
        for n in refsem.walk(r, case['shared']):
            if n[0] == 'Ref':
                if n[1] in seen and seen[n[1]] != i:
                    shared_between = True
                seen.setdefault(n[1], i)
    out.nontrivial = len(case['roots']) >= 2 and any(classify(case, r)[2] for r in case['roots'])
    out.classes.append(f'formulas={len(case["roots"])}')
    if shared_between:
        out.classes.append('subtree_shared_across_formulas')
    res = isolate.call(_observe_side, case)
    if not res['ok']:
        out.fail(f'{prefix}side:exception:{res["exc_type"]}',
                 f'simulate of well-posed formulas raised {res["exc_type"]}: {res["exc_msg"][:400]}')
        return out
    obs = res['value']
    if obs['columns'] != case['formula_names']:
        out.fail('side:columns', f'columns {obs["columns"]} for formulas {case["formula_names"]}')
    for i, root in enumerate(case['roots']):
        _compare_rows(out, f'simulate column {case["formula_names"][i]!r}', prefix + 'side:value',
                      obs[case['formula_names'][i]], refs[i], case, root)
    return out


@st.composite
def strat_side(draw, tier):
    k = draw(st.integers(2, 4))
    case = draw(gen.expression_cases(tier, n_formulas=k))
    names = draw(st.lists(st.sampled_from(['V1', 'v1', 'V10', 'V2', 'prob', 'Prob.', 'log like', 'a', 'Z', 'weight_']),
                          min_size=k, max_size=k, unique=True))
    case['formula_names'] = names
    # simulate needs a value for every free parameter
    full = {}
    for n in _all_betas(case):
        if n[5] == 0:
            full[n[1]] = case['betas'].get(n[1], n[2])
    case['full_betas'] = full
    return case


def _all_betas(case):
    seen = {}
    for r in case['roots']:
        for n in refsem.walk(r, case['shared']):
            if n[0] == 'Beta':
                seen[n[1]] = n
            if n[0] == 'LinUtil':
                for b, _ in n[1]:
                    seen[b[1]] = b
    return list(seen.values())


SUBCHECKS = [
    SubCheck('engine', strat_engine, judge_engine, render_case, dict(quick=4000, thorough=120000),
             'typed random trees (all operator kinds, Ref-sharing, literals, overloads) on random tables; '
             'non-trivial: well-posed, >=5 nodes, >=2 operator kinds, one of {shared sub-tree, Elem, '
             'ConditionalSum, LogLogit, bioLinearUtility, BelongsTo}', max_skip_fraction=0.2),
    SubCheck('python', strat_python, judge_python, render_case, dict(quick=2000, thorough=50000),
             'variable-free instance of a random tree (columns replaced by one row\'s numbers): '
             'get_value() vs reference vs engine without database', max_skip_fraction=0.2),
    SubCheck('side_by_side', strat_side, judge_side, render_case, dict(quick=800, thorough=20000),
             '2-4 formulas sharing sub-trees simulated together through BIOGEME.simulate',
             max_skip_fraction=0.3),
]
RULE = ' | '.join(f'{s.name}: {s.rule}' for s in SUBCHECKS)
